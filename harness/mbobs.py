"""Observation records for real mailbox-level runs: what the application saw, plus the ground truth
the harness knows because it *is* the environment (what was sent, what was tampered with, what the
server tables contained at the moment of the closed notification).  One JSON object per run; the
TLA+ observer spec/MailboxObs.tla evaluates the properties on it."""
import os
import unicodedata

from .mbconf import _verdict_name

DOCUMENTED_API_ERRORS = {"KeyFormatError", "OnlyOneCodeError", "MustChooseNameplateFirstError",
                         "AlreadyChoseNameplateError", "AlreadyChoseWordsError", "NoKeyError",
                         "AlreadyInputNameplateError", "WormholeClosed"}


class Tracker:
    """Attached to a MailboxWorld; updated after every step (world.apply)."""

    def __init__(self, world, bind, order_preserving=True):
        self.w, self.bind = world, bind
        self.order_preserving = order_preserving
        self.tampered = False
        self.cl = {}
        for name, cl in world.clients.items():
            self.cl[name] = {"triggers": [], "pake_ok": False, "good_nonpake": False, "bad_seen": False,
                             "heard": False, "honest_phases": set(), "nev": 0, "nmsg": 0, "unbacked": [], "at_close": None, "nclosed_seen": 0, "ever_opened": False,
                             "close_frames": [], "welcome_err": False}
        self._orig_deliver = world._deliver
        world._deliver = self._deliver_hook
        self._orig_handle = world.server.handle
        world.server.handle = self._handle_hook
        world.tracker_hook = self._hook

    def _hook(self, what, cl):
        if what == "reent_close":
            self.cl[cl.name]["triggers"].append(("app", self.saw_peer(cl.name)))

    # -- ground truth about frames ----------------------------------------------------------------
    def _handle_hook(self, conn, msg):
        name = conn.client.name
        if msg.get("type") == "open":
            self.cl[name]["ever_opened"] = True
        if msg.get("type") == "claim":
            self.cl[name].setdefault("known_np", set()).add(msg.get("nameplate"))
        if msg.get("type") == "close":
            self.cl[name]["close_frames"].append(msg.get("mood"))
        return self._orig_handle(conn, msg)

    def codes_match(self):
        cs = list(self.w.clients.values())
        if len(cs) != 2:
            return False
        a, b = cs
        ca, cb = getattr(a, "code_used", None), getattr(b, "code_used", None)
        if ca is None or cb is None:
            return False
        n = lambda s: unicodedata.normalize("NFC", s)
        return n(ca) == n(cb) and a.appid == b.appid

    def saw_peer(self, name):
        st = self.cl[name]
        cl = self.w.clients[name]
        return bool(getattr(cl, "code_used", None)) and st["pake_ok"] and st["good_nonpake"]

    def _deliver_hook(self, conn, msg):
        name = conn.client.name
        cl = conn.client
        st = self.cl[name]
        t = msg.get("type")
        if t == "allocated":
            st.setdefault("known_np", set()).add(msg.get("nameplate"))
        if t == "welcome" and "error" in msg.get("welcome", {}):
            st["triggers"].append(("welcome", self.saw_peer(name)))
        elif t == "error":
            st["triggers"].append(("server", self.saw_peer(name)))
        elif t == "message" and msg.get("side") != cl.side:
            honest = self._honest(msg)
            if honest and self.codes_match() and msg["phase"] != "pake":
                st["honest_phases"].add(msg["phase"])
            if honest and self.codes_match():
                if msg["phase"] == "pake":
                    st["pake_ok"] = True
                else:
                    st["good_nonpake"] = True
            elif honest and msg["phase"] == "pake":
                st["pake_ok"] = True       # a usable PAKE message, but for another password
            else:
                st["bad_seen"] = True
            if msg["phase"] != "pake":
                st["heard"] = True
            if not (honest and self.codes_match()) and not (honest and msg["phase"] == "pake"):
                st["triggers"].append(("scared", self.saw_peer(name)))
            elif honest and not self.codes_match() and msg["phase"] != "pake":
                st["triggers"].append(("scared", False))
        return self._orig_deliver(conn, msg)

    def _honest(self, msg):
        """Was this exact (side, phase, body) added by the wormhole whose side it names?"""
        for other in self.w.clients.values():
            if other.side == msg.get("side"):
                return (msg.get("phase"), msg.get("body")) in getattr(other, "added", set())
        return False

    # -- per step -------------------------------------------------------------------------------
    def before(self, act):
        a = act["a"]
        if a in ("AppSetCode", "AppHelper", "AppAllocate", "AppInput"):
            self._nerr_before = len(self.w.clients[act["c"]].api_errors)
        if a == "AppClose":
            name = act["c"]
            self.cl[name]["triggers"].append(("app", self.saw_peer(name)))
        elif a == "ConnFail":
            self.cl[act["c"]]["triggers"].append(("connfail", False))
        elif a in ("TamperS2C", "Inject", "Dup", "SwapS2C", "WithholdS2C"):
            if a in ("TamperS2C", "Inject", "WithholdS2C"):
                self.tampered = True
            if a in ("SwapS2C", "Inject", "TamperS2C", "WithholdS2C"):
                self.order_preserving = False
        elif a == "ArmRaise":
            self.app_bug = True
        elif a == "Serve":
            conn = self.w.conn(act["k"])
            if conn.c2s and conn.c2s[0].get("type") == "add":
                f = conn.c2s[0]
                cl = conn.client
                if not hasattr(cl, "added"):
                    cl.added = set()
                cl.added.add((f["phase"], f["body"]))
        elif a == "CloseDone":
            conn = self.w.conn(act["k"])
            for f in conn.c2s:
                if f.get("type") == "add":
                    cl = conn.client
                    if not hasattr(cl, "added"):
                        cl.added = set()
                    cl.added.add((f["phase"], f["body"]))
        elif a == "AppSetCode":
            cl = self.w.clients[act["c"]]
            if not getattr(cl, "code_used", None):
                cl.code_attempt = act["code"]
        elif a == "AppHelper" and act.get("m") in ("choose_nameplate", "choose_words") and act.get("args"):
            cl = self.w.clients[act["c"]]
            if not hasattr(cl, "typed"):
                cl.typed = {}
            cl.typed.setdefault(act["m"], act["args"][0])

    def after(self, act):
        # what the application gave as its code - counted only when the call was accepted (no exception out of it)
        if act["a"] in ("AppSetCode", "AppHelper") and len(self.w.clients[act["c"]].api_errors) == getattr(self, "_nerr_before", 0):
            cl = self.w.clients[act["c"]]
            if act["a"] == "AppSetCode":
                cl.code_given = act["code"]
            elif act.get("m") in ("choose_nameplate", "choose_words") and act.get("args"):
                if not hasattr(cl, "typed_ok"):
                    cl.typed_ok = {}
                cl.typed_ok[act["m"]] = act["args"][0]
        for name, cl in self.w.clients.items():
            st = self.cl[name]
            # every plaintext handed to the application must be backed by a frame that its named sender really
            # added under exactly that phase, delivered to this client beforehand (C02)
            for k, _ in cl.events[st["nev"]:]:
                if k == "versions" and "version" not in st["honest_phases"]:
                    st["unbacked"].append("versions")
                elif k == "message":
                    if str(st["nmsg"]) not in st["honest_phases"]:
                        st["unbacked"].append("message#%d" % st["nmsg"])
                    st["nmsg"] += 1
            st["nev"] = len(cl.events)
            # the code of this side: what its application gave it (set_code, or nameplate and words typed into the input helper) -
            # whatever the wormhole then reports; for an allocated code, what the 'code' event reports
            for k, v in cl.events:
                if k == "code":
                    typed = getattr(cl, "typed_ok", {})
                    if getattr(cl, "code_given", None) and not getattr(cl, "code_used", None):
                        cl.code_used = cl.code_given
                    elif "choose_nameplate" in typed and "choose_words" in typed and not getattr(cl, "code_used", None):
                        cl.code_used = typed["choose_nameplate"] + "-" + typed["choose_words"]
                    elif not getattr(cl, "code_used", None):
                        cl.code_used = v
            n = sum(1 for k, _ in cl.events if k == "closed")
            if n > st["nclosed_seen"]:
                st["nclosed_seen"] = n
                if st["at_close"] is None:
                    st["at_close"] = self._snapshot(cl)

    def _snapshot(self, cl):
        srv = self.w.server
        conn = self.w.live_conn(cl)
        closed_mood = "-"
        listening = False
        for app in srv.apps.values():
            for mb in list(app["mailboxes"].values()) + [dict(moods=v["moods"], listeners=[]) for v in
                                                         app.get("closed_mailboxes", {}).values()]:
                for s, mood in mb.get("moods", []):
                    if s == cl.side:
                        closed_mood = mood or "-"
                for l in mb.get("listeners", []):
                    if l.client is cl:
                        listening = True
        # a nameplate the server allocated but whose `allocated` reply never reached the client is not a
        # claim the client knows about (DESIGN 3.1)
        known = self.cl[cl.name].get("known_np", set())
        claimed = any(np["sides"].get(cl.side) for n, np in srv.app(cl.appid)["nameplates"].items() if n in known)
        return {"claimed": claimed, "up": conn is not None,
                "everOpened": self.cl[cl.name]["ever_opened"], "closedMood": closed_mood, "listening": listening}

    # -- the record -------------------------------------------------------------------------------
    def record(self, tid, drained, goal=False, extra=None):
        w, bind = self.w, self.bind
        names = sorted(w.clients)
        ids = {}

        def ident(prefix, val):
            key = (prefix, val)
            if key not in ids:
                ids[key] = "%s%d" % (prefix, len([k for k in ids if k[0] == prefix]) + 1)
            return ids[key]
        out = {"tid": tid, "cl": {}, "internal": [], "orderPreserving": bool(self.order_preserving and not self.tampered), "tampered": bool(self.tampered), "appBug": bool(getattr(self, "app_bug", False)),
               "drained": bool(drained), "goal": bool(goal), "match": self.codes_match(),
               "bothCoded": all(getattr(c, "code_used", None) for c in w.clients.values())}
        for (n, entry, e) in w.internal:
            out["internal"].append("%s:%s:%s" % (n, entry, describe_exc(e)))
        for e in w.logged:
            s = describe_exc(e)
            if is_internal_logged(e) and not any(s in x for x in out["internal"]):
                out["internal"].append("log:" + s)
        for name in names:
            cl = w.clients[name]
            peer = [c for c in w.clients.values() if c is not cl]
            peer = peer[0] if len(peer) == 1 else None
            ev = []
            verifier = "-"
            for k, v in cl.events:
                if k.endswith("!"):
                    continue
                if k == "message":
                    sym = "forged:" + v.hex()[:16]
                    if peer is not None and v in peer.sent:
                        sym = "m:%s:%d" % (peer.name, peer.sent.index(v))
                    ev.append({"k": k, "v": sym})
                elif k == "versions":
                    ok = peer is not None and v == getattr(peer, "app_versions", {})
                    ev.append({"k": k, "v": ("ver:" + peer.name) if ok else "forged"})
                elif k == "verifier":
                    verifier = ident("V", v)
                    ev.append({"k": k, "v": verifier})
                elif k == "closed":
                    ev.append({"k": k, "v": _verdict_name(v)})
                elif k == "code":
                    ev.append({"k": k, "v": "code"})
                else:
                    ev.append({"k": k, "v": ""})
            late = []
            derived = []
            for kind, when, res in cl.late:
                if kind.startswith("derive:"):
                    derived.append((kind, res))
                    continue
                if kind.startswith("helper."):
                    continue
                closed_before = bool(getattr(cl, "closed_at", None) is not None and when > cl.closed_at)
                r = "pending" if res is None else res[0]
                late.append({"kind": kind, "res": r, "closedBefore": closed_before})
            # compared per (purpose, length) - the two sides ask in different orders -, each request's results listed in call order
            bykey = {}
            for kind, r in derived:
                bykey.setdefault(kind, []).append(ident("D", r) if isinstance(r, bytes) else "exc:" + type(r).__name__)
            dvals = [[k] + v for k, v in sorted(bykey.items())]
            dd = True
            seen = {}
            for (kind, r) in derived:
                if isinstance(r, bytes):
                    purpose, n = kind.rsplit(":", 1)[0].split(":", 1)[1], kind.rsplit(":", 1)[1]
                    if len(r) != int(n):
                        dd = False          # not the length that was asked for
                    if seen.get((purpose, n), r) != r:
                        dd = False          # the same request answered differently
                    for (p2, n2), r2 in seen.items():
                        if n2 == n and p2 != purpose and r2 == r:
                            dd = False
                    seen[(purpose, n)] = r
            st = self.cl[name]
            causes = []
            for cause, sp in st["triggers"]:
                causes.append({"cause": cause, "sawPeer": bool(sp)})
                if self.tampered or self._dupswap:
                    causes.append({"cause": cause, "sawPeer": not sp})
                if cause != "scared":
                    break
            if not causes:
                causes = [{"cause": "none", "sawPeer": False}]
            api_err = ["%s:%s" % (call, type(e).__name__) for call, e in cl.api_errors
                       if type(e).__name__ not in DOCUMENTED_API_ERRORS]
            out["cl"][name] = {
                "mode": cl.mode + ("-lazy" if getattr(cl, "lazy", False) else "") + ("-chasing" if getattr(cl, "chasing", False) else ""), "ev": ev, "sent": ["m:%s:%d" % (name, i) for i in range(len(cl.sent))],
                "late": late, "apiErr": api_err, "ordered": True, "causes": causes,
                "atClose": st["at_close"] or {"claimed": False, "up": False, "everOpened": False, "closedMood": "-",
                                              "listening": False},
                "closeCalled": cl.close_called, "dead": bool(getattr(cl, "dead", False)),
                "codeApi": list(cl.code_api),
                "selfClosed": getattr(self, "self_closed", {}).get(name, "-"),
                "verifier": verifier, "derived": dvals, "derivedDistinct": dd, "heard": st["heard"], "unbacked": list(st["unbacked"]),
                "statusHist": [list(x) for x in getattr(cl, "statuses", [])],
            }
        if extra:
            out.update(extra)
        return out

    _dupswap = False


def describe_exc(e):
    """Stable description: type, innermost frame (file:function) and message."""
    if isinstance(e, BaseException):
        where = ""
        tb = e.__traceback__
        while tb is not None and tb.tb_next is not None:
            tb = tb.tb_next
        if tb is not None:
            co = tb.tb_frame.f_code
            where = "@%s:%s" % (os.path.basename(co.co_filename), co.co_name)
        return "%s%s(%s)" % (type(e).__name__, where, str(e)[:120])
    return str(e)[:160]


def is_internal_logged(e):
    """log.err'd failures that count as internal failures (C14): everything except the two
    forward-compatibility notices that only a non-conformant peer can provoke (DESIGN 3.1)."""
    n = type(e).__name__
    return n not in ("_UnknownPhaseError", "_UnknownMessageTypeError", "ConnectionDone", "ConnectionLost", "str")
