"""Python twin of spec/MailboxServer.tla: the mailbox ("rendezvous") server as the protocol
exposes it.  Written from docs/server-protocol.rst and wormhole_mailbox_server 0.8
(server_websocket.py / server.py); differential-checked against the latter in
harness/fidelity.py.

All state is in plain dicts/lists so that it can be projected and compared with the TLA+
state.  Replies are appended to `conn.s2c` by `conn.send()`; nothing is delivered by itself.
"""


class SrvError(Exception):
    pass


class ServerTwin:
    def __init__(self, welcome=None, acks=False, allow_list=True):
        self.welcome = dict(welcome or {})
        self.acks = acks
        self.allow_list = allow_list
        self.apps = {}
        self._mbseq = 0
        self.next_nameplates = []     # schedule-provided allocation answers
        self.log = []                 # every command processed: (connid, side, type, summary)

    # ---- tables
    def app(self, appid):
        return self.apps.setdefault(appid, {"nameplates": {}, "mailboxes": {}})

    def _new_mailbox_id(self):
        self._mbseq += 1
        return "mb%d" % self._mbseq

    # ---- connection life cycle
    def connect(self, conn):
        conn.srv = dict(app=None, appid=None, side=None, did_allocate=False, listening=False,
                        did_claim=False, nameplate_id=None, did_release=False, mailbox=None,
                        mailbox_id=None, did_close=False)
        conn.send({"type": "welcome", "welcome": dict(self.welcome)})

    def disconnect(self, conn):
        f = getattr(conn, "srv", None)
        if f and f["mailbox"] is not None and f["listening"]:
            mb = f["app"]["mailboxes"].get(f["mailbox"])
            if mb is not None and conn in mb["listeners"]:
                mb["listeners"].remove(conn)

    # ---- commands
    def handle(self, conn, msg):
        f = conn.srv
        try:
            if "type" not in msg:
                raise SrvError("missing 'type'")
            if self.acks:
                conn.send({"type": "ack", "id": msg.get("id")})
            t = msg["type"]
            self.log.append((conn.id, f["side"], t, msg.get("phase") or msg.get("nameplate")
                             or msg.get("mailbox") or ""))
            if t == "ping":
                if "ping" not in msg:
                    raise SrvError("ping requires 'ping'")
                return conn.send({"type": "pong", "pong": msg["ping"]})
            if t == "bind":
                return self._bind(conn, f, msg)
            if f["app"] is None:
                raise SrvError("must bind first")
            h = {"list": self._list, "allocate": self._allocate, "claim": self._claim,
                 "release": self._release, "open": self._open, "add": self._add,
                 "close": self._close}.get(t)
            if h is None:
                raise SrvError("unknown type")
            return h(conn, f, msg)
        except SrvError as e:
            conn.send({"type": "error", "error": e.args[0], "orig": msg})

    def _bind(self, conn, f, msg):
        if f["app"] is not None or f["side"]:
            raise SrvError("already bound")
        if "appid" not in msg:
            raise SrvError("bind requires 'appid'")
        if "side" not in msg:
            raise SrvError("bind requires 'side'")
        f["appid"] = msg["appid"]
        f["app"] = self.app(msg["appid"])
        f["side"] = msg["side"]

    def _list(self, conn, f, msg):
        ids = sorted(f["app"]["nameplates"]) if self.allow_list else []
        conn.send({"type": "nameplates", "nameplates": [{"id": n} for n in ids]})

    def _find_nameplate(self, app):
        if self.next_nameplates:
            return self.next_nameplates.pop(0)
        if getattr(self, "alloc_nameplate", None):
            return self.alloc_nameplate
        n = 1
        while str(n) in app["nameplates"]:
            n += 1
        return str(n)

    def _allocate(self, conn, f, msg):
        if f["did_allocate"]:
            raise SrvError("you already allocated one, don't be greedy")
        name = self._find_nameplate(f["app"])
        self._claim_nameplate(f["app"], name, f["side"])
        f["did_allocate"] = True
        conn.send({"type": "allocated", "nameplate": name})

    def _claim_nameplate(self, app, name, side):
        np = app["nameplates"].get(name)
        if np is None:
            mbid = self._new_mailbox_id()
            self._add_mailbox(app, mbid, True)
            np = app["nameplates"][name] = {"mailbox": mbid, "sides": {}}
        if side not in np["sides"]:
            np["sides"][side] = True
        elif not np["sides"][side]:
            raise SrvError("reclaimed")
        self._open_mailbox(app, np["mailbox"], side)      # may raise crowded
        if len(np["sides"]) > 2:
            raise SrvError("crowded")
        return np["mailbox"]

    def _add_mailbox(self, app, mbid, for_nameplate):
        if mbid not in app["mailboxes"]:
            app["mailboxes"][mbid] = {"sides": {}, "messages": [], "listeners": [],
                                      "for_nameplate": for_nameplate}

    def _open_mailbox(self, app, mbid, side):
        self._add_mailbox(app, mbid, False)
        mb = app["mailboxes"][mbid]
        if side not in mb["sides"]:
            mb["sides"][side] = {"opened": True, "mood": None}
        if len(mb["sides"]) > 2:
            raise SrvError("crowded")
        return mb

    def _claim(self, conn, f, msg):
        if "nameplate" not in msg:
            raise SrvError("claim requires 'nameplate'")
        if f["did_claim"]:
            raise SrvError("only one claim per connection")
        f["did_claim"] = True
        f["nameplate_id"] = msg["nameplate"]
        mbid = self._claim_nameplate(f["app"], msg["nameplate"], f["side"])
        conn.send({"type": "claimed", "mailbox": mbid})

    def _release(self, conn, f, msg):
        if f["did_release"]:
            raise SrvError("only one release per connection")
        if "nameplate" in msg:
            if f["nameplate_id"] is not None and msg["nameplate"] != f["nameplate_id"]:
                raise SrvError("release and claim must use same nameplate")
            name = msg["nameplate"]
        else:
            if f["nameplate_id"] is None:
                raise SrvError("release without nameplate must follow claim")
            name = f["nameplate_id"]
        f["did_release"] = True
        app = f["app"]
        np = app["nameplates"].get(name)
        if np is not None and f["side"] in np["sides"]:
            np["sides"][f["side"]] = False
            if not any(np["sides"].values()):
                del app["nameplates"][name]
        conn.send({"type": "released"})

    def _open(self, conn, f, msg):
        if f["mailbox"] is not None:
            raise SrvError("only one open per connection")
        if "mailbox" not in msg:
            raise SrvError("open requires 'mailbox'")
        mbid = msg["mailbox"]
        f["mailbox_id"] = mbid
        mb = self._open_mailbox(f["app"], mbid, f["side"])
        f["mailbox"] = mbid
        f["listening"] = True
        mb["listeners"].append(conn)
        order = list(range(len(mb["messages"])))
        if getattr(conn, "replay_order", None):
            order = conn.replay_order(order)
        for i in order:
            self._send_msg(conn, mb["messages"][i])

    @staticmethod
    def _send_msg(conn, sm):
        conn.send({"type": "message", "side": sm["side"], "phase": sm["phase"],
                   "body": sm["body"], "id": sm.get("id")})

    def _add(self, conn, f, msg):
        if f["mailbox"] is None:
            raise SrvError("must open mailbox before adding")
        if "phase" not in msg:
            raise SrvError("missing 'phase'")
        if "body" not in msg:
            raise SrvError("missing 'body'")
        sm = {"side": f["side"], "phase": msg["phase"], "body": msg["body"], "id": msg.get("id")}
        self.add_message(f["app"], f["mailbox"], sm)

    def add_message(self, app, mbid, sm):
        mb = app["mailboxes"].get(mbid)
        if mb is None:          # mailbox was deleted under an open handle: stored nowhere, still broadcast
            return
        mb["messages"].append(sm)
        for l in list(mb["listeners"]):
            self._send_msg(l, sm)

    def _close(self, conn, f, msg):
        if f["did_close"]:
            raise SrvError("only one close per connection")
        if "mailbox" in msg:
            if f["mailbox_id"] is not None and msg["mailbox"] != f["mailbox_id"]:
                raise SrvError("open and close must use same mailbox")
            mbid = msg["mailbox"]
        else:
            if f["mailbox_id"] is None:
                raise SrvError("close without mailbox must follow open")
            mbid = f["mailbox_id"]
        app = f["app"]
        if f["mailbox"] is None:
            self._open_mailbox(app, mbid, f["side"])
        mb = app["mailboxes"].get(mbid)
        if mb is None:
            # a handle left over from before the mailbox was deleted (closed by the last side through another
            # connection): Mailbox.close() finds no row and does nothing; the reply is `closed` all the same
            f["listening"] = False
            f["did_close"] = True
            f["mailbox"] = None
            conn.send({"type": "closed"})
            return
        if f["listening"]:
            if conn in mb["listeners"]:
                mb["listeners"].remove(conn)
            f["listening"] = False
        f["did_close"] = True
        side = f["side"]
        if side in mb["sides"]:
            mb["sides"][side]["opened"] = False
            mb["sides"][side]["mood"] = msg.get("mood")
            mb.setdefault("moods", []).append((side, msg.get("mood")))
            if not any(s["opened"] for s in mb["sides"].values()):
                # last side out: delete mailbox, its nameplate and messages
                for name, np in list(app["nameplates"].items()):
                    if np["mailbox"] == mbid:
                        del app["nameplates"][name]
                # (a client that lost the `closed` reply closes again after reconnecting: that re-creates and
                # re-deletes the mailbox; the record of who closed with which mood accumulates)
                prev = app.setdefault("closed_mailboxes", {}).get(mbid, {"moods": [], "sides": []})
                app["closed_mailboxes"][mbid] = {
                    "moods": prev["moods"] + list(mb.get("moods", [])),
                    "sides": sorted(set(prev["sides"]) | set(mb["sides"]))}
                mb["listeners"][:] = []
                del app["mailboxes"][mbid]
        f["mailbox"] = None
        conn.send({"type": "closed"})

    # ---- conformant-but-unhelpful behaviours (fault actions of the environment model)
    def dup_message(self, conn, k):
        """Deliver stored message k of conn's mailbox once more to conn."""
        f = conn.srv
        mb = f["app"]["mailboxes"].get(f["mailbox"]) if f["app"] and f["mailbox"] else None
        if mb is None or not f["listening"] or k >= len(mb["messages"]):
            return False
        self._send_msg(conn, mb["messages"][k])
        return True

    # ---- projection
    def claims(self, appid):
        """{nameplate: {side: claimed}}"""
        return {n: dict(np["sides"]) for n, np in self.app(appid)["nameplates"].items()}

    def opens(self, appid):
        return {m: {s: v["opened"] for s, v in mb["sides"].items()}
                for m, mb in self.app(appid)["mailboxes"].items()}

    def side_has_claim(self, appid, side):
        return any(np["sides"].get(side) for np in self.app(appid)["nameplates"].values())

    def side_has_open(self, appid, side):
        return any(mb["sides"].get(side, {}).get("opened") for mb in self.app(appid)["mailboxes"].values())
