"""Environment-fidelity checks (DESIGN 2.9).  These are not property checks: they keep the simulated environment
honest.  `python -m harness.fidelity` (or `./check selftest`) runs them all and exits non-zero on a mismatch.

(a) the Python server twin (harness/mbserver.py, the executable reading of spec/MailboxServer.tla) against the
    real wormhole_mailbox_server protocol objects on the same random command sequences: every reply on every
    connection must agree (types, fields, order), with nameplate / mailbox ids compared up to renaming;
(b) the Noise stand-in against noiseprotocol's documented length rules and the constants of dilation/_noise.py;
(c) the simulated TCP transport against the Twisted behaviours the code relies on.
"""
import collections
import json
import random
import sys
import types

from . import sim

reactor = sim.install()

from .mbserver import ServerTwin  # noqa: E402


# --------------------------------------------------------------------------------------------- (a) server twin
class _TwinConn:
    n = 0

    def __init__(self):
        _TwinConn.n += 1
        self.id = _TwinConn.n
        self.out = []

    def send(self, msg):
        self.out.append(dict(msg))


class _RealConn:
    def __init__(self, server):
        from wormhole_mailbox_server.server_websocket import WebSocketServer
        self.out = []
        self.p = WebSocketServer()
        self.p.factory = types.SimpleNamespace(_server=server)
        self.p.get_your_address = lambda: "addr"
        self.p.sendMessage = lambda payload, isBinary: self.out.append(json.loads(payload.decode("utf-8")))
        self.p.onOpen()

    def handle(self, msg):
        self.p.onMessage(json.dumps(msg).encode("utf-8"), False)

    def close(self):
        self.p.onClose(True, None, None)


def _canon(frames, names):
    """replies with volatile members removed and server-chosen ids renamed in order of first appearance"""
    out = []
    for fr in frames:
        fr = {k: v for k, v in fr.items() if k not in ("server_tx", "server_rx", "id")}
        t = fr.get("type")
        if t == "ack":
            continue
        if t == "welcome":
            fr = {"type": "welcome", "error": fr.get("welcome", {}).get("error")}
        if t == "error":
            fr = {"type": "error", "error": fr.get("error"), "orig_type": (fr.get("orig") or {}).get("type")}
        if t in ("claimed",):
            fr["mailbox"] = names.setdefault(("mb", fr["mailbox"]), "MB%d" % (len([k for k in names if k[0] == "mb"]) + 1))
        if t == "nameplates":
            fr["nameplates"] = sorted(x["id"] for x in fr["nameplates"])
        out.append(fr)
    return out


def server_twin_differential(nseq=300, seed=0, steps=40):
    from wormhole_mailbox_server.database import create_channel_db
    from wormhole_mailbox_server.server import make_server
    rng = random.Random(seed)
    random.seed(seed)             # the real server draws nameplates from the global generator
    mismatches = []
    replies = {}
    crashes = {}
    commands = 0
    for s in range(nseq):
        real = make_server(create_channel_db(":memory:"))
        twin = ServerTwin(acks=False)
        rn, tn = {}, {}
        conns = []          # (real conn, twin conn)
        sides = ["s1", "s2", "s3", "s4"]
        side_app = {"s1": "app", "s2": "app", "s3": "app", "s4": "app2"}
        side_np = {"s1": "1", "s2": "1", "s3": rng.choice(["1", "2"]), "s4": "1"}
        conn_side = {}
        nameplates = ["1", "2"]
        mailboxes = []      # real mailbox ids seen, twin ids seen (parallel)
        bound = {}          # connection index -> appid it bound
        abandoned = False
        closed_conns = set()
        log = []
        for _ in range(steps):
            if not conns or rng.random() < 0.12:
                rc, tc = _RealConn(real), _TwinConn()
                twin.connect(tc)
                conns.append((rc, tc))
                log.append(("connect", len(conns)))
                continue
            k = rng.randrange(len(conns))
            rc, tc = conns[k]
            if rc is None:
                continue
            t = "bind" if (k not in bound and rng.random() < 0.7) else rng.choice(["bind", "list", "allocate", "claim", "claim", "release", "open", "open", "add", "add", "add",
                            "close", "close", "ping", "bogus", "notype", "disconnect"])
            if t == "disconnect":
                rc.close()
                twin.disconnect(tc)
                conns[k] = (None, None)
                log.append(("disconnect", k + 1))
                continue
            if k in closed_conns and t in ("open", "add"):
                continue        # no client goes on using a mailbox on the connection it closed it on (a stale handle there
                                # lets the real server store orphan rows that resurface when the id is re-created)
            msg = {"type": t, "id": "x%d" % commands}
            rmsg = tmsg = None
            # client-shaped parameters: a side sticks to one appid, one nameplate and the mailbox that nameplate led to
            # (the real server has quirks for anything else - closing a mailbox deletes that side's claims on *every*
            # nameplate, ids are unique across apps - which no wormhole client can reach)
            side = conn_side.get(k)
            if t == "bind":
                side = rng.choice(sides)
                msg.update(appid=side_app[side], side=side)
                if rng.random() < 0.1:
                    del msg["side"]
                elif k not in bound:
                    bound[k] = msg["appid"]
                    conn_side[k] = side
            elif t == "claim":
                msg["nameplate"] = side_np.get(side, "1")
                if rng.random() < 0.05:
                    del msg["nameplate"]
            elif t == "release":
                if rng.random() < 0.7:
                    msg["nameplate"] = side_np.get(side, "1") if rng.random() < 0.9 else "99"
            elif t in ("open", "close"):
                mine = [m for m in mailboxes if m[2] == (bound.get(k), side_np.get(side))]
                if mine and rng.random() < 0.9:
                    m = mine[-1]
                    rmsg, tmsg = dict(msg, mailbox=m[0]), dict(msg, mailbox=m[1])
                if t == "close" and rng.random() < 0.7:
                    mood = rng.choice(["happy", "lonely", "scary", "errory"])
                    msg["mood"] = mood
                    if rmsg:
                        rmsg["mood"] = tmsg["mood"] = mood
            elif t == "add":
                msg.update(phase=rng.choice(["pake", "version", "0", "1"]), body="%02x" % rng.randrange(256))
                if rng.random() < 0.05:
                    del msg["body"]
            elif t == "ping":
                if rng.random() < 0.8:
                    msg["ping"] = 5
            elif t == "notype":
                del msg["type"]
            rmsg = rmsg or msg
            tmsg = tmsg or msg
            commands += 1
            log.append((k + 1, dict(tmsg)))
            nr = len(rc.out)
            try:
                rc.handle(dict(rmsg))
            except Exception as e:
                # the real server itself fails (sqlite3.IntegrityError on command sequences no wormhole client issues:
                # a mailbox closed by its last side while a nameplate claim is left, ...): nothing to compare from here on
                crashes[type(e).__name__ + ":" + t] = crashes.get(type(e).__name__ + ":" + t, 0) + 1
                abandoned = True
                break
            # allocation is random in the real server: tell the twin what was chosen
            for fr in rc.out[nr:]:
                if fr.get("type") == "allocated":
                    twin.next_nameplates = [fr["nameplate"]]
                    if conn_side.get(k) is not None and rng.random() < 0.7:
                        side_np[conn_side[k]] = fr["nameplate"]      # the side goes on with the nameplate it was given
            nt = len(tc.out)
            try:
                twin.handle(tc, dict(tmsg))
            except Exception as e:
                mismatches.append({"sequence": s, "connection": k + 1, "at": -1, "real": rc.out[nr:], "twin": "raised %r" % (e,), "log": list(log)})
                abandoned = True
                break
            for fr in rc.out[nr:]:
                if fr.get("type") == "closed":
                    closed_conns.add(k)
                key = fr.get("type") if fr.get("type") != "error" else "error:" + str(fr.get("error"))
                replies[key] = replies.get(key, 0) + 1
            # remember mailbox ids handed out (claimed) so that later open/close can name them on both servers
            r_claimed = [fr["mailbox"] for fr in rc.out[nr:] if fr.get("type") == "claimed"]
            t_claimed = [fr["mailbox"] for fr in tc.out[nt:] if fr.get("type") == "claimed"]
            for a, b in zip(r_claimed, t_claimed):
                key = (bound.get(k), side_np.get(conn_side.get(k)))
                if (a, b, key) not in mailboxes:
                    mailboxes.append((a, b, key))
        # (closed connections were dropped from `conns`: compare what was kept in a side list)
        for k, pair in enumerate(conns):
            rc, tc = pair
            if rc is None or abandoned:
                continue
            a, b = _canon(rc.out, rn), _canon(tc.out, tn)
            if a != b:
                i = next((i for i in range(min(len(a), len(b))) if a[i] != b[i]), min(len(a), len(b)))
                mismatches.append({"sequence": s, "connection": k + 1, "at": i, "real": a[i:i + 2], "twin": b[i:i + 2], "log": list(log)})
                break
    return {"sequences": nseq, "commands": commands, "real_replies_seen": dict(sorted(replies.items())),
            "real_server_internal_errors": crashes, "mismatches": mismatches}


# --------------------------------------------------------------------------------------------- (b) Noise stand-in
def noise_stand_in():
    from wormhole._dilation import _noise
    from noise.connection import NoiseConnection
    from noise.exceptions import NoiseInvalidMessage
    problems = []
    if _noise.NOISE_MAX_PAYLOAD != 65535 - 16 or _noise.NOISE_MAX_CIPHERTEXT != 65535:
        problems.append("dilation/_noise.py constants changed: %r %r" % (_noise.NOISE_MAX_PAYLOAD, _noise.NOISE_MAX_CIPHERTEXT))
    a, b = NoiseConnection.from_name(b"Noise_NNpsk0_25519_ChaChaPoly_BLAKE2s"), NoiseConnection.from_name(b"Noise_NNpsk0_25519_ChaChaPoly_BLAKE2s")
    for c, init in ((a, True), (b, False)):
        c.set_psks(b"k" * 32)
        (c.set_as_initiator if init else c.set_as_responder)()
        c.start_handshake()
    b.read_message(a.write_message())
    a.read_message(b.write_message())
    for n in (0, 1, 65519, 65520, 65535):
        ct = a.encrypt(b"x" * n)
        if len(ct) != n + 16:
            problems.append("ciphertext of %d bytes is %d long" % (n, len(ct)))
        if n + 16 <= 65535:
            if b.decrypt(ct) != b"x" * n:
                problems.append("round trip of %d bytes failed" % n)
        else:
            try:
                b.decrypt(ct)
                problems.append("decrypt accepted a %d-byte message" % len(ct))
            except NoiseInvalidMessage:
                # the receiver's nonce did not advance; keep the two directions in step for the next size
                b.rx.n = a.tx.n
    try:
        a.encrypt(b"x" * 65536)
        problems.append("encrypt accepted a 65536-byte plaintext")
    except NoiseInvalidMessage:
        pass
    try:
        b.decrypt(b"y" * 40)
        problems.append("decrypt accepted garbage")
    except NoiseInvalidMessage:
        pass
    return {"problems": problems}


# --------------------------------------------------------------------------------------------- (c) simulated TCP
def sim_tcp():
    from twisted.internet import protocol
    problems = []
    reactor.reset()

    class Rec(protocol.Protocol):
        def __init__(self):
            self.got, self.lost = [], 0

        def dataReceived(self, d):
            self.got.append(d)
            if d == b"boom":
                raise RuntimeError("boom")

        def connectionLost(self, why=None):
            self.lost += 1
    srv, cli = Rec(), Rec()

    class SF(protocol.Factory):
        def buildProtocol(s, addr):
            return srv

    class CF(protocol.ClientFactory):
        def buildProtocol(s, addr):
            return cli
    port = reactor.listenTCP(0, SF()).getHost().port
    link = reactor.complete(reactor.connectTCP("127.0.0.1", port, CF()))
    cli.transport.write(b"a")
    cli.transport.write(b"b")
    cli.transport.loseConnection()
    # loseConnection flushes what was written before connectionLost is reported
    if link.closing_done_possible(0):
        problems.append("close possible before pending writes were flushed")
    while link.can_deliver(0):
        link.deliver(0)
    if srv.got != [b"a", b"b"]:
        problems.append("pending writes not flushed before close: %r" % (srv.got,))
    if not link.closing_done_possible(0):
        problems.append("close not possible after flush")
    link.finish_close(0)
    if cli.lost != 1:
        problems.append("closing end saw connectionLost %d times" % cli.lost)
    if link.can_observe_loss(1):
        link.observe_loss(1)
    if srv.lost != 1:
        problems.append("peer of a closed end saw connectionLost %d times" % srv.lost)
    # registerProducer on a disconnected transport stops the producer at once
    stopped = []
    prod = types.SimpleNamespace(stopProducing=lambda: stopped.append(1), pauseProducing=lambda: None, resumeProducing=lambda: None)
    cli.transport.registerProducer(prod, True)
    if stopped != [1]:
        problems.append("registerProducer on a dead transport did not call stopProducing()")
    # an exception out of dataReceived is reported to the harness (which then drops that connection, as Twisted does)
    reactor.reset()
    srv, cli = Rec(), Rec()
    port = reactor.listenTCP(0, SF()).getHost().port
    link = reactor.complete(reactor.connectTCP("127.0.0.1", port, CF()))
    cli.transport.write(b"boom")
    try:
        link.deliver(0)
        problems.append("exception in dataReceived was swallowed")
    except sim._ProtocolRaised:
        pass
    return {"problems": problems}


def main():
    res = {"server_twin": server_twin_differential(), "noise": noise_stand_in(), "sim_tcp": sim_tcp()}
    bad = bool(res["server_twin"]["mismatches"] or res["noise"]["problems"] or res["sim_tcp"]["problems"])
    print(json.dumps(res, indent=1, default=str)[:6000])
    print("FIDELITY %s" % ("MISMATCH" if bad else "ok"))
    return 1 if bad else 0


if __name__ == "__main__":
    sys.exit(main())
