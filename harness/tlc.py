"""Run TLC and parse what it prints; parse TLA+ values; read -simulate trace files."""
import glob
import os
import re
import shutil
import subprocess
import time

HERE = os.path.dirname(os.path.dirname(os.path.abspath(__file__)))
SPEC = os.path.join(HERE, "spec")
OUT = os.path.join(HERE, "out")
JAR = "/opt/veriftools/tla/tla2tools.jar"


class TlcResult:
    def __init__(self):
        self.ok = False            # completed without error
        self.generated = 0
        self.distinct = 0
        self.depth = 0
        self.violated = None       # name of the violated invariant / property
        self.trace = []            # list of states (dict var -> python value) when violated
        self.error = None          # machinery error text
        self.wall = 0.0
        self.stdout = ""
        self.coverage = {}         # action name -> (distinct, total)
        self.cmd = ""


# ---------------------------------------------------------------- TLA+ value parser
_tok = re.compile(r'\s*(<<|>>|\|->|:>|@@|\[|\]|\{|\}|\(|\)|,|"(?:[^"\\]|\\.)*"|-?\d+|[A-Za-z_][A-Za-z0-9_]*)')


def _tokens(s):
    pos = 0
    out = []
    while pos < len(s):
        m = _tok.match(s, pos)
        if not m:
            if s[pos:].strip() == "":
                break
            raise ValueError("cannot tokenize %r" % s[pos:pos + 40])
        out.append(m.group(1))
        pos = m.end()
    return out


def parse_value(s):
    toks = _tokens(s)
    v, i = _pv(toks, 0)
    if i != len(toks):
        raise ValueError("trailing tokens %r" % toks[i:i + 5])
    return v


def _pv(t, i):
    tok = t[i]
    if tok == "<<":
        items = []
        i += 1
        while t[i] != ">>":
            v, i = _pv(t, i)
            items.append(v)
            if t[i] == ",":
                i += 1
        return items, i + 1
    if tok == "{":
        items = []
        i += 1
        while t[i] != "}":
            v, i = _pv(t, i)
            items.append(v)
            if t[i] == ",":
                i += 1
        return frozenset(_freeze(x) for x in items), i + 1
    if tok == "[":
        rec = {}
        i += 1
        while t[i] != "]":
            k = t[i]
            assert t[i + 1] == "|->", t[i:i + 3]
            v, i = _pv(t, i + 2)
            rec[k] = v
            if t[i] == ",":
                i += 1
        return rec, i + 1
    if tok == "(":
        # function literal (a :> b @@ c :> d)
        fn = {}
        i += 1
        while t[i] != ")":
            k, i = _pv(t, i)
            assert t[i] == ":>", t[i:i + 3]
            v, i = _pv(t, i + 1)
            fn[_freeze(k)] = v
            if t[i] == "@@":
                i += 1
        return fn, i + 1
    if tok.startswith('"'):
        return tok[1:-1].replace('\\"', '"').replace("\\\\", "\\"), i + 1
    if tok in ("TRUE", "FALSE"):
        return tok == "TRUE", i + 1
    if re.match(r"-?\d+$", tok):
        return int(tok), i + 1
    return tok, i + 1      # model value / identifier


def _freeze(x):
    if isinstance(x, list):
        return tuple(_freeze(y) for y in x)
    if isinstance(x, dict):
        return tuple(sorted((k, _freeze(v)) for k, v in x.items()))
    return x


def parse_state(text):
    """'/\\ a = ...\n/\\ b = ...' -> {a: value, b: value}"""
    st = {}
    parts = re.split(r"^/\\ ", text.strip(), flags=re.M)
    for p in parts:
        p = p.strip()
        if not p:
            continue
        m = re.match(r"([A-Za-z_][A-Za-z0-9_]*) = (.*)$", p, flags=re.S)
        if not m:
            continue
        st[m.group(1)] = parse_value(m.group(2))
    return st


# ---------------------------------------------------------------- running TLC
def run(module, cfg, workers=16, timeout=3600, simulate=None, depth=None, seed=None, coverage=False,
        extra=(), env=None, metadir=None, deadlock=False, cwd=SPEC, heap="8g"):
    """Run TLC on spec/<module>.tla with spec/<cfg>.  simulate = dict(num=N, file=prefix)."""
    os.makedirs(OUT, exist_ok=True)
    metadir = metadir or os.path.join(OUT, "tlc_%s_%d_%d" % (os.path.basename(cfg).replace(".cfg", ""), os.getpid(),
                                                          int(time.time() * 1000) % 1000000))
    cmd = ["java", "-XX:+UseParallelGC", "-Xmx" + heap, "-cp", JAR + ":/opt/veriftools/tla/CommunityModules-deps.jar",
           "tlc2.TLC"]
    cmd = ["tlc"]
    cmd += ["-workers", str(workers), "-metadir", metadir, "-noGenerateSpecTE", "-config", cfg]
    if simulate:
        s = "num=%d" % simulate["num"]
        if simulate.get("file"):
            s = "file=%s," % simulate["file"] + s
        cmd += ["-simulate", s]
    if depth:
        cmd += ["-depth", str(depth)]
    if seed is not None:
        cmd += ["-seed", str(seed)]
    if coverage:
        cmd += ["-coverage", "1"]
    if deadlock:
        cmd += ["-deadlock"]
    cmd += list(extra)
    cmd += [module]
    res = TlcResult()
    res.cmd = " ".join(cmd)
    t0 = time.time()
    e = dict(os.environ)
    if env:
        e.update(env)
    # TLC's scratch directories (tlc-NNN under java.io.tmpdir) go where they are removed with the run
    os.makedirs(metadir, exist_ok=True)
    # ... and the JVM's heap is bounded (the `tlc` wrapper sets none: the default is a quarter of the machine per JVM, and
    # several TLC runs side by side were killed by the kernel's OOM killer)
    e["JAVA_TOOL_OPTIONS"] = (e.get("JAVA_TOOL_OPTIONS", "") + " -Djava.io.tmpdir=" + metadir + " -Xmx" + heap).strip()
    try:
        for attempt in (1, 2):
            p = subprocess.run(cmd, cwd=cwd, stdout=subprocess.PIPE, stderr=subprocess.STDOUT, timeout=timeout, env=e)
            out = p.stdout.decode("utf-8", "replace")
            if p.returncode in (137, 143, -9, -15) and "Finished in" not in out and attempt == 1:
                # killed from outside (the kernel's OOM killer under load): once more, after a pause
                time.sleep(30)
                shutil.rmtree(metadir, ignore_errors=True)
                os.makedirs(metadir, exist_ok=True)
                continue
            break
    except subprocess.TimeoutExpired as ex:
        out = (ex.stdout or b"").decode("utf-8", "replace")
        res.error = "timeout after %ds" % timeout
        subprocess.run(["pkill", "-f", metadir], check=False)
    res.wall = time.time() - t0
    res.stdout = out
    shutil.rmtree(metadir, ignore_errors=True)
    _parse_output(res, out)
    return res


def _parse_output(res, out):
    m = re.search(r"(\d+) states generated, (\d+) distinct states found", out)
    if m:
        res.generated, res.distinct = int(m.group(1)), int(m.group(2))
    m = re.search(r"depth of the complete state graph search is (\d+)", out)
    if m:
        res.depth = int(m.group(1))
    if "Model checking completed. No error has been found." in out or \
            re.search(r"Finished in .*\n?$", out) and "Error:" not in out:
        res.ok = True
    m = re.search(r"Error: Invariant (\S+) is violated", out)
    if m:
        res.violated = m.group(1)
    m2 = re.search(r"Error: Action property (\S+) is violated", out) or \
        re.search(r"Error: Temporal property (\S+) was violated", out) or \
        re.search(r"Error: Temporal properties were violated", out)
    if m2 and not res.violated:
        res.violated = m2.group(1) if m2.lastindex else "temporal"
    if "Error: Deadlock reached" in out and not res.violated:
        res.violated = "Deadlock"
    if res.violated:
        res.ok = False
        res.trace = parse_error_trace(out)
    elif "Error:" in out and not res.ok:
        i = out.index("Error:")
        res.error = res.error or out[i:i + 1500]
    # coverage lines: <Action line ... of module M>: distinct:total
    for m in re.finditer(r"^<(\w+) line \d+, col \d+ to line \d+, col \d+ of module (\w+)>: (\d+):(\d+)", out, flags=re.M):
        res.coverage[m.group(1)] = (int(m.group(3)), int(m.group(4)))


def parse_error_trace(out):
    states = []
    for m in re.finditer(r"^State (\d+): <([^\n]*)>[ \t]*\n(.*?)(?=^State \d+:|^\d+ states generated|^Error:|\Z)", out, flags=re.M | re.S):
        try:
            st = parse_state(m.group(3))
        except Exception as e:  # pragma: no cover
            st = {"_parse_error": str(e)}
        st["_action"] = m.group(2).split(" line ")[0].strip()
        states.append(st)
    return states


ACTION_HIST = {}      # spec action label -> number of steps replayed from -simulate behaviours in this process


def _count_actions(states):
    for st in states[1:]:
        la = st.get("last", st.get("lastAct"))
        name = la.get("a") if isinstance(la, dict) else (la[0] if isinstance(la, (list, tuple)) and la else None)
        if name:
            ACTION_HIST[name] = ACTION_HIST.get(name, 0) + 1


def read_sim_traces(prefix):
    """Files written by -simulate file=prefix : prefix_<worker>_<n>. Each is a TLA+ module fragment with
    STATE_k == /\\ var = value ..."""
    for fn in sorted(glob.glob(prefix + "*")):
        txt = open(fn).read()
        states = []
        for m in re.finditer(r"^STATE_(\d+) ==\s*\n(.*?)(?=^\\\*|^STATE_\d+ ==|^====|\Z)", txt, flags=re.M | re.S):
            states.append(parse_state(m.group(2)))
        if states:
            _count_actions(states)
            yield states


def printed_tuples(out, tag):
    """Values printed by PrintT(<<tag, ...>>); robust against wrapping over several lines."""
    res = []
    i = 0
    pat = re.compile(r'<<\s*"%s"' % re.escape(tag))
    while True:
        m = pat.search(out, i)
        if not m:
            break
        i = m.start()
        depth = 0
        j = i
        while j < len(out):
            if out.startswith("<<", j):
                depth += 1
                j += 2
                continue
            if out.startswith(">>", j):
                depth -= 1
                j += 2
                if depth == 0:
                    break
                continue
            j += 1
        res.append(parse_value(out[i:j]))
        i = j
    return res
