"""Mid-level Dilation world: two real Managers (Leader, Follower) with their real Outbound, Inbound,
SubChannels, endpoints and TrafficTimer, wired the way Dilator.dilate() wires them, over *scripted* L2
connections (the harness plays Connector + DilatedConnectionProtocol: it hands records from one
Manager to the other one at a time, cuts connections at chosen records, and carries the reconnect
messages that normally travel through the mailbox)."""
import collections
import json

from . import sim

reactor = sim.install()

from unittest import mock  # noqa: E402
from twisted.internet import protocol  # noqa: E402
from twisted.internet.interfaces import IHalfCloseableProtocol  # noqa: E402
from twisted.internet.task import Cooperator  # noqa: E402
from twisted.python import log  # noqa: E402
from zope.interface import alsoProvides, implementer  # noqa: E402

from wormhole._interfaces import ISend  # noqa: E402
from wormhole._dilation import manager as M  # noqa: E402
from wormhole._dilation.connection import Open, Data, Close, Ack, Ping, Pong, KCM  # noqa: E402
from wormhole.eventual import EventualQueue  # noqa: E402
from wormhole.util import bytes_to_dict  # noqa: E402

log.startLoggingWithObserver(lambda ev: None, setStdout=False)
SIDES = {"L": "ffffffffffffffff", "F": "0000000000000000"}


class FakeTransport:
    def __init__(self, conn):
        self.conn = conn
        self.producer = None

    def registerProducer(self, p, streaming):
        assert self.producer is None
        self.producer = p

    def unregisterProducer(self):
        self.producer = None

    def loseConnection(self):
        self.conn.disconnect()


class FakeL2:
    """Stands for the selected DilatedConnectionProtocol of one side."""

    def __init__(self, world, side, gen):
        self.world, self.side, self.gen = world, side, gen
        self.out = collections.deque()       # records in flight to the peer
        self.transport = FakeTransport(self)
        self.alive = True                    # the owning Manager still uses it
        self.closing = False
        self.paused = False                  # Inbound asked us to stop reading
        self.pause_log = []
        self._description = "fake-l2-%s-%d" % (side, gen)
        self.sent_log = []
        # backpressure: after this many sequenced records the transport's buffer is full and it tells its producer (the
        # Outbound) to stop, from inside send_record() as Twisted does from inside write()
        self.pause_after = getattr(world, "pause_after", {}).pop(side, None)
        self.sent_since_resume = 0

    def send_record(self, r):
        self.sent_log.append(r)
        if self.world.link_up(self.gen):
            self.out.append(r)
        if self.pause_after is not None and isinstance(r, (Open, Data, Close)):
            self.sent_since_resume += 1
            if self.sent_since_resume >= self.pause_after and self.transport.producer is not None:
                self.pause_after = None
                self.transport.producer.pauseProducing()

    def drained(self, then_pause_after=None):
        """the buffer has emptied: resumeProducing(), possibly filling up again after some more records"""
        self.sent_since_resume = 0
        self.pause_after = then_pause_after
        if self.transport.producer is not None:
            self.transport.producer.resumeProducing()

    def disconnect(self):
        self.closing = True
        self.world.notes.append(("disconnect", self.side, self.gen))

    def pauseProducing(self):
        self.paused = True
        self.pause_log.append("pause")

    def resumeProducing(self):
        self.paused = False
        self.pause_log.append("resume")


class FakeConnector:
    instances = []

    def __init__(self, *a, **kw):
        self.started = self.stopped = False
        self.hints = []
        FakeConnector.instances.append(self)

    def start(self):
        self.started = True

    def stop(self):
        self.stopped = True

    def got_hints(self, h):
        self.hints.append(h)


class Recorder(protocol.Protocol):
    """application protocol on a subchannel: records every callback"""

    def __init__(self, world, side, label):
        self.world, self.side, self.label = world, side, label
        self.log = []

    def connectionMade(self):
        self.log.append(("made",))
        self.world.app_events.append((self.side, self.label, "made"))
        mh = getattr(self.world, "made_hooks", {}).get((self.side, self.label))
        if mh is not None:
            # an application that acts on its transport from inside connectionMade() (portforward pauses there)
            mh(self)
        hook = getattr(self.world, "on_made", None)
        if hook is not None and not self.world._building_inbound:
            # an application that talks first: it writes (and maybe closes) from inside connectionMade()
            self.world.on_made = None
            hook(self)

    def dataReceived(self, data):
        self.log.append(("data", bytes(data)))
        self.world.app_events.append((self.side, self.label, "data", bytes(data)))
        if getattr(self.world, "echo_side", None) == self.side:
            # an application that answers: traffic in the other direction on the same subchannel
            try:
                self.transport.write(b"echo:" + bytes(data)[:64])
            except Exception as e:
                self.world.echo_errors.append(repr(e)[:100])
        hook = self.world.data_hooks.get((self.side, self.label))
        if hook:
            hook(self)

    def connectionLost(self, why=None):
        self.log.append(("lost",))
        self.world.app_events.append((self.side, self.label, "lost"))


@implementer(IHalfCloseableProtocol)
class HalfRecorder(Recorder):
    def readConnectionLost(self):
        self.log.append(("readlost",))
        self.world.app_events.append((self.side, self.label, "readlost"))

    def writeConnectionLost(self):
        self.log.append(("writelost",))
        self.world.app_events.append((self.side, self.label, "writelost"))


class RecFactory(protocol.Factory):
    def __init__(self, world, side, name, half=False):
        self.world, self.side, self.name, self.half = world, side, name, half
        self.built = []

    def buildProtocol(self, addr):
        n = len(self.built) + 1
        cls = HalfRecorder if self.half else Recorder
        p = cls(self.world, self.side, "%s#%s%d" % (self.name, "in" if self.world._building_inbound else "out", n))
        p.factory = self
        self.built.append(p)
        return p


class Side:
    def __init__(self, world, name, expected=None, ping_interval=30.0):
        self.world, self.name = world, name
        self.sent_dilate = []      # dilation control messages sent through the mailbox (ISend.send)
        send = mock.Mock()
        alsoProvides(send, ISend)
        send.send = lambda phase, pt: self.sent_dilate.append(bytes_to_dict(pt))
        self.eq = EventualQueue(reactor)
        self.coop = Cooperator(scheduler=self.eq.eventually)
        self.m = M.Manager(send, SIDES[name], None, reactor, self.eq, self.coop, M.DILATION_VERSIONS, ping_interval, expected, True)
        self.conn = None
        self.gen = 0
        self.protocols = {}        # label -> Recorder
        self.factories = {}
        self.errors = []

    def state(self):
        from .mbworld import machine_state
        return machine_state(self.m)


class DilMidWorld:
    def __init__(self, expected=None, ping_interval=30.0):
        reactor.reset()
        FakeConnector.instances = []
        self._orig_connector = M.Connector
        M.Connector = FakeConnector
        self.notes = []
        self.pause_after = {}
        self.app_events = []
        self.data_hooks = {}
        self.echo_side = None
        self.echo_errors = []
        self._building_inbound = True
        self.logged = []
        self._obs = self._log
        log.addObserver(self._obs)
        self.gen = 0
        self.up = False
        self.sides = {n: Side(self, n, expected=(expected or {}).get(n), ping_interval=ping_interval) for n in ("L", "F")}
        for s in self.sides.values():
            s.m.got_dilation_key(b"k" * 32)
            s.m.got_wormhole_versions({"can-dilate": M.DILATION_VERSIONS})
        for n, s in self.sides.items():
            other = self.sides["F" if n == "L" else "L"]
            s.m.rx_PLEASE({"side": SIDES[other.name], "type": "please"})
        self.settle()

    def close(self):
        M.Connector = self._orig_connector
        try:
            log.removeObserver(self._obs)
        except ValueError:
            pass

    def _log(self, ev):
        if ev.get("isError"):
            f = ev.get("failure")
            self.logged.append(f.value if f is not None else str(ev.get("message")))

    def link_up(self, gen):
        return self.up and gen == self.gen

    def settle(self):
        for _ in range(1000):
            due = reactor.due()
            if not due:
                return
            reactor.run_call(due[0])

    def other(self, n):
        return self.sides["F" if n == "L" else "L"]

    # ---- connection life cycle
    def connect(self):
        """a new L2 connection is selected on both sides (both Managers must be CONNECTING)"""
        self.gen += 1
        self.up = True
        for n in ("L", "F"):
            s = self.sides[n]
            s.conn = FakeL2(self, n, self.gen)
            s.gen = self.gen
        for n in ("L", "F"):
            self._made(n)
        self.settle()

    def _made(self, n):
        """Connector.accept() runs in an eventual-queue turn: an exception out of connector_connection_made() is logged
        there and the Manager is left as it is"""
        s = self.sides[n]
        try:
            s.m.connector_connection_made(s.conn)
        except Exception as e:
            s.errors.append(e)

    def connect_one(self, n):
        s = self.sides[n]
        if s.conn is None or s.conn.gen != self.gen or not s.conn.alive:
            s.conn = FakeL2(self, n, self.gen)
            self._made(n)
            self.settle()

    def cut(self):
        """the link dies: everything in flight is lost; each side notices separately (observe_loss)"""
        self.up = False
        for s in self.sides.values():
            if s.conn is not None:
                s.conn.out.clear()

    def observe_loss(self, n):
        s = self.sides[n]
        if s.conn is not None and s.conn.alive:
            s.conn.alive = False
            s.m.connector_connection_lost()
            self.settle()

    def mailbox_pump(self):
        """carry reconnect / reconnecting control messages between the Managers (FIFO per sender)"""
        moved = False
        for n in ("L", "F"):
            s = self.sides[n]
            while s.sent_dilate:
                msg = s.sent_dilate.pop(0)
                t = msg.get("type")
                o = self.other(n).m
                if t == "reconnect":
                    o.rx_RECONNECT()
                elif t == "reconnecting":
                    o.rx_RECONNECTING()
                moved = True
                self.settle()
        return moved

    def reconnect(self):
        """both sides noticed the loss: run the reconnect dance and select a new connection"""
        for n in ("L", "F"):
            self.observe_loss(n)
        for _ in range(4):
            if not self.mailbox_pump():
                break
        if self.sides["L"].state() == "CONNECTING" and self.sides["F"].state() == "CONNECTING":
            self.connect()
            return True
        return False

    # ---- records
    def deliver(self, frm, count=1):
        """hand the oldest in-flight record written by side `frm` to the other Manager"""
        s = self.sides[frm]
        o = self.other(frm)
        n = 0
        while n < count and s.conn is not None and s.conn.out and self.link_up(s.conn.gen) and o.conn is not None and o.conn.alive \
                and not o.conn.paused:
            r = s.conn.out.popleft()
            try:
                o.m.got_record(r)
            except Exception as e:
                o.errors.append(e)
            self.settle()
            n += 1
        return n

    def pump(self, limit=10000, acks=True):
        """deliver everything in flight (both directions) until quiescent"""
        for _ in range(limit):
            moved = False
            for n in ("L", "F"):
                if self.deliver(n):
                    moved = True
            if not moved:
                return

    # ---- application
    def listen(self, n, name, half=False):
        s = self.sides[n]
        f = RecFactory(self, n, name, half)
        s.factories[name] = f
        d = s.m._api.listener_for(name).listen(f)
        d.addErrback(lambda fl: s.errors.append(fl.value))
        self.settle()
        return f

    def open(self, n, name, half=False):
        s = self.sides[n]
        f = RecFactory(self, n, name, half)
        res = []
        self._building_inbound = False
        d = s.m._api.connector_for(name).connect(f)
        d.addBoth(res.append)
        self.settle()
        self._building_inbound = True
        return res[0] if res else None
