"""Mailbox-level world: N real wormholes + server twin + per-connection FIFO network, driven
one environment action at a time.  The action vocabulary is the one of spec/Wormhole.tla.
"""
import collections
import contextlib
import json
import os
import random

from . import sim

reactor = sim.install()

from twisted.internet import protocol  # noqa: E402
from twisted.internet.error import ConnectionDone, ConnectionLost  # noqa: E402
from twisted.python import log  # noqa: E402
from twisted.python.failure import Failure  # noqa: E402

import wormhole  # noqa: E402
from wormhole import _rendezvous, errors  # noqa: E402
from wormhole.util import bytes_to_dict, dict_to_bytes  # noqa: E402
from automat._methodical import _transitionerFromInstance  # noqa: E402

from .mbserver import ServerTwin  # noqa: E402

RELAY_PORT = 4000
RELAY_URL = "ws://127.0.0.1:%d/v1" % RELAY_PORT

MACHINES = ["B", "N", "M", "S", "O", "K", "SK", "R", "L", "A", "I", "C", "T"]


def machine_state(obj):
    cls = type(obj)
    return _transitionerFromInstance(obj, cls.m._symbol, cls.m._automaton)._state._name()


@contextlib.contextmanager
def pinned_urandom(value):
    orig = os.urandom
    os.urandom = lambda n: (value * (n // len(value) + 1))[:n]
    try:
        yield
    finally:
        os.urandom = orig


class _WSTransport:
    def __init__(self, conn):
        self.conn = conn
        self.disconnecting = False

    def loseConnection(self):
        if not self.disconnecting:
            self.disconnecting = True
            self.conn.closing = True
            # Autobahn keeps parsing what it already read: frames that arrived in the same read as the
            # frame whose handler is running right now are still delivered (DESIGN 2.9 b)
            if self.conn.world._delivering is self.conn:
                self.conn.late = len(self.conn.s2c)

    def abortConnection(self):
        self.loseConnection()

    def write(self, data):
        pass

    def getPeer(self):
        return None

    def getHost(self):
        return None


class FakeWS(protocol.Protocol):
    """Stands in for autobahn's WebSocketClientProtocol: calls the real RendezvousConnector
    entry points and hands outbound frames to the simulated network."""

    def connectionMade(self):
        self._conn = self.transport.conn
        self._conn.ws = self
        if getattr(self._conn.world, "_abort_ws", False):
            return          # the WebSocket handshake never completes: no onOpen
        self._conn.world._call_entry(self._conn.client, "ws_open", self._RC.ws_open, self)

    def sendMessage(self, payload, isBinary=False):
        if self._conn.wsclosing:
            # Autobahn (WebSocketProtocol.sendMessage): state != STATE_OPEN
            from autobahn.exception import Disconnected
            raise Disconnected("Attempt to send on a closed protocol")
        self._conn.c2s.append(bytes_to_dict(payload))

    def connectionLost(self, reason=None):
        self._conn.world._call_entry(self._conn.client, "ws_close", self._RC.ws_close, False, None, None)


_rendezvous.WSFactory.protocol = FakeWS
log.startLoggingWithObserver(lambda ev: None, setStdout=False)     # keep Twisted's default observer quiet


class Conn:
    """One WebSocket connection of one client."""

    def __init__(self, world, cid, client, connector):
        self.world, self.id, self.client, self.connector = world, cid, client, connector
        self.c2s = collections.deque()
        self.s2c = collections.deque()
        self.state = "open"       # open | dead
        self.closing = False      # client called loseConnection()
        self.wsclosing = False    # the server's close frame has arrived: websocket CLOSING, TCP still up
        self.late = 0             # frames still delivered although closing (coalesced with the current one)
        self.ws = None
        self.wrapper = None
        self.replay_order = None

    def send(self, msg):
        if self.state == "open":
            self.s2c.append(msg)


class Delegate:
    def __init__(self, client):
        self.c = client
        self.armed = None      # event kind whose handler calls close() re-entrantly
        self.raise_in = None   # event kind whose handler has a bug: it raises (once)

    def _maybe_close(self, kind):
        if self.raise_in == kind:
            self.raise_in = None
            raise RuntimeError("bug in the application's %s handler" % kind)
        if self.armed == kind:
            self.armed = None
            cl = self.c
            cl.close_called = True
            cl.reent_closed = True
            cl.world.tracker_hook("reent_close", cl)
            try:
                cl.w.close()
            except Exception as e:
                cl.api_errors.append(("close", e))

    def wormhole_got_welcome(self, welcome):
        self.c.ev("welcome", welcome)
        self._maybe_close("welcome")

    def wormhole_got_code(self, code):
        self.c.ev("code", code)
        self._maybe_close("code")

    def wormhole_got_unverified_key(self, key):
        self.c.ev("key", key)
        self._maybe_close("key")

    def wormhole_got_verifier(self, verifier):
        self.c.ev("verifier", verifier)
        self._maybe_close("verifier")

    def wormhole_got_versions(self, versions):
        self.c.ev("versions", versions)
        self._maybe_close("versions")

    def wormhole_got_message(self, msg):
        self.c.ev("message", msg)
        self._maybe_close("message")

    def wormhole_closed(self, result):
        self.c.ev("closed", result)


class Client:
    def __init__(self, world, name, appid, mode, side, versions=None, dilation=False):
        self.lazy = mode == "deferred-lazy"      # Deferred API whose application does not ask for messages until later
        # Deferred API whose application asks for each value in turn, at moments of its own choosing: get_code() at once, then
        # get_unverified_key(), get_verifier(), get_versions(), get_message()... each issued right after some step of the
        # run, *before* the eventual queue has run - possibly after the value exists but before earlier values' Deferreds fired
        self.chasing = mode == "deferred-chasing"
        self.chain = ["key", "verifier", "versions", "message"]
        self.chase_rng = random.Random(hash((world.seed, name)) & 0xffff)
        if self.lazy or self.chasing:
            mode = "deferred"
        self.world, self.name, self.appid, self.mode = world, name, appid, mode
        self.closed_at = None
        self.events = []           # (kind, value) in the order the application saw them
        self.late = []             # results of get_* calls made at scheduled times: [kind, when, outcome]
        self.api_errors = []       # exceptions escaping API calls: (call, exc)
        self.sent = []             # plaintexts passed to send_message
        self.close_called = False
        self.close_results = []
        self.code_calls = 0
        self.code_api = []
        self.helper = None
        self.fired = []            # automat transitions of the current step
        self.statuses = []         # WormholeStatus updates as reported: [conn, key, code, events seen so far]
        with pinned_urandom(side):
            if mode == "delegated":
                self.delegate = Delegate(self)
                self.w = wormhole.create(appid, RELAY_URL, reactor, versions=versions or {},
                                         delegate=self.delegate, on_status_update=self._status)
            else:
                self.w = wormhole.create(appid, RELAY_URL, reactor, versions=versions or {},
                                         dilation=dilation or None, on_status_update=self._status)
        self.boss = self.w._boss
        self.side = self.boss._side
        self._install_tracers()
        if mode == "deferred":
            self._eager()

    def _status(self, st):
        def n(x):
            return {"AllegedSharedKey": "alleged", "ConfirmedKey": "confirmed", "NoKey": "nokey", "NoCode": "nocode",
                    "AllocatedCode": "allocated", "ConsumedCode": "consumed"}.get(type(x).__name__, type(x).__name__.lower())
        self.statuses.append([n(st.mailbox_connection), n(st.peer_key), n(st.code),
                              len([k for k, _ in self.events if not k.endswith("!")])])

    def status(self):
        return self.statuses[-1][:3] if self.statuses else ["disconnected", "nokey", "nocode"]

    def ev(self, kind, value):
        if kind == "message" and not isinstance(value, bytes):
            # get_message() answered with something that is not a message at all (None, another callback's result): it is
            # what the application got, so it is recorded - as bytes nobody sent - and judged, not a reason to stop
            value = b"<not-bytes:" + repr(value)[:40].encode("utf-8", "replace") + b">"
        self.events.append((kind, value))
        if kind == "closed" and self.closed_at is None:
            self.closed_at = self.world.stepno
        self.world.step_events.append((self.name, kind))

    # ---- eager Deferred-mode observers: registered at creation so that callback order = event order
    def _eager(self):
        w = self.w
        for kind, getter in (("welcome", w.get_welcome), ("code", w.get_code),
                             ("key", w.get_unverified_key), ("verifier", w.get_verifier),
                             ("versions", w.get_versions)):
            if self.chasing and kind in self.chain:
                continue
            d = getter()
            d.addCallbacks(lambda v, k=kind: self.ev(k, v), lambda f, k=kind: self.ev(k + "!", f.value))
        if not self.lazy and not self.chasing:
            self._next_message()

    def chase(self, force=0):
        """a chasing application issues its next get_*() now (see __init__)"""
        if not self.chasing or not self.chain:
            return
        n = int(force)          # how many get_*() calls to issue now: part of the schedule (act["chase"]), so that replays agree
        w = self.w
        for _ in range(n):
            if not self.chain:
                break
            kind = self.chain.pop(0)
            if kind == "message":
                self._next_message()
                continue
            getter = {"key": w.get_unverified_key, "verifier": w.get_verifier, "versions": w.get_versions}[kind]
            try:
                d = getter()
            except Exception as e:
                self.api_errors.append(("get_" + kind, e))
                continue
            d.addCallbacks(lambda v, k=kind: self.ev(k, v), lambda f, k=kind: self.ev(k + "!", f.value))

    def _next_message(self):
        # (the eager application's outstanding get_message() is a get_*() call like any other: it is on record - `late` - with
        # its outcome, so that one that is never answered, not even at close, shows)
        entry = ["message", getattr(self.world, "stepno", 0), None]
        self.late.append(entry)
        try:
            d = self.w.get_message()
        except Exception as e:
            entry[2] = ("err", e)
            self.ev("message!", e)
            return

        def ok(v):
            entry[2] = ("ok", v)
            self.ev("message", v)
            self._next_message()

        def err(f):
            entry[2] = ("err", f.value)
            self.ev("message!", f.value)
        d.addCallbacks(ok, err)

    def _install_tracers(self):
        b = self.boss
        objs = {"B": b, "N": b._N, "M": b._M, "S": b._S, "O": b._O, "K": b._K, "SK": b._K._SK,
                "R": b._R, "L": b._L, "A": b._A, "I": b._I, "C": b._C, "T": b._T}
        self.objs = objs
        for mname, obj in objs.items():
            def tracer(old, inp, new, mname=mname):
                self.fired.append([self.name, mname, old, inp, new])

                def out(o, mname=mname):
                    self.fired.append([self.name, mname, "out", o])
                return out
            obj.set_trace(tracer)

    def states(self):
        return {m: machine_state(o) for m, o in self.objs.items()}

    # ---- the application
    def api(self, name, f, *a):
        try:
            return self.world._call_entry(self, "api:" + name, f, *a, api=True)
        except Exception as e:      # documented or not: recorded, the observer decides
            self.api_errors.append((name, e))
            self.world.step_exc.append((self.name, "api:" + name, type(e).__name__))
            return e


class MailboxWorld:
    def __init__(self, seed=0, clients=(("A", "deferred"), ("B", "deferred")), appids=None,
                 welcome=None, acks=False, sides=None, versions=None, dilation=False):
        reactor.reset()
        self.seed = seed
        self.rng = random.Random(seed)
        random.seed(seed)
        self.server = ServerTwin(welcome=welcome, acks=acks)
        self.server.alloc_nameplate = "4"      # the nameplate an `allocate` hands out (spec: AllocChoice)
        self.conns = []
        self.step_events = []
        self.step_exc = []
        self.internal = []          # internal failures: (client, entry, exception repr)
        self.logged = []            # log.err'd failures
        self.trace = []
        self.stepno = 0
        self._abort_ws = False
        self._delivering = None
        self.tracker_hook = lambda what, cl: None
        self._observer = self._log_observer
        log.addObserver(self._observer)
        reactor.services[RELAY_PORT] = self._ws_connected
        self.clients = {}
        sides = sides or {}
        for i, (name, mode) in enumerate(clients):
            appid = (appids or {}).get(name, "appid")
            # (sides with hex letters: relabelling attacks that change only the letter case need something to change)
            side = sides.get(name, [b"\xa1\xb2\xc3\xd4\xe5", b"\xf6\xe7\xd8\xc9\xb0", b"\x0a\x1b\x2c\x3d\x4e"][i % 3])
            # (dilation: one flag for all, or per client - a wormhole created without it is an "old peer" to one that dilates)
            self.clients[name] = Client(self, name, appid, mode, side, versions=(versions or {}).get(name),
                                        dilation=dilation.get(name, False) if isinstance(dilation, dict) else dilation)
        self.settle()

    def shutdown(self):
        try:
            log.removeObserver(self._observer)
        except ValueError:
            pass

    # ---- plumbing
    def _log_observer(self, ev):
        if ev.get("isError"):
            f = ev.get("failure")
            self.logged.append(f.value if f is not None else str(ev.get("message")))

    def _call_entry(self, client, entry, f, *a, api=False):
        """Every call from the environment into a wormhole goes through here."""
        try:
            return f(*a)
        except Exception as e:
            if api:
                raise
            self.internal.append((client.name, entry, e))
            self.step_exc.append((client.name, entry, type(e).__name__))
            return None

    def _ws_connected(self, connector):
        client = connector.tag
        conn = Conn(self, len(self.conns) + 1, client, connector)
        self.conns.append(conn)
        wrapper = connector.factory.buildProtocol(connector.getDestination())
        conn.wrapper = wrapper
        tr = _WSTransport(conn)
        connector.transport = tr
        conn.transport = tr
        wrapper.makeConnection(tr)
        if self._abort_ws:
            # TCP came up but the peer is not (yet) a WebSocket server - a proxy, a server still restarting: Autobahn
            # reports onClose(False, 1006, ...) without any onOpen
            try:
                self._kill(conn, ConnectionLost())
            finally:
                self._abort_ws = False
            return conn
        self.server.connect(conn)
        return conn

    def _attempt_of(self, client):
        # attempts are tagged with their owner the first time we see them
        for c in reactor.pending_attempts():
            if c.port != RELAY_PORT:
                continue
            if c.tag is None:
                c.tag = self._owner_of_factory(c.factory)
            if c.tag is client:
                return c
        return None

    def _owner_of_factory(self, factory):
        # HostnameEndpoint wraps the ClientService's factory several levels deep; find the WSFactory
        seen = set()
        todo = [factory]
        while todo:
            f = todo.pop()
            if id(f) in seen:
                continue
            seen.add(id(f))
            rc = getattr(f, "_RC", None)
            if rc is not None:
                for cl in self.clients.values():
                    if cl.boss._RC is rc:
                        return cl
            for attr in ("_wrappedFactory", "wrappedFactory", "_factory", "protocolFactory", "_protocolFactory"):
                g = getattr(f, attr, None)
                if g is not None:
                    todo.append(g)
        raise RuntimeError("cannot find the owner of connection attempt %r" % (factory,))

    def live_conn(self, client):
        for c in reversed(self.conns):
            if c.client is client and c.state == "open":
                return c
        return None

    def settle(self):
        """Run every delayed call that is due now (eventual-queue turns, deferLater(0))."""
        for _ in range(10000):
            due = reactor.due()
            if not due:
                return
            try:
                reactor.run_call(due[0])
            except Exception as e:
                self.internal.append(("-", "timer", e))
                self.step_exc.append(("-", "timer", type(e).__name__))
        raise RuntimeError("settle did not converge")

    def advance_until(self, pred, limit=600.0):
        """Let virtual time pass (retry back-off) until pred() holds."""
        t0 = reactor.seconds()
        while not pred():
            fut = reactor.future()
            if not fut or fut[0].getTime() - t0 > limit:
                return False
            reactor.run_call(fut[0])
            self.settle()
        return True

    # ---- enabled environment actions -------------------------------------------------------
    def enabled(self, app=True, faults=True):
        acts = []
        for cl in self.clients.values():
            if self._attempt_of(cl) is not None:
                acts.append({"a": "ConnOpen", "c": cl.name})
                if faults:
                    acts.append({"a": "ConnFail", "c": cl.name})
            elif self.live_conn(cl) is None and self._will_retry(cl):
                acts.append({"a": "Retry", "c": cl.name})
        for conn in self.conns:
            if conn.state != "open":
                continue
            if conn.c2s and not conn.wsclosing:
                acts.append({"a": "Serve", "k": conn.id})
            if conn.s2c and not conn.closing and not conn.wsclosing:
                acts.append({"a": "Deliver", "k": conn.id})
            if conn.s2c and conn.closing and conn.late > 0:
                acts.append({"a": "LateDeliver", "k": conn.id})
            if conn.closing:
                acts.append({"a": "CloseDone", "k": conn.id})
            elif faults:
                acts.append({"a": "Drop", "k": conn.id})
        return acts

    def _will_retry(self, cl):
        cs = cl.boss._RC._connector
        return cs.running and not cl.boss._RC._stopping and any(
            getattr(dc.func, "__self__", None) is not None and "ClientMachine" in type(dc.func.__self__).__name__
            or "_reconnect" in getattr(dc.func, "__name__", "") or "ClientService" in repr(dc.func)
            for dc in reactor.future())

    # ---- applying one action ------------------------------------------------------------------
    def apply(self, act):
        self.step_events = []
        self.step_exc = []
        for cl in self.clients.values():
            cl.fired = []
        a = act["a"]
        getattr(self, "_do_" + a)(act)
        for cl in self.clients.values():
            if getattr(cl, "chasing", False):
                cl.chase(force=act.get("chase", 0))
        self.settle()
        self.stepno += 1
        rec = {"i": self.stepno, "a": act,
               "fired": [f for cl in self.clients.values() for f in cl.fired],
               "ev": list(self.step_events), "exc": list(self.step_exc)}
        self.trace.append(rec)
        return rec

    def conn(self, k):
        return self.conns[k - 1]

    def _do_ConnOpen(self, act):
        cl = self.clients[act["c"]]
        saved = self.server.welcome
        if act.get("welcome_error"):
            self.server.welcome = dict(saved, error="go away")
        try:
            reactor.complete(self._attempt_of(cl))
        finally:
            self.server.welcome = saved

    def _do_SrvCloseBegin(self, act):
        """the server starts the WebSocket closing handshake and the client has seen its close frame"""
        conn = self.conn(act["k"])
        conn.wsclosing = True
        conn.c2s.clear()

    def _do_ArmRaise(self, act):
        """the application's delegate has a bug in one of its callbacks: it raises there (once)"""
        self.clients[act["c"]].delegate.raise_in = act["kind"]

    def _do_ConnAbort(self, act):
        cl = self.clients[act["c"]]
        self._abort_ws = True
        try:
            reactor.complete(self._attempt_of(cl))
        finally:
            self._abort_ws = False

    def _do_ConnFail(self, act):
        cl = self.clients[act["c"]]
        reactor.refuse(self._attempt_of(cl))
        # HostnameEndpoint reports the failure when its 0.3 s attempt loop next runs
        t0 = reactor.seconds()
        while True:
            fut = [dc for dc in reactor.future() if dc.getTime() <= t0 + 0.5]
            if not fut:
                break
            reactor.run_call(fut[0])
            self.settle()

    def _do_Retry(self, act):
        cl = self.clients[act["c"]]
        self.advance_until(lambda: self._attempt_of(cl) is not None)

    def _do_Serve(self, act):
        conn = self.conn(act["k"])
        self.server.handle(conn, conn.c2s.popleft())

    def _deliver(self, conn, msg):
        self._delivering = conn
        try:
            self._call_entry(conn.client, "ws_message", conn.ws._RC.ws_message, dict_to_bytes(msg))
        finally:
            self._delivering = None

    def _do_Deliver(self, act):
        conn = self.conn(act["k"])
        self._deliver(conn, conn.s2c.popleft())

    def _do_DeliverBurst(self, act):
        """several frames arrive in one read of the socket: the WebSocket layer hands them over one after the other within one
        reactor turn - nothing else (no eventual-queue turn either) runs between them"""
        conn = self.conn(act["k"])
        for _ in range(act["n"]):
            if conn.state != "open" or conn.closing or not conn.s2c:
                break
            self._deliver(conn, conn.s2c.popleft())

    def _do_LateDeliver(self, act):
        conn = self.conn(act["k"])
        conn.late -= 1
        self._deliver(conn, conn.s2c.popleft())

    def _do_ArmClose(self, act):
        cl = self.clients[act["c"]]
        cl.delegate.armed = act["kind"]

    def _kill(self, conn, reason):
        conn.state = "dead"
        # frames the client already wrote are flushed to the server only on a clean close
        self.server.disconnect(conn)
        conn.s2c.clear()
        # Twisted logs exceptions escaping connectionLost; they count as internal failures
        self._call_entry(conn.client, "connectionLost", conn.wrapper.connectionLost, Failure(reason))

    def _do_Drop(self, act):
        conn = self.conn(act["k"])
        conn.c2s.clear()
        self._kill(conn, ConnectionLost())

    def _do_CloseDone(self, act):
        conn = self.conn(act["k"])
        while conn.c2s:                       # loseConnection() flushes pending writes first
            self.server.handle(conn, conn.c2s.popleft())
        self._kill(conn, ConnectionDone())

    # application actions
    def _code_api(self, cl, name, f, *a):
        conn = self.live_conn(cl)
        before = len(conn.c2s) if conn else 0
        r = cl.api(name, f, *a)
        conn2 = self.live_conn(cl)
        after = len(conn2.c2s) if conn2 else 0
        cl.code_api.append({"call": name, "res": type(r).__name__ if isinstance(r, Exception) else "ok",
                            "sentAfter": max(0, after - before) if conn2 is conn else 0})
        return r

    def _do_AppSetCode(self, act):
        cl = self.clients[act["c"]]
        self._code_api(cl, "set_code", cl.w.set_code, act["code"])

    def _do_AppAllocate(self, act):
        cl = self.clients[act["c"]]
        self._code_api(cl, "allocate_code", cl.w.allocate_code, act.get("n", 2))

    def _do_AppInput(self, act):
        cl = self.clients[act["c"]]
        r = self._code_api(cl, "input_code", cl.w.input_code)
        if not isinstance(r, Exception):
            cl.helper = r
            # an application that asks to be told when the word list is there and, from inside that callback, uses the helper
            # at once (a completion UI does exactly this); every other run - the legal calls it makes there must behave as
            # they do anywhere else
            if (self.seed + len(cl.name)) % 2 == 0 or getattr(self, "wordlist_callback", False):
                def ready(_, cl=cl, h=r):
                    for m, args in (("get_word_completions", ("",)), ("get_nameplate_completions", ("",))):
                        res = cl.api("helper." + m + "@wordlist-callback", getattr(h, m), *args)
                        cl.late.append(["helper." + m, self.stepno, len(res) if not isinstance(res, Exception) else type(res).__name__])
                try:
                    d = r.when_wordlist_is_available()
                    d.addCallback(ready)
                    d.addErrback(lambda f, cl=cl: cl.api_errors.append(("helper.when_wordlist_is_available", f.value)))
                except Exception as e:
                    cl.api_errors.append(("helper.when_wordlist_is_available", e))

    def _do_AppHelper(self, act):
        cl = self.clients[act["c"]]
        h = cl.helper
        m = act["m"]
        args = act.get("args", [])
        r = cl.api("helper." + m, getattr(h, m), *args)
        cl.late.append(["helper." + m, self.stepno, r if not isinstance(r, Exception) else type(r).__name__])

    def _do_AppSend(self, act):
        cl = self.clients[act["c"]]
        data = act["data"]
        if isinstance(data, str):
            data = bytes.fromhex(data)
        data = self.concrete_payload(data)
        r = cl.api("send_message", cl.w.send_message, data)
        if not isinstance(r, Exception):
            cl.sent.append(data)

    def concrete_payload(self, label):
        """the schedule names messages m:<side>:<k>; what is actually sent varies with the run: the label itself, binary
        with NULs and newlines, an empty first message and 75 kB ones, non-ASCII text (distinct per message throughout)"""
        prof = self.seed % 4
        if prof == 1:
            return label + b"\x00\xff\r\n" * 40
        if prof == 2:
            return b"" if label.endswith(b":0") else label + bytes(range(256)) * 300
        if prof == 3:
            return label + "\u00fc\u2603 \U0001f600".encode("utf-8")
        return label

    def _do_AppClose(self, act):
        cl = self.clients[act["c"]]
        cl.close_called = True
        r = cl.api("close", cl.w.close)
        if cl.mode == "deferred" and not isinstance(r, Exception) and r is not None:
            idx = len(cl.close_results)
            cl.close_results.append(None)

            def done(res, idx=idx):
                cl.close_results[idx] = ("ok", res) if not isinstance(res, Failure) else ("err", res.value)
                if idx == 0:
                    cl.ev("closed", res.value if isinstance(res, Failure) else res)
            r.addBoth(done)

    def _do_AppGet(self, act):
        """A late get_*() call in Deferred mode; its outcome is recorded separately."""
        cl = self.clients[act["c"]]
        kind = act["kind"]
        getter = {"welcome": cl.w.get_welcome, "code": cl.w.get_code, "key": cl.w.get_unverified_key,
                  "verifier": cl.w.get_verifier, "versions": cl.w.get_versions,
                  "message": cl.w.get_message}[kind]
        d = cl.api("get_" + kind, getter)
        entry = [kind, self.stepno, None]
        cl.late.append(entry)
        if not isinstance(d, Exception):
            def got(v):
                entry[2] = ("ok", v)
                if kind == "message" and cl.lazy:
                    # for a lazy application these *are* the messages it receives, in the order it asked for them
                    cl.ev("message", v)
            d.addCallbacks(got, lambda f: entry.__setitem__(2, ("err", f.value)))

    def _do_AppGetBurst(self, act):
        """several get_*() calls issued in one reactor turn: nothing - no eventual-queue turn either - runs between them"""
        for _ in range(act["n"]):
            self._do_AppGet(act)

    def _do_AppDerive(self, act):
        cl = self.clients[act["c"]]
        r = cl.api("derive_key", cl.w.derive_key, act["purpose"], act["n"])
        cl.late.append(["derive:" + act["purpose"] + ":%d" % act["n"], self.stepno, r])

    # server-side faults
    def _do_Dup(self, act):
        self.server.dup_message(self.conn(act["k"]), act["m"])

    def _do_WithholdS2C(self, act):
        """The server does not deliver a frame it has queued for the client (a selective replay after a reconnect)."""
        q = self.conn(act["k"]).s2c
        del q[act["i"]]

    def _do_DupS2C(self, act):
        """The server sends a frame it has queued for the client a second time (the copy goes to the end of the queue)."""
        q = self.conn(act["k"]).s2c
        q.append(dict(q[act["i"]]))

    def _do_MoveS2C(self, act):
        """The server delivers a queued frame earlier than it stored it (the mailbox is an unordered set to the protocol)."""
        q = self.conn(act["k"]).s2c
        fr = q[act["i"]]
        del q[act["i"]]
        q.insert(act["to"], fr)

    def _do_SwapS2C(self, act):
        q = self.conn(act["k"]).s2c
        i = act["i"]
        if i + 1 < len(q) and q[i]["type"] == "message" and q[i + 1]["type"] == "message":
            q[i], q[i + 1] = q[i + 1], q[i]

    def _do_HoistS2C(self, act):
        """The server sends a control response (not a mailbox message) ahead of the message frames queued before it."""
        q = self.conn(act["k"]).s2c
        fr = q[act["i"]]
        if fr["type"] != "message":
            del q[act["i"]]
            q.insert(0, fr)

    def _do_TamperS2C(self, act):
        """The server alters a message frame that is in flight to the client."""
        q = self.conn(act["k"]).s2c
        fr = dict(q[act["i"]])
        op = act["op"]
        if op == "side":
            fr["side"] = act["v"]
        elif op == "phase":
            fr["phase"] = act["v"]
        elif op == "flip" and act.get("v") in ("elem", "bad"):
            # the flipped bits land inside the hex of a PAKE body: another group element / not an element
            from spake2 import SPAKE2_Symmetric
            from wormhole.util import dict_to_bytes as d2b
            import os as _os
            while True:
                cand = SPAKE2_Symmetric(b"flipped", idSymmetric=b"x").start() if act["v"] == "elem" else b"S" + _os.urandom(32)
                probe = SPAKE2_Symmetric(b"probe", idSymmetric=b"x")
                probe.start()
                try:
                    probe.finish(cand)
                    ok = True
                except Exception:
                    ok = False
                if ok == (act["v"] == "elem"):
                    break
            fr["body"] = d2b({"pake_v1": cand.hex()}).hex()
        elif op == "flip" and act.get("v") == "junk":
            b = bytearray(bytes.fromhex(fr["body"]))
            b[0] ^= 0x80                 # no longer UTF-8 / JSON
            fr["body"] = bytes(b).hex()
        elif op == "flip":
            b = bytearray(bytes.fromhex(fr["body"]))
            pos = act.get("pos", len(b) // 2) % max(1, len(b))
            if b:
                b[pos] ^= 0x01 << (act.get("bit", 0) % 8)
            else:
                b = bytearray(b"\x00")
            fr["body"] = bytes(b).hex()
        elif op == "truncate":
            b = bytes.fromhex(fr["body"])
            fr["body"] = b[:act.get("n", len(b) - 1)].hex()
        elif op == "extend":
            fr["body"] = fr["body"] + "00"
        elif op == "body":
            fr["body"] = act["v"]
        q[act["i"]] = fr

    def concretize_body(self, sym):
        """Symbolic body term of the spec -> real bytes (hex) an outsider could produce."""
        from wormhole.util import dict_to_bytes as d2b, to_bytes
        k = sym["k"]
        if k == "pake":
            from spake2 import SPAKE2_Symmetric
            code, _, appid = sym["key"].partition("/")
            np, _, w = code.partition("-")
            from .mbconf import WORDS
            code = "%s-%s" % (np, WORDS.get(w) or w)
            sp = SPAKE2_Symmetric(to_bytes(code), idSymmetric=to_bytes(appid if appid != "app" else "appid"))
            self.outsider_spake = sp
            return d2b({"pake_v1": sp.start().hex()}).hex()
        if k == "pakebad":
            return d2b({"not_pake": "x"}).hex()
        if k == "pakeinv":
            # parses as {"pake_v1": hex} but is nothing SPAKE2 accepts: not a group element / wrong length, by turns
            self._pakeinv = getattr(self, "_pakeinv", 0) + 1
            return d2b({"pake_v1": [(b"S" + b"\xff" * 32).hex(), "00", (b"S" + b"\x01" * 31).hex()][self._pakeinv % 3]}).hex()
        if k == "junk" and sym.get("pt") == "p":
            # junk under the `pake` phase: not JSON / not UTF-8 / not an object / pake_v1 not hex / not a string, by turns
            self._junkp = getattr(self, "_junkp", 0) + 1
            return [b"\xff\x00not json", b"not json at all", b"[1, 2]", b"5", b'{"pake_v1": "zz"}', b'{"pake_v1": 5}', b""][self._junkp % 7].hex()
        if k == "enc":
            from nacl.secret import SecretBox
            from nacl import utils
            return bytes(SecretBox(utils.random(32)).encrypt(b"outsider", utils.random(24))).hex()
        return b"\xff\x00not json".hex()

    def _do_Inject(self, act):
        """A participant that is not one of our wormholes adds a message to a mailbox (or the
        server fabricates one): delivered to every listener like a normal add."""
        app = self.server.app(act.get("appid", "appid"))
        body = act["body"] if "body" in act else self.concretize_body(act["sym"])
        sm = {"side": act["side"], "phase": act["phase"], "body": body, "id": None}
        if act.get("store", True):
            self.server.add_message(app, act["mailbox"], sm)
        else:
            self.server._send_msg(self.conn(act["k"]), sm)

    def _do_SrvSend(self, act):
        """Server sends an arbitrary (conformant) frame on a connection, e.g. error."""
        self.conn(act["k"]).send(act["msg"])

    # ---- convenience
    def run(self, acts):
        for a in acts:
            self.apply(a)

    def drain(self, limit=2000, faults=False, closing=True, stop=None):
        """Run enabled non-fault actions in FIFO-ish order until quiescent."""
        n = 0
        while n < limit:
            if stop is not None and stop():
                return n
            acts = [a for a in self.enabled(faults=False)]
            if not closing:
                acts = [a for a in acts if a["a"] != "CloseDone"]
            if not acts:
                return n
            self.apply(acts[0])
            n += 1
        raise RuntimeError("drain did not quiesce")

    def projection(self):
        out = {}
        for name, cl in self.clients.items():
            b = cl.boss
            out[name] = {
                "st": cl.states(),
                "pending": list(b._M._pending_outbound.keys()),
                "processed": sorted(b._M._processed),
                "next_tx": b._next_tx_phase, "next_rx": b._next_rx_phase,
                "rxq": sorted(b._rx_phases), "sendq": [p for p, _ in b._S._queue],
                "orderq": [p for _, p, _ in b._O._queue],
                "events": [k for k, _ in cl.events],
                "conn": self.live_conn(cl) is not None,
            }
        return out
