"""One-off: freeze the PGP word lists of the pinned commit as a TLA+ module (spec/PGPWords.tla).
The module is committed; it is NOT regenerated from the tree at check time, so a change to the
lists or to the way words are chosen shows up as a disagreement with the specification."""
import hashlib
import sys

from wormhole import _wordlist as wl


def chars(w):
    return "<<" + ",".join('"%s"' % c for c in w) + ">>"


def main(out):
    odd = [wl.byte_to_odd_word[bytes([i])].lower() for i in range(256)]
    even = [wl.byte_to_even_word[bytes([i])].lower() for i in range(256)]
    h = hashlib.sha256(("\n".join(odd + even)).encode()).hexdigest()
    L = ["---- MODULE PGPWords ----",
         "\\* FROZEN copy of the PGP word lists (src/wormhole/_wordlist.py at the pinned commit), lower-cased,",
         "\\* indexed by byte value + 1.  sha256 of the 512 words joined by newlines: " + h,
         "OddW == <<" + ", ".join('"%s"' % w for w in odd) + ">>",
         "EvenW == <<" + ", ".join('"%s"' % w for w in even) + ">>",
         "OddC == <<" + ", ".join(chars(w) for w in odd) + ">>",
         "EvenC == <<" + ", ".join(chars(w) for w in even) + ">>",
         "===="]
    open(out, "w").write("\n".join(L) + "\n")
    print(h)


if __name__ == "__main__":
    main(sys.argv[1])
