"""Shared machinery of the checks: work directories, TLC config generation, evidence files,
known findings, verdict lines."""
import contextlib
import glob
import json
import os
import shutil
import sys
import time

HERE = os.path.dirname(os.path.dirname(os.path.abspath(__file__)))
SPEC = os.path.join(HERE, "spec")
OUT = os.path.join(HERE, "out")
EVIDENCE = os.path.join(HERE, "evidence")
REPLAYS = os.path.join(OUT, "replays")
REPO = os.environ.get("VERIF_REPO", "/repo")
if os.path.realpath(REPO) != "/repo":
    # runs against a scratch copy (mutants, seeded changes) must never overwrite the committed evidence
    EVIDENCE = os.path.join(OUT, "evidence_scratch")
if os.environ.get("VERIF_EVIDENCE_DIR"):
    # my own soak runs (tools/soak.sh) keep their evidence apart; the registered commands never set this
    EVIDENCE = os.environ["VERIF_EVIDENCE_DIR"]


def seed():
    try:
        return int(os.environ.get("VERIF_SEED", "0"))
    except ValueError:
        return 0


class Workdir:
    """out/run_<tag>_<pid>/ : copies of the spec modules + the tables generated from the tree."""

    def __init__(self, tag):
        self.path = os.path.join(OUT, "run_%s_%d" % (tag, os.getpid()))
        self.tables_info = None

    def __enter__(self):
        shutil.rmtree(self.path, ignore_errors=True)
        os.makedirs(self.path)
        for f in glob.glob(os.path.join(SPEC, "*.tla")):
            shutil.copy(f, self.path)
        return self

    def gen_tables(self):
        from . import tables
        t = tables.extract()
        with open(os.path.join(self.path, "Tables.tla"), "w") as f:
            f.write(tables.to_tla(t))
        refp = os.path.join(SPEC, "ref", "Tables.ref.json")
        dr = tables.drift(t, json.load(open(refp))) if os.path.exists(refp) else []
        self.tables_info = {"digest": tables.digest(t), "rows": sum(len(v["rows"]) for v in t.values()), "drift": dr}
        self.tables = t
        return self.tables_info

    def file(self, name):
        return os.path.join(self.path, name)

    def __exit__(self, *a):
        if not os.environ.get("VERIF_KEEP"):
            shutil.rmtree(self.path, ignore_errors=True)
        return False


def tla_value(v):
    """python -> TLA+ expression"""
    if isinstance(v, bool):
        return "TRUE" if v else "FALSE"
    if isinstance(v, int):
        return str(v)
    if isinstance(v, str):
        return '"%s"' % v
    if isinstance(v, (set, frozenset)):
        return "{" + ", ".join(sorted(tla_value(x) for x in v)) + "}"
    if isinstance(v, (list, tuple)):
        return "<<" + ", ".join(tla_value(x) for x in v) + ">>"
    if isinstance(v, dict):
        if not v:
            return "<<>>"
        return "[" + ", ".join("%s |-> %s" % (k, tla_value(x)) for k, x in v.items()) + "]"
    if isinstance(v, Raw):
        return v.s
    raise TypeError(type(v))


class Raw:
    def __init__(self, s):
        self.s = s


def write_model(wd, name, extends, constants, spec="Spec", invariants=(), properties=(), constraint=None,
                view=None, postcondition=None, extra_defs="", init_next=None, check_deadlock=False):
    """Write <name>.tla (constants as definitions) and <name>.cfg into the work directory."""
    lines = ["---- MODULE %s ----" % name, "EXTENDS %s" % extends, ""]
    cfg = []
    if init_next:
        cfg += ["INIT %s" % init_next[0], "NEXT %s" % init_next[1]]
    else:
        cfg.append("SPECIFICATION %s" % spec)
    cfg.append("CONSTANTS")
    for k, v in constants.items():
        lines.append("c_%s == %s" % (k, tla_value(v)))
        cfg.append("  %s <- c_%s" % (k, k))
    if extra_defs:
        lines.append(extra_defs)
    lines.append("====")
    for i in invariants:
        cfg.append("INVARIANT %s" % i)
    for p in properties:
        cfg.append("PROPERTY %s" % p)
    if constraint:
        cfg.append("CONSTRAINT %s" % constraint)
    if view:
        cfg.append("VIEW %s" % view)
    if postcondition:
        cfg.append("POSTCONDITION %s" % postcondition)
    cfg.append("CHECK_DEADLOCK %s" % ("TRUE" if check_deadlock else "FALSE"))
    with open(wd.file(name + ".tla"), "w") as f:
        f.write("\n".join(lines) + "\n")
    with open(wd.file(name + ".cfg"), "w") as f:
        f.write("\n".join(cfg) + "\n")
    return name


def witnesses(wd, extends, constants, goals, prefix, timeout=600, workers=4, **kw):
    """Coverage goals as negated invariants: for each goal (a TLA+ state predicate over `extends`) TLC is asked to
    check ~goal; the counterexample is a shortest behaviour of the model that reaches the goal.  Returns
    [(goal name, behaviour)]; goals the bounded model cannot reach are reported in the second result."""
    from . import tlc as _tlc
    from concurrent.futures import ThreadPoolExecutor
    names = list(goals)

    def one(g):
        m = "%s_%s" % (prefix, g)
        write_model(wd, m, extends, constants, invariants=["NotGoal"], extra_defs="NotGoal == ~(%s)" % goals[g], **kw)
        return g, _tlc.run(m + ".tla", m + ".cfg", cwd=wd.path, workers=workers, timeout=timeout, metadir=wd.file("meta_" + m))
    out, unreached = [], []
    with ThreadPoolExecutor(max_workers=4) as ex:
        for g, r in ex.map(one, names):
            if r.violated == "NotGoal" and r.trace:
                out.append((g, r.trace))
            elif r.ok:
                unreached.append(g)
            else:
                raise RuntimeError("TLC failed on witness goal %s: %s" % (g, r.error or r.stdout[-800:]))
    return out, unreached


def trace_validate(wd, base, constants, traces, proj, name, act_var="last", extra_ext="", timeout=1800, extra_defs=""):
    """Code -> spec: are executions recorded from the real objects behaviours of the specification `base`?

    traces: {tid: [{"a": <recorded environment action, shaped like the spec's history variable `act_var`>,
                    "proj": <projection of the real state after the step>}, ...]}
    proj:   TLA+ expression over base's variables shaped like the recorded projection.
    A generated module <name>.tla re-uses base's Init/Next: a step is allowed iff Next can take it, records the same
    action and leads to a state with the recorded projection; everything not recorded is left to TLC.  All traces are
    validated in one invocation (one initial state per trace id; the furthest line reached is kept in a TLC register).
    Returns ({tid: (reached, total)}, TlcResult)."""
    from . import tlc as _tlc
    tids = sorted(traces)
    path = wd.file(name + ".ndjson")
    with open(path, "w") as f:
        for t in tids:
            for line in traces[t]:
                # chk = False: the state right after this step cannot be observed on the real objects (the step starts a
                # synchronous loop whose iterations are the following lines); the action is matched, the state left to TLC
                f.write(json.dumps({"tid": t, "a": line["a"], "proj": line["proj"], "chk": bool(line.get("chk", True))}) + "\n")
    mod = """---- MODULE %(name)s_T ----
EXTENDS %(base)s, Json, IOUtils, TLCExt%(ext)s
T_All == ndJsonDeserialize(IOEnv.TRACE_FILE)
T_Tids == {T_All[k].tid : k \\in DOMAIN T_All}
T_Of == [t \\in T_Tids |-> SelectSeq(T_All, LAMBDA r : r.tid = t)]
VARIABLES t_id, t_l
T_Proj == %(proj)s
T_Init == Init /\\ t_id \\in T_Tids /\\ t_l = 1
T_Next == /\\ t_l <= Len(T_Of[t_id])
          /\\ Next
          /\\ %(act)s' = T_Of[t_id][t_l].a
          /\\ (T_Of[t_id][t_l].chk => T_Proj' = T_Of[t_id][t_l].proj)
          /\\ t_l' = t_l + 1 /\\ t_id' = t_id
T_Spec == T_Init /\\ [][T_Next]_<<vars, t_id, t_l>>
T_Mark == TLCSet(t_id, IF TLCGet(t_id) < t_l THEN t_l ELSE TLCGet(t_id))
T_RegInit == \\A t \\in T_Tids : TLCSet(t, 0)
T_Post == \\A t \\in T_Tids : PrintT(<<"TRACE", t, TLCGet(t) - 1, Len(T_Of[t])>>)
====
""" % {"name": name, "base": base, "ext": extra_ext, "proj": proj, "act": act_var}
    with open(wd.file(name + "_T.tla"), "w") as f:
        f.write(mod)
    write_model(wd, name, name + "_T", constants, spec="T_Spec", constraint="T_Mark", postcondition="T_Post",
                extra_defs=(extra_defs + "\n" if extra_defs else "") + "ASSUME T_RegInit")
    r = _tlc.run(name + ".tla", name + ".cfg", workers=1, cwd=wd.path, env={"TRACE_FILE": path}, timeout=timeout)
    out = {}
    for v in _tlc.printed_tuples(r.stdout, "TRACE"):
        out[v[1]] = (v[2], v[3])
    if set(out) != set(tids):
        raise RuntimeError("trace validation of %s judged %d of %d traces\n%s" % (name, len(out), len(tids), r.stdout[-2500:]))
    return out, r


# ------------------------------------------------------------------------------ known findings
def load_known():
    p = os.path.join(HERE, "known_findings.json")
    if not os.path.exists(p):
        return []
    return json.load(open(p))


def match_known(prop, signature, known=None):
    """Return the matching 'known' entry, or None.  'fixed' entries never match (they suppress nothing)."""
    for k in (known if known is not None else load_known()):
        if k.get("property") != prop or k.get("status") != "known":
            continue
        sig = k.get("signature", {})
        if all(signature.get(a) == b for a, b in sig.items()):
            return k
    return None


# ------------------------------------------------------------------------------ verdict + evidence
class Verdict:
    def __init__(self, prop, tier):
        self.prop, self.tier = prop, tier
        self.violations = []      # (signature dict, description, replay path)
        self.known = []           # (entry, description)
        self.notes = []
        self.t0 = time.time()
        self._known = load_known()
        for f in glob.glob(os.path.join(REPLAYS, "%s_*.json" % prop)):      # replays of earlier runs
            try:
                os.remove(f)
            except OSError:
                pass

    def violation(self, signature, what, replay_obj):
        k = match_known(self.prop, signature, self._known)
        if k is not None:
            if not any(e is k for e, _ in self.known):
                self.known.append((k, what))
            return False
        os.makedirs(REPLAYS, exist_ok=True)
        path = os.path.join(REPLAYS, "%s_%d_%d.json" % (self.prop, os.getpid(), len(self.violations)))
        with open(path, "w") as f:
            json.dump({"property": self.prop, "signature": signature, "what": what, "replay": replay_obj}, f, indent=1,
                      default=str)
        self.violations.append((signature, what, path))
        return True

    def finish(self, coverage, level="model_checking", assumptions=()):
        os.makedirs(EVIDENCE, exist_ok=True)
        ev = {"property_id": self.prop, "tier": self.tier, "seed": seed(), "level": level,
              "coverage": coverage, "assumptions": list(assumptions), "wall_s": round(time.time() - self.t0, 2),
              "violations": len(self.violations)}
        cov = ev["coverage"]
        cov.setdefault("known_findings_reported", [k["what"] if isinstance(k, dict) else str(k) for k, _ in self.known])
        cov.setdefault("notes", self.notes)
        from . import tlc as _tlc
        if _tlc.ACTION_HIST:
            cov.setdefault("spec_actions_in_replayed_simulations", dict(sorted(_tlc.ACTION_HIST.items())))
        with open(os.path.join(EVIDENCE, "%s.json" % self.prop), "w") as f:
            json.dump(ev, f, indent=1, default=str)
        for k, what in self.known:
            print("KNOWN-FINDING: property=%s %s" % (self.prop, k.get("what", what)))
        seen = set()
        for sig, what, path in self.violations:
            key = json.dumps(sig, sort_keys=True)
            if key in seen:
                continue
            seen.add(key)
            print("VIOLATION property=%s replay=%s" % (self.prop, path))
            print("  " + what[:400])
        return 1 if self.violations else 0
