"""Stand-in for the `noiseprotocol` package, which is not installed in this image (the repository's own
Noise-dependent tests are skipped for the same reason).  Same API surface as used by
wormhole._dilation (NoiseConnection.from_name / set_psks / set_as_initiator / set_as_responder /
start_handshake / write_message / read_message / encrypt / decrypt, noise.exceptions.*), an
NNpsk0-shaped two-message handshake (X25519 ephemerals + PSK), ChaCha20-Poly1305 transport with counter
nonces, 16-byte tags and the 65535-byte Noise message limit.  See DESIGN 2.4 / 2.9 (c)."""
