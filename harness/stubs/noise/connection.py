import hashlib
import hmac
import os
import struct

from nacl import bindings as nb

from .exceptions import NoiseInvalidMessage, NoiseHandshakeError

MAXMSG = 65535
TAG = 16


class _Cipher:
    def __init__(self, key):
        self.k = key
        self.n = 0

    def _nonce(self):
        n = b"\x00" * 4 + struct.pack("<Q", self.n)
        self.n += 1
        return n

    def enc(self, pt):
        # as noiseprotocol's NoiseConnection.encrypt: only the *plaintext* is checked against MAX_MESSAGE_LEN
        if not isinstance(pt, bytes) or len(pt) > MAXMSG:
            raise NoiseInvalidMessage("Data must be bytes and less or equal %d bytes in length" % MAXMSG)
        return nb.crypto_aead_chacha20poly1305_ietf_encrypt(pt, b"", self._nonce(), self.k)

    def dec(self, ct):
        if len(ct) > MAXMSG:
            raise NoiseInvalidMessage("message too long")
        try:
            return nb.crypto_aead_chacha20poly1305_ietf_decrypt(ct, b"", self._nonce(), self.k)
        except Exception as e:
            raise NoiseInvalidMessage(str(e))


class NoiseConnection:
    @classmethod
    def from_name(cls, name):
        c = cls()
        c.name = name
        return c

    def __init__(self):
        self.psk = None
        self.initiator = None
        self.step = None
        self.tx = self.rx = None

    def set_psks(self, psk):
        assert isinstance(psk, bytes) and len(psk) == 32
        self.psk = psk

    def set_as_initiator(self):
        self.initiator = True

    def set_as_responder(self):
        self.initiator = False

    def start_handshake(self):
        self.e_sk = os.urandom(32)
        self.e_pk = nb.crypto_scalarmult_base(self.e_sk)
        self.step = 0

    def _mac(self, data):
        return hmac.new(self.psk, data, hashlib.blake2s).digest()[:TAG]

    def _finish(self, pk_i, pk_r, other):
        dh = nb.crypto_scalarmult(self.e_sk, other)
        km = hashlib.blake2b(dh + self.psk + pk_i + pk_r, digest_size=64).digest()
        k_i, k_r = km[:32], km[32:]
        if self.initiator:
            self.tx, self.rx = _Cipher(k_i), _Cipher(k_r)
        else:
            self.tx, self.rx = _Cipher(k_r), _Cipher(k_i)

    def write_message(self, payload=b""):
        if self.initiator:
            if self.step != 0:
                raise NoiseHandshakeError("handshake message out of order")
            self.step = 1
            return self.e_pk + self._mac(b"1" + self.e_pk)
        if self.step != 1:
            raise NoiseHandshakeError("handshake message out of order")
        self.step = 2
        self._finish(self.peer, self.e_pk, self.peer)
        return self.e_pk + self._mac(b"2" + self.peer + self.e_pk)

    def read_message(self, data):
        if len(data) != 32 + TAG:
            raise NoiseInvalidMessage("bad handshake length")
        pk, tag = data[:32], data[32:]
        if self.initiator:
            if self.step != 1 or not hmac.compare_digest(tag, self._mac(b"2" + self.e_pk + pk)):
                raise NoiseInvalidMessage("bad handshake")
            self.step = 2
            self._finish(self.e_pk, pk, pk)
        else:
            if self.step != 0 or not hmac.compare_digest(tag, self._mac(b"1" + pk)):
                raise NoiseInvalidMessage("bad handshake")
            self.step = 1
            self.peer = pk
        return b""

    def encrypt(self, data):
        if self.tx is None:
            raise NoiseHandshakeError("handshake not finished")
        return self.tx.enc(data)

    def decrypt(self, data):
        if self.rx is None:
            raise NoiseInvalidMessage("handshake not finished")
        return self.rx.dec(data)
