class NoiseInvalidMessage(Exception):
    pass


class NoiseHandshakeError(Exception):
    pass


class NoiseMaxNonceError(Exception):
    pass
