"""DilMidWorld over *real* L2 connections: the two Managers are joined by pairs of real
DilatedConnectionProtocol objects (real framing, Noise stand-in, KCM exchange, the selecting window in
which records received before Connector.accept() wait in DCP._inbound_record_queue) on the simulated TCP
fabric.  The harness plays the Connector only: it decides when each side's accept()/select happens, which
is exactly Connector.select_and_stop_remaining():  c.select(manager); [Leader: c.send_record(KCM())];
manager.connector_connection_made(c).
"""
import collections

from . import sim
from .dilmid import DilMidWorld, reactor

from unittest import mock  # noqa: E402
from twisted.internet import protocol  # noqa: E402
from zope.interface import alsoProvides  # noqa: E402

from wormhole._interfaces import IDilationConnector  # noqa: E402
from wormhole._dilation import connection as C  # noqa: E402
from wormhole._dilation.connector import build_noise, PROLOGUE_LEADER, PROLOGUE_FOLLOWER  # noqa: E402
from wormhole._dilation.roles import LEADER, FOLLOWER  # noqa: E402

KEY = b"k" * 32


class RealConn:
    """bookkeeping around one side's real DilatedConnectionProtocol"""

    def __init__(self, world, side, gen, eq):
        self.world, self.side, self.gen = world, side, gen
        self.out = collections.deque()     # records written, in order, one per transport unit still in flight
        self.alive = False                 # the Manager uses it
        self.paused = False
        self.candidate = False             # add_candidate() happened: accept() may run
        self.link = None
        self.end = None
        connector = mock.Mock()
        alsoProvides(connector, IDilationConnector)
        connector.add_candidate = self._add_candidate
        noise = build_noise()
        noise.set_psks(KEY)
        role = LEADER if side == "L" else FOLLOWER
        if role is LEADER:
            noise.set_as_initiator()
            out, inn = PROLOGUE_LEADER, PROLOGUE_FOLLOWER
        else:
            noise.set_as_responder()
            out, inn = PROLOGUE_FOLLOWER, PROLOGUE_LEADER
        self.p = C.DilatedConnectionProtocol(eq, role, "real-l2-%s-%d" % (side, gen), connector, noise, out, inn)
        orig = self.p.send_record

        def send_record(r):
            t = self.p.transport
            if t is not None and t.connected and not t.disconnecting:
                self.out.append(r)
            return orig(r)
        self.p.send_record = send_record

    def _add_candidate(self, p):
        self.candidate = True

    def disconnect(self):
        self.p.disconnect()


class Holder(protocol.Factory):
    def __init__(self, p):
        self.p = p

    def buildProtocol(self, addr):
        return self.p


class RealLinkWorld(DilMidWorld):
    """connect() is split: handshake(), select(side) per side"""

    def handshake(self):
        """a new TCP connection; prologues, Noise handshake and the Follower's KCM are exchanged: the Leader's end is
        a candidate"""
        self.gen += 1
        self.up = True
        conns = {n: RealConn(self, n, self.gen, self.sides[n].eq) for n in ("L", "F")}
        port = reactor.listenTCP(0, Holder(conns["F"].p))
        pno = port.getHost().port

        class CF(protocol.ClientFactory):
            def buildProtocol(s, addr):
                return conns["L"].p
        c = reactor.connectTCP("127.0.0.1", pno, CF())
        link = reactor.complete(c)          # ends[0] = Leader, ends[1] = Follower
        port.stopListening()
        for n, e in (("L", 0), ("F", 1)):
            conns[n].link, conns[n].end = link, e
            self.pending[n] = conns[n]
        self.link = link
        for _ in range(40):
            moved = False
            for e in (0, 1):
                if link.can_deliver(e) and not conns["L"].candidate:
                    link.deliver(e)
                    moved = True
            self.settle()
            if not moved:
                break
        if not conns["L"].candidate:
            raise RuntimeError("handshake did not make the Leader's end a candidate")
        for c in conns.values():
            while len(c.out) > len(link.ends[c.end].out):
                c.out.popleft()

    pending = None

    def __init__(self, *a, **kw):
        self.pending = {}
        self.link = None
        DilMidWorld.__init__(self, *a, **kw)

    def can_select(self, n):
        c = self.pending.get(n)
        return c is not None and c.candidate and not c.alive

    def select(self, n):
        """Connector.accept(c) -> select_and_stop_remaining(c) for side n"""
        c = self.pending[n]
        if not c.candidate:
            raise RuntimeError("%s has no candidate" % n)
        s = self.sides[n]
        s.conn = c
        s.gen = c.gen
        c.p.select(s.m)
        if n == "L":
            c.p.send_record(C.KCM())
        c.alive = True
        try:
            s.m.connector_connection_made(c.p)
        except Exception as e:          # logged by the eventual queue in the real Connector.accept() turn
            s.errors.append(e)
        self.settle()

    def connect(self):
        """the whole dance at once, as DilMidWorld.connect(): both ends selected, the KCMs delivered"""
        self.handshake()
        self.select("L")
        lc = self.pending["L"]
        # the Leader's KCM (first unit) reaches the Follower
        while lc.out and not self.pending["F"].candidate:
            self.deliver("L")
        self.select("F")

    def link_up(self, gen):
        return self.up and gen == self.gen

    def cut(self):
        self.up = False
        if self.link is not None:
            self.link.do_cut()
        for c in self.pending.values():
            c.out.clear()

    def observe_loss(self, n):
        c = self.pending.get(n)
        if c is None or c.link is None:
            return
        link, e = c.link, c.end
        if link.alive[e]:
            if link.ends[e].disconnecting and not link.cut:
                link.finish_close(e)
            elif link.can_observe_loss(e):
                link.observe_loss(e)
            else:
                link.cut = True
                link.observe_loss(e)
        c.alive = False
        c.candidate = False
        self.settle()

    def deliver(self, frm, count=1):
        """the oldest in-flight unit written by side `frm` reaches the other end's real protocol"""
        c = self.pending.get(frm)
        n = 0
        while n < count and c is not None and c.link is not None and self.link_up(c.gen) and c.link.can_deliver(c.end):
            if c.out:
                c.out.popleft()
            try:
                c.link.deliver(c.end)
            except sim._ProtocolRaised as e:
                self.other(frm).errors.append(e)
                c.link.do_cut()
            self.settle()
            n += 1
        return n

    def pump(self, limit=10000, acks=True):
        for _ in range(limit):
            moved = False
            for n in ("L", "F"):
                if self.deliver(n):
                    moved = True
            if not moved:
                return
