"""Whole-CLI file transfer on the simulated reactor: the real cmd_send.send() and cmd_receive.receive()
(or a scripted, possibly malicious, sender) talk through the mailbox server twin and one simulated TCP
link, with faults injected into the transit byte stream at chosen offsets."""
import hashlib
import io
import json
import os
import shutil
import stat
from unittest import mock

from . import sim

reactor = sim.install()

from twisted.internet import defer  # noqa: E402
from twisted.python import log  # noqa: E402
from twisted.python.failure import Failure  # noqa: E402

from . import mbworld  # noqa: E402  (installs FakeWS)
from .mbserver import ServerTwin  # noqa: E402
from wormhole import transit, ipaddrs  # noqa: E402
from wormhole.cli import cli, cmd_send, cmd_receive  # noqa: E402

ipaddrs.find_addresses = lambda: ["127.0.0.1"]
_ports = iter(range(53000, 10 ** 9))
transit.allocate_tcp_port = lambda: next(_ports)


def config(*argv):
    """Parse a wormhole command line into the Config object the commands take (as wormhole.test.common)."""
    from click.testing import CliRunner
    with mock.patch("wormhole.cli.cli.go") as go:
        res = CliRunner().invoke(cli.wormhole, argv, catch_exceptions=False)
        if res.exit_code != 0:
            raise RuntimeError("bad command line %r: %s" % (argv, res.output))
        return go.call_args[0][1]


class _Anon:
    def __init__(self, name):
        self.name = name


class XferWorld:
    def __init__(self, base):
        reactor.reset()
        self.base = base
        self.server = ServerTwin()
        self.conns = []
        self.internal = []
        self.logged = []
        self._delivering = None
        self.tracker_hook = lambda what, cl: None
        reactor.services[mbworld.RELAY_PORT] = self._ws_connected
        self._obs = self._log
        log.addObserver(self._obs)
        self.results = {}
        self.fault = {}
        self.record_off = None       # stream offset (sender->receiver) where records begin
        self.s2r_delivered = 0
        self.r2s_delivered = 0
        self.transit_link = None
        self.events = []
        self._s2r_orig = bytearray()   # the record stream sender -> receiver as it was written (for the replay fault)
        self.chunk = None            # max bytes per delivery on the transit link (None = whole units)
        self.step_limit = 200000

    # ---- mailbox plumbing (same fake WebSocket as the mailbox world)
    def _log(self, ev):
        if ev.get("isError"):
            f = ev.get("failure")
            self.logged.append(f.value if f is not None else str(ev.get("message")))

    def _call_entry(self, client, entry, f, *a, api=False):
        try:
            return f(*a)
        except Exception as e:
            self.internal.append((entry, e))
            return None

    def _ws_connected(self, connector):
        conn = mbworld.Conn(self, len(self.conns) + 1, _Anon("c%d" % (len(self.conns) + 1)), connector)
        self.conns.append(conn)
        wrapper = connector.factory.buildProtocol(connector.getDestination())
        conn.wrapper = wrapper
        tr = mbworld._WSTransport(conn)
        connector.transport = tr
        conn.transport = tr
        wrapper.makeConnection(tr)
        self.server.connect(conn)
        return conn

    def shutdown(self):
        try:
            log.removeObserver(self._obs)
        except ValueError:
            pass

    # ---- commands
    def start_send(self, cwd, what=None, text=None, code="1-abc", extra=(), channel="arg"):
        """channel: how a text reaches the command - "arg" (--text TEXT), "stdin" (--text - : the caller supplies sys.stdin),
        "prompt" (no --text and nothing to send: the command asks with input(); the caller supplies builtins.input)"""
        argv = ["--relay-url", mbworld.RELAY_URL, "--transit-helper", "", "send", "--hide-progress"]
        if code is not None:             # (None: the command allocates a code, or -0 is among the extras)
            argv += ["--code", code]
        argv += list(extra)
        if text is not None and channel == "stdin":
            argv += ["--text", "-"]
        elif text is not None and channel == "prompt":
            pass
        elif text is not None:
            argv += ["--text", text]
        else:
            argv += ["--", what]        # a file may be called "-dash"
        cfg = config(*argv)
        cfg.cwd = cwd
        cfg.stdout, cfg.stderr = io.StringIO(), io.StringIO()
        self.send_cfg = cfg
        if self.dispatch:
            # through the command-line front end's error interpreter (cli._dispatch_command): what the user is told, exit status
            d = cli._dispatch_command(reactor, cfg, lambda: cmd_send.send(cfg, reactor=reactor))
        else:
            d = cmd_send.send(cfg, reactor=reactor)
        d.addBoth(lambda r: self.results.__setitem__("send", r))
        return cfg

    def start_receive(self, cwd, code="1-abc", accept=True, output_file=None, extra=(), answers=()):
        argv = ["--relay-url", mbworld.RELAY_URL, "--transit-helper", "", "receive", "--hide-progress", "--no-listen"]
        if accept:
            argv += ["--accept-file"]
        if output_file is not None:
            argv += ["--output-file", output_file]
        argv += list(extra) + ([code] if code is not None else [])
        cfg = config(*argv)
        cfg.cwd = cwd
        cfg.stdout, cfg.stderr = io.StringIO(), io.StringIO()
        self.recv_cfg = cfg
        self._answers = list(answers)
        if self.dispatch:
            d = cli._dispatch_command(reactor, cfg, lambda: cmd_receive.receive(cfg, reactor=reactor))
        else:
            d = cmd_receive.receive(cfg, reactor=reactor)
        d.addBoth(lambda r: self.results.__setitem__("recv", r))
        return cfg

    dispatch = False     # True: the commands run under cli._dispatch_command as `wormhole ...` runs them

    # ---- scheduler
    mb_rng = None        # set: the order in which the mailbox connections are served is the schedule's choice

    def _mailbox_step(self):
        conns = list(self.conns)
        if self.mb_rng is not None:
            self.mb_rng.shuffle(conns)
        for conn in conns:
            if conn.state != "open":
                continue
            if conn.c2s:
                self.server.handle(conn, conn.c2s.popleft())
                return True
            if conn.s2c and not conn.closing:
                self._call_entry(conn.client, "ws_message", conn.ws._RC.ws_message, mbworld.dict_to_bytes(conn.s2c.popleft()))
                return True
            if conn.closing:
                while conn.c2s:
                    self.server.handle(conn, conn.c2s.popleft())
                conn.state = "dead"
                self.server.disconnect(conn)
                conn.s2c.clear()
                self._call_entry(conn.client, "connectionLost", conn.wrapper.connectionLost, Failure(sim.ConnectionDone()))
                return True
        return False

    def _kill(self, link):
        link.do_cut()
        for e in (0, 1):
            if link.can_observe_loss(e):
                try:
                    link.observe_loss(e)
                except sim._ProtocolRaised:
                    pass

    def _deliver(self, link, frm):
        """deliver one unit (or part of it) from end `frm`, applying the fault plan on the transit link"""
        t = link.ends[frm]
        unit = t.out[0]
        is_transit = link is self.transit_link
        n = len(unit)
        if is_transit and self.chunk:
            n = min(n, self.chunk)
        if is_transit and frm == self.sender_end:
            pos = self.s2r_delivered
            f = self.fault
            if self.record_off is not None:
                rel = pos - self.record_off          # offset within the record stream
                if "cut_at" in f and rel + n > f["cut_at"] >= rel - 0:
                    keep = max(0, f["cut_at"] - rel)
                    if keep > 0:
                        self._raw_deliver(link, frm, keep)
                        self.s2r_delivered += keep
                    self.events.append(("cut", f["cut_at"]))
                    self._kill(link)
                    return
                if "replay_rec" in f:
                    # record j is replaced, byte for byte, by the record before it (same length): what the receiver is
                    # shown is genuine ciphertext of this very stream under a nonce it has already seen
                    lo, hi, L = f["replay_rec"]
                    if rel < 0:
                        self._s2r_orig += b"\x00" * 0
                    start = max(rel, 0)
                    self._s2r_orig += bytes(unit[start - rel:n])
                    a, z = max(rel, lo), min(rel + n, hi)
                    if a < z:
                        b = bytearray(unit)
                        for pp in range(a, z):
                            b[pp - rel] = self._s2r_orig[pp - L]
                        t.out[0] = bytes(b)
                        if not any(e[0] == "replay" for e in self.events):
                            self.events.append(("replay", lo))
                if "corrupt_at" in f and rel <= f["corrupt_at"] < rel + n:
                    off = f["corrupt_at"] - rel
                    b = bytearray(unit)
                    b[off] ^= 0x20
                    t.out[0] = bytes(b)
                    self.events.append(("corrupt", f["corrupt_at"]))
                    del f["corrupt_at"]
            self.s2r_delivered += n
        elif is_transit:
            if self.record_off_r is not None and self.r2s_delivered >= self.record_off_r and self.fault.get("drop_ack"):
                self.events.append(("ack-dropped", len(unit)))
                self._kill(link)
                return
            self.r2s_delivered += n
        self._raw_deliver(link, frm, n)

    def _raw_deliver(self, link, frm, n):
        try:
            link.deliver(frm, n)
        except sim._ProtocolRaised:
            self._kill(link)

    def _tcp_step(self):
        for c in reactor.pending_attempts():
            if c.port == mbworld.RELAY_PORT:
                reactor.complete(c)
                return True
            link = reactor.complete(c)
            if link is not None and self.transit_link is None:
                self.transit_link = link
                # who is the sender?  the listener side here (receiver dials: --no-listen on the receiver)
                self.sender_end = 1
                self.record_off = len(transit.build_sender_handshake(b"k" * 32)) + len(b"go\n")
                self.record_off_r = len(transit.build_receiver_handshake(b"k" * 32))
            return True
        for l in reactor.live_links():
            for e in (0, 1):
                if l.ends[e] is not None and l.can_pull(e, highwater=1 << 18):
                    try:
                        l.pull(e)
                    except sim._ProtocolRaised:
                        self._kill(l)
                    return True
        for l in reactor.live_links():
            for e in (0, 1):
                if l.can_deliver(e):
                    self._deliver(l, e)
                    return True
                if l.ends[e] is not None and l.closing_done_possible(e):
                    l.finish_close(e)
                    return True
                if l.can_observe_loss(e):
                    l.observe_loss(e)
                    return True
        return False

    def run(self, until=None, max_virtual=400.0):
        t0 = reactor.seconds()
        for _ in range(self.step_limit):
            if until is not None and until():
                return True
            due = reactor.due()
            if due:
                try:
                    reactor.run_call(due[0])
                except Exception as e:
                    self.internal.append(("timer", e))
                continue
            if self._mailbox_step() or self._tcp_step():
                continue
            fut = reactor.future()
            if not fut or fut[0].getTime() - t0 > max_virtual:
                return until() if until else True
            try:
                reactor.run_call(fut[0])
            except Exception as e:
                self.internal.append(("timer", e))
        raise RuntimeError("XferWorld.run did not quiesce")

    def done(self):
        return "send" in self.results and "recv" in self.results

    def ok(self, who):
        r = self.results.get(who, "pending")
        if r == "pending":
            return "pending"
        return "fail" if isinstance(r, Failure) else "ok"


# ---- file system snapshots ---------------------------------------------------------------------------
def snapshot(root):
    """{relative path: (kind, size, sha256, mode)} for everything under root (not following links)"""
    out = {}
    for d, dirs, files in os.walk(root, followlinks=False):
        for n in dirs:
            p = os.path.join(d, n)
            rel = os.path.relpath(p, root)
            if os.path.islink(p):
                out[rel] = ("link", 0, os.readlink(p), 0)
            else:
                out[rel] = ("dir", 0, "", stat.S_IMODE(os.lstat(p).st_mode))
        for n in files:
            p = os.path.join(d, n)
            rel = os.path.relpath(p, root)
            st = os.lstat(p)
            if os.path.islink(p):
                out[rel] = ("link", 0, os.readlink(p), 0)
            else:
                with open(p, "rb") as f:
                    h = hashlib.sha256(f.read()).hexdigest()
                out[rel] = ("file", st.st_size, h, stat.S_IMODE(st.st_mode))
    return out


def tree_content(root, read_view=False):
    """content-only view of a tree (kind, size, hash), for comparing source and destination; read_view: as a reader sees it - a
    symbolic link to a file is the file's content under the link's name (what `wormhole send` reads and packs)"""
    out = {k: (v[0], v[1], v[2]) for k, v in snapshot(root).items()}
    if read_view:
        for k, v in list(out.items()):
            p = os.path.join(root, k)
            if v[0] == "link" and os.path.isfile(p):
                with open(p, "rb") as f:
                    data = f.read()
                out[k] = ("file", len(data), hashlib.sha256(data).hexdigest())
    return out
