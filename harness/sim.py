"""Deterministic simulated Twisted reactor + in-memory TCP fabric.

`install()` must be called before anything imports `twisted.internet.reactor`
(i.e. before importing wormhole).  All scheduling decisions (which timer runs,
which unit of bytes is delivered, which connection attempt completes, which link
is cut) are taken by the caller; nothing happens by itself.
"""
import os
import sys

from twisted.internet import defer, main as _main
from twisted.internet.address import IPv4Address
from twisted.internet.error import (ConnectionDone, ConnectionLost,
                                    ConnectionRefusedError, UserError)
from twisted.internet.interfaces import (IConsumer, IPushProducer, ITCPTransport,
                                         ITransport)
from twisted.internet.testing import MemoryReactorClock
from twisted.python.failure import Failure
from zope.interface import implementer

HIGH_WATER = 1 << 16


@implementer(ITransport, ITCPTransport, IConsumer, IPushProducer)
class SimTransport:
    """One end of a simulated TCP link.

    Outgoing bytes are kept as a list of units (one per write() call) until the
    scheduler delivers them.  Mirrors the behaviours of twisted.internet.abstract
    .FileDescriptor that the code under test relies on (see DESIGN 2.9 d).
    """

    def __init__(self, link, end, protocol, host, peer):
        self.link = link
        self.end = end                 # 0 = dialler, 1 = listener side
        self.protocol = protocol
        self._host, self._peer = host, peer
        self.out = []                  # units in flight towards the peer
        self.connected = True
        self.disconnecting = False
        self.disconnected = False
        self.producer = None
        self.streaming = False
        self.producerPaused = False
        self.readPaused = False        # pauseProducing() called on us (we are a producer)
        self.written = 0
        self.history = []              # every write() of this end, for classification by the harness
        self.log = []

    # --- ITransport
    def write(self, data):
        if isinstance(data, str):
            raise TypeError("Data must be bytes")
        if not self.connected:
            return
        if data:
            self.history.append(bytes(data))
            self.out.append(bytes(data))
            self.written += len(data)
            self._maybe_pause_producer()

    def writeSequence(self, seq):
        for d in seq:
            self.write(d)

    def buffered(self):
        return sum(len(u) for u in self.out)

    def _maybe_pause_producer(self):
        if (self.producer is not None and self.streaming and not self.producerPaused
                and self.buffered() > HIGH_WATER):
            self.producerPaused = True
            self.producer.pauseProducing()

    def loseConnection(self):
        if self.connected and not self.disconnecting:
            self.disconnecting = True
            self.link.fabric.note("loseConnection", self)

    def abortConnection(self):
        if self.connected:
            self.out = []
            self.disconnecting = True
            self.link.aborted = True
            self.link.fabric.note("abortConnection", self)

    def getPeer(self):
        return self._peer

    def getHost(self):
        return self._host

    def setTcpNoDelay(self, enabled):
        pass

    def getTcpNoDelay(self):
        return False

    def setTcpKeepAlive(self, enabled):
        pass

    def getTcpKeepAlive(self):
        return False

    def loseWriteConnection(self):
        self.loseConnection()

    # --- IConsumer
    def registerProducer(self, producer, streaming):
        if self.producer is not None:
            raise RuntimeError("Cannot register producer %s, because producer %s was never "
                               "unregistered." % (producer, self.producer))
        if not self.connected:
            producer.stopProducing()
            return
        self.producer = producer
        self.streaming = streaming
        self.producerPaused = False
        if not streaming:
            # pull producers are asked for data whenever the buffer is empty; the
            # scheduler decides when (action "pull")
            pass

    def unregisterProducer(self):
        self.producer = None
        self.producerPaused = False

    # --- IPushProducer (we produce bytes for our protocol)
    def pauseProducing(self):
        self.readPaused = True

    def resumeProducing(self):
        self.readPaused = False

    def stopProducing(self):
        self.loseConnection()

    def __repr__(self):
        return "<SimTransport link=%d end=%d>" % (self.link.id, self.end)


class SimLink:
    """A TCP connection between two protocols."""

    def __init__(self, fabric, lid, port):
        self.fabric = fabric
        self.id = lid
        self.port = port
        self.ends = [None, None]     # SimTransport
        self.alive = [True, True]    # connectionLost not yet delivered to that end
        self.cut = False             # no further bytes will be delivered
        self.aborted = False
        self.tag = None

    def other(self, end):
        return self.ends[1 - end]

    # scheduler-visible predicates
    def can_deliver(self, frm):
        t = self.ends[frm]
        peer = self.ends[1 - frm]
        return (not self.cut and bool(t.out) and self.alive[1 - frm] and peer.connected
                and not peer.readPaused and not peer.disconnecting)

    def deliver(self, frm, nbytes=None):
        """Deliver the oldest unit written by end `frm` (or its first nbytes) to the peer."""
        t = self.ends[frm]
        peer = self.ends[1 - frm]
        unit = t.out[0]
        if nbytes is None or nbytes >= len(unit):
            t.out.pop(0)
            data = unit
        else:
            data = unit[:nbytes]
            t.out[0] = unit[nbytes:]
        self.fabric.call_protocol(peer.protocol.dataReceived, data)
        # drained? resume push producer / let pull producers run
        if t.producer is not None and t.streaming and t.producerPaused and not t.out and t.connected:
            t.producerPaused = False
            self.fabric.call_protocol(t.producer.resumeProducing)
        return data

    def can_pull(self, end, highwater=0):
        """A pull producer is asked for more as soon as the local write buffer is empty, i.e. as soon as
        the bytes were handed to the kernel - not when the peer has read them.  `highwater` is how many
        bytes may be in flight (kernel buffers) before we stop asking."""
        t = self.ends[end]
        return (t.connected and t.producer is not None and not t.streaming and t.buffered() <= highwater
                and not self.cut and not t.disconnecting)

    def pull(self, end):
        t = self.ends[end]
        self.fabric.call_protocol(t.producer.resumeProducing)

    def closing_done_possible(self, end):
        """end called loseConnection() and its buffer has been flushed (or link cut)."""
        t = self.ends[end]
        return t.connected and t.disconnecting and (not t.out or self.cut)

    def finish_close(self, end, reason=None):
        """Complete a loseConnection(): the closing end sees connectionLost; the peer will
        see it as a separate step (observe_loss)."""
        self.cut = True
        self._lost(end, reason or ConnectionDone())

    def do_cut(self):
        """The network drops the link: everything in flight is gone."""
        self.cut = True
        for t in self.ends:
            if t is not None:
                t.out = []

    def can_observe_loss(self, end):
        return self.cut and self.alive[end] and self.ends[end] is not None

    def observe_loss(self, end, reason=None):
        self._lost(end, reason or ConnectionLost())

    def _lost(self, end, reason):
        t = self.ends[end]
        if not self.alive[end]:
            return
        self.alive[end] = False
        t.connected = False
        t.disconnected = True
        t.out = []
        prod = t.producer
        t.producer = None
        if prod is not None:
            self.fabric.call_protocol(prod.stopProducing)
        self.fabric.call_protocol(t.protocol.connectionLost, Failure(reason))

    def dead(self):
        return not self.alive[0] and not self.alive[1]


class SimConnector:
    def __init__(self, fabric, cid, host, port, factory, timeout):
        self.fabric = fabric
        self.id = cid
        self.host, self.port, self.factory, self.timeout = host, port, factory, timeout
        self.state = "connecting"
        self.transport = None
        self.tag = None

    def stopConnecting(self):
        if self.state == "connecting":
            self.state = "failed"
            self.factory.clientConnectionFailed(self, Failure(UserError()))

    def disconnect(self):
        if self.state == "connecting":
            self.stopConnecting()
        elif self.transport is not None:
            self.transport.loseConnection()

    def connect(self):
        pass

    def getDestination(self):
        return IPv4Address("TCP", self.host, self.port)


class SimPort:
    def __init__(self, fabric, port, factory):
        self.fabric, self.port, self.factory = fabric, port, factory
        self.listening = True

    def getHost(self):
        return IPv4Address("TCP", "127.0.0.1", self.port)

    def stopListening(self):
        if self.listening:
            self.listening = False
            self.fabric.listeners.pop(self.port, None)
            self.factory.doStop()
        return defer.succeed(None)

    def startListening(self):
        pass


class SimReactor(MemoryReactorClock):
    """Global reactor: virtual time with single-step control + in-memory TCP."""

    def __init__(self):
        MemoryReactorClock.__init__(self)
        self.running = True
        self.listeners = {}        # port -> SimPort
        self.attempts = []         # SimConnector in state "connecting"
        self.links = []
        self.services = {}         # port -> callable(connector) for non-TCP-level services
        self._nextport = 40000
        self._nextid = 0
        self.notes = []
        self.proto_errors = []     # exceptions raised by protocol callbacks (Twisted logs + drops)

    def reset(self):
        """Forget everything; used between cases in one process."""
        self.calls[:] = []
        self.rightNow = 0.0
        self.listeners.clear()
        self.attempts[:] = []
        self.links[:] = []
        self.services.clear()
        self.tcpClients[:] = []
        self.tcpServers[:] = []
        self.connectors[:] = []
        self._nextport = 40000
        self._nextid = 0
        self.notes[:] = []
        self.proto_errors[:] = []
        self.triggers.clear()

    def note(self, what, obj):
        self.notes.append((what, obj))

    # --- threads / misc used by library code
    def callFromThread(self, f, *a, **kw):
        self.callLater(0, f, *a, **kw)

    def callInThread(self, f, *a, **kw):
        raise RuntimeError("no threads in the simulated reactor")

    def getThreadPool(self):
        raise RuntimeError("no threads in the simulated reactor")

    def addSystemEventTrigger(self, phase, eventType, f, *a, **kw):
        phaseTriggers = self.triggers.setdefault(phase, {})
        phaseTriggers.setdefault(eventType, []).append((f, a, kw))
        return (phase, eventType, (f, a, kw))

    def removeSystemEventTrigger(self, tid):
        try:
            self.triggers[tid[0]][tid[1]].remove(tid[2])
        except Exception:
            pass

    # --- time, one call at a time
    def due(self):
        """Delayed calls whose time has come, in firing order."""
        self._sortCalls()
        return [c for c in self.calls if c.getTime() <= self.rightNow]

    def future(self):
        self._sortCalls()
        return [c for c in self.calls if c.getTime() > self.rightNow]

    def run_call(self, dc):
        """Run one pending DelayedCall now (advancing the clock to its time if needed)."""
        if dc.getTime() > self.rightNow:
            self.rightNow = dc.getTime()
        self.calls.remove(dc)
        dc.called = 1
        dc.func(*dc.args, **dc.kw)

    def run_next(self):
        self._sortCalls()
        if self.calls:
            self.run_call(self.calls[0])
            return True
        return False

    # --- TCP
    def listenTCP(self, port, factory, backlog=50, interface=""):
        if port == 0:
            self._nextport += 1
            port = self._nextport
        p = SimPort(self, port, factory)
        self.listeners[port] = p
        factory.doStart()
        return p

    def connectTCP(self, host, port, factory, timeout=30, bindAddress=None):
        self._nextid += 1
        c = SimConnector(self, self._nextid, host, port, factory, timeout)
        factory.doStart()
        factory.startedConnecting(c)
        self.attempts.append(c)
        return c

    def call_protocol(self, f, *a):
        """Twisted catches exceptions from protocol callbacks, logs them and drops the
        connection; we log and record them (the caller decides about the connection)."""
        try:
            return f(*a)
        except Exception:
            from twisted.python import log
            fl = Failure()
            self.proto_errors.append(fl)
            log.err(fl)
            raise _ProtocolRaised(fl)

    def pending_attempts(self):
        return [c for c in self.attempts if c.state == "connecting"]

    def refuse(self, conn, reason=None):
        conn.state = "failed"
        conn.factory.clientConnectionFailed(conn, Failure(reason or ConnectionRefusedError()))
        conn.factory.doStop()

    def complete(self, conn):
        """The TCP handshake of attempt `conn` completes.  Returns the SimLink, or None when
        nobody listens (the attempt is refused)."""
        if conn.port in self.services:
            conn.state = "connected"
            return self.services[conn.port](conn)
        lp = self.listeners.get(conn.port)
        if lp is None or not lp.listening:
            self.refuse(conn)
            return None
        conn.state = "connected"
        self._nextid += 1
        link = SimLink(self, self._nextid, conn.port)
        caddr = IPv4Address("TCP", "127.0.0.1", 50000 + link.id)
        saddr = IPv4Address("TCP", conn.host, conn.port)
        sproto = lp.factory.buildProtocol(caddr)
        cproto = conn.factory.buildProtocol(saddr)
        self.links.append(link)
        if cproto is None or sproto is None:
            link.cut = True
            link.alive = [False, False]
            return link
        link.ends[0] = SimTransport(link, 0, cproto, caddr, saddr)
        link.ends[1] = SimTransport(link, 1, sproto, saddr, caddr)
        conn.transport = link.ends[0]
        link.connector = conn
        for t in (link.ends[1], link.ends[0]):
            try:
                self.call_protocol(t.protocol.makeConnection, t)
            except _ProtocolRaised:
                t.loseConnection()
        return link

    def live_links(self):
        return [l for l in self.links if not l.dead()]


ConnectionDone = ConnectionDone


class _ProtocolRaised(Exception):
    def __init__(self, failure):
        Exception.__init__(self, str(failure.value))
        self.failure = failure


_installed = None


def install():
    """Install a SimReactor as twisted.internet.reactor (idempotent)."""
    global _installed
    if _installed is None:
        if "twisted.internet.reactor" in sys.modules:
            raise RuntimeError("a reactor is already installed; import harness.sim first")
        _installed = SimReactor()
        _main.installReactor(_installed)
    return _installed
