"""Entry point of ./check."""
import importlib
import os
import sys
import traceback

GROUPS = {
    "mailbox": ["C01", "C02", "C03", "C08", "C09", "C14", "C18"],
    "codes": ["C19"],
    "hints": ["C20"],
    "transit": ["C06", "C07"],
    "xfer": ["C04"],
    "recvdest": ["C05"],
    "dil_l2": ["C12"],
    "dil_mid": ["C10", "C13"],
    "dil_flow": ["C15"],
    "dil_timer": ["C16"],
    "dil_full": ["C11", "C17"],
}


def module_for(prop):
    for g, props in GROUPS.items():
        if prop in props:
            return importlib.import_module("harness.props." + g)
    raise SystemExit("no check for %s" % prop)


def selftest():
    """Development gate, not a property check: environment fidelity (harness/fidelity.py) and the demonstration that
    the trace specification is bound to the code (corrupted traces are rejected)."""
    import json
    from harness import fidelity
    rc = fidelity.main()
    from harness.props import mailbox
    ok, out = mailbox.binding_demo()
    print(json.dumps({"trace_binding": out}, indent=1))
    print("BINDING %s" % ("ok" if ok else "NOT DEMONSTRATED"))
    return 0 if (rc == 0 and ok) else 1


def main(argv):
    if len(argv) < 1 or (len(argv) < 2 and argv[0] != "selftest"):
        print(__doc__)
        return 2
    if argv[0] == "selftest":
        return selftest()
    prop = argv[0]
    if argv[1] == "--replay":
        mod = module_for(prop)
        return mod.replay(prop, argv[2])
    tier = argv[1]
    os.environ["VERIF_TIER"] = tier
    mod = module_for(prop)
    try:
        return mod.run(prop, tier)
    except SystemExit:
        raise
    except Exception:
        traceback.print_exc()
        print("MACHINERY-FAILURE property=%s" % prop)
        return 2


if __name__ == "__main__":
    sys.exit(main(sys.argv[1:]))
