"""Regenerates /verif/MANIFEST.json from the table below (keeps it valid at all times)."""
import json
import os

HERE = os.path.dirname(os.path.dirname(os.path.abspath(__file__)))

MAILBOX_NOTE = ("TLC is exhaustive only for the listed constants (2 clients, <=2 sends, <=2 drops, <=2 faults); crypto is "
                "symbolic in the model and real (SPAKE2/NaCl/HKDF) in the replayed executions; Autobahn/Twisted are replaced "
                "by harness/sim.py + FakeWS; harness/mbserver.py stands for a conformant server")

CHECKS = {
    "C01": ("Wormhole.tla + Crypto.tla: TLC checks KeyAgreement / VerifiedImpliesSameCode / MismatchSilent / MismatchNotHappy over all code and appid "
            "pairs of the model and all arrival orders; behaviours are replayed on two real wormholes (real SPAKE2) and "
            "MailboxObs.tla P_KeyAgree decides on the recorded executions", "2.1, 3/C01"),
    "C02": ("TLC checks NoForgery under every single tamper/inject operation of the symbolic adversary; each is executed on real "
            "bytes (relabel, reflect, bit flip, cross-phase) and the TLA+ observer decides", "3/C02"),
    "C03": ("TLC checks InOrderOnce under dup/swap/drop on the extracted tables; spec behaviours are replayed on real wormholes, "
            "random real schedules are validated against WormholeTrace.tla, the TLA+ observer decides; Notify.tla (the notification "
            "layer: SequenceObserver / OneShotObserver / EventualQueue under a Deferred-mode application) is model-checked, bound both "
            "ways to the real objects and judged by NotifyObs.tla (MsgFIFO, FireOrder, AtRest)", "3/C03, 7.2"),
    "C08": ("TLC checks ClosedOnce / NothingAfter / VerdictRight / ServerFreedAtClose with close() enabled in every reachable "
            "state; replayed on real wormholes with the server twin's tables inspected at the closed notification; Notify.tla / "
            "NotifyObs.tla decide the part of the statement that lives in _DeferredWormhole (every close() Deferred carries the verdict, "
            "once; nothing is retrievable afterwards)", "3/C08, 7.2"),
    "C09": ("TLC checks InOrderOnce / OnceEach with a connection drop or an aborted reconnect at every step; real executions whose "
            "environment was benign (drops, aborted reconnects, duplicates, reorderings) must reach the goal (key established, every "
            "message delivered) after a fair completion; arrival-permutation, un-echoed-resubmission and long-outage (many refused "
            "connection attempts in a row) families", "3/C09"),
    "C14": ("TLC reachability of NoTransition / assertion failures on the tables extracted from the tree (re-entrant close, late "
            "frames, third participant, failed connection, input/allocate flows); every counterexample is replayed on the real "
            "code before it counts", "3/C14"),
    "C18": ("TLC checks OnceEach / CausalOrder / VersionsFirst; the TLA+ observer evaluates the same operators plus late "
            "get_*() outcomes on real executions in both API flavours; Notify.tla models the notification layer itself (the seven "
            "observers of _DeferredWormhole, OneShotObserver / SequenceObserver / EmptyableSet over the EventualQueue, an application "
            "acting re-entrantly from its callbacks): TLC checks ten invariants, an action property and two liveness properties, "
            "simulated behaviours are replayed on the real objects, random walks over the real objects are validated by TLC, "
            "NotifyObs.tla decides on every recorded execution", "3/C18, 7.2"),
    "C04": ("FileXfer.tla: TLC checks BothOkExact / CutBeforeAllFails / SenderNeedsGoodAck / BadAckFails / DestOnlyWhenComplete "
            "(+ termination) for payloads of 0..3 records under every fault; every distinct fault signature of its behaviours is "
            "executed with the real `wormhole send` and `wormhole receive` commands on the simulated reactor (files around the "
            "16 KiB record boundary, odd names, directory trees, text), faults injected at byte offsets of the transit stream; "
            "(cut, corruption, an earlier record shown again in place of a later one, lost acknowledgement); "
            "XferObs.tla decides on the reported outcomes and the receiver's file system; supplementary specifications bound the same way: "
            "XferProto.tla (prompts / messages / outcomes / how the code is come by, the other command started from the printed command line, "
            "outcomes as cli._dispatch_command reports them) and SshKey.tla (`wormhole ssh invite / accept`, xfer_util)", "3/C04, 7.5"),
    "C05": ("RecvDest.tla: the destination decision table over abstract name classes x --output-file state x accept-file x "
            "pre-existing objects; TLC checks the statement on the whole abstract space (decoration of the offered name is "
            "irrelevant, existing destination fails, replacement only when named, directories never deleted, hostile zip members "
            "abort) and prints every case; the real cmd_receive.Receiver runs each case in a sandbox whose before/after snapshot "
            "(including the parent directory) is judged by RecvDestObs.tla; the cases are also run through the whole command (real "
            "`wormhole receive` against a real sender whose offer carries the hostile name; user answering yes or no; transit "
            "stream cut), so that the failure paths and whatever they clean up are judged too", "3/C05, 7.2"),
    "C06": ("TransitRecords.tla: TLC checks PrefixInv / NothingAfterTamper / HungUpWhenBad / NoReadLeftBehind / ConsumerTruth under every "
            "frame-level adversary operation; a covering family (every operation x position x records already received) and "
            "simulated behaviours are executed on real, really-negotiated Connection pairs in both directions under five chunkings "
            "with byte-level concretisation of flips, queue / loop / consumer / back-pressure-consumer readers; the Mixed configuration "
            "(single records read and consumers expecting the bytes of the next 0..2 records taking turns, as a file transfer uses the "
            "connection) is model-checked and walks of a sequential application over real Connection pairs are validated against it; "
            "long histories (300 / 700 records, a stale frame shown again where the nonce's low byte repeats) and reads that end a few bytes "
            "into the next length prefix; TransitObs.tla decides", "3/C06, 7.2"),
    "C07": ("Transit.tla: TLC checks AtMostOneGo / GoOnlyAfterRH / ReceiverNeedsGo / SameLink / KeyHoldersOnly / OthersClosed / "
            "DeadlineDecides (+ NoHang liveness) for twelve contender configurations (direct both ways, relays, strangers, wrong-key "
            "peers, a dishonest relay, a key-holding sender of another implementation that says nevermind, units coalesced in one "
            "read); behaviours are replayed on a real TransitSender/TransitReceiver on the simulated TCP fabric with state "
            "comparison after every step; seeded walks over the real pair validated by TLC; the selected link must still be up after three "
            "idle time-outs; TransitSelObs.tla decides", "3/C07"),
    "C10": ("DilationL4.tla: outbound queue / ack / watermark / replay-on-reconnect model; TLC checks InOrderOnce / NothingForgotten / "
            "Goal (+ eventual delivery) with cuts at every record; behaviours are replayed in both directions on two real Managers "
            "(real Outbound, Inbound, SubChannels, endpoints, reconnect state machine) over scripted L2 connections with delivered "
            "callbacks compared after every step; seeded random walks over the real Managers are recorded and validated by TLC against "
            "DilationL4.tla (code -> spec); families on real DilatedConnectionProtocol pairs and on two real dilating wormholes "
            "(real Connector) with writes before, across and after network cuts, both applications opening subchannels in one session, "
            "a session of 310 records; DilMidObs.tla decides", "3/C10, 7.2"),
    "C13": ("DilationSub.tla interprets the SubChannel transition table extracted from the tree, plus Inbound/SubchannelDemultiplex; "
            "TLC checks OpensOnce / NothingAfterLost / DataInOrder / IdsDisjoint / UnexpectedRefused / NoInternal for listen-before/"
            "after-open, expected sets, half-closeable protocols, both sides opening; behaviours replayed on real Managers built "
            "with expected_subprotocols the way dilate() builds them; seeded random walks over the real objects are validated by TLC "
            "against DilationSub.tla (code -> spec); a full-stack family (two real dilating wormholes) opens, writes and closes "
            "subchannels while connected or offline; coverage goals (what a late listener finds waiting) as TLC witnesses replayed on the "
            "real objects; at rest every closed subchannel was lost once on both sides; DilMidObs.tla decides", "3/C13, 7.2"),
    "C11": ("DilationL3.tla interprets the Manager, Connector and DilatedConnectionProtocol tables extracted from the tree (mailbox "
            "control messages FIFO per sender, candidate links with handshake/KCM phases, eventual-queue turns, cuts observed by "
            "either side first); TLC checks AtMostOneSelected / FollowerFollowsLeader / NoDeadlock (convergence under the "
            "statement's proviso) / OnlyBenignInternal; behaviours are replayed on two real dilating wormholes (mailbox twin, "
            "simulated TCP, Noise stand-in) with Manager/Connector state and selected link compared after every step; "
            "DilationL3Obs.tla decides on per-step snapshots", "3/C11"),
    "C17": ("DilationL3.tla with Stop enabled at every reachable Manager/Connector state: TLC checks NothingLeftAfterStop and the "
            "liveness StopCompletes under fairness; behaviours (and every counterexample on the current tables) are replayed on "
            "the full stack where Stop is a real w.close(); listeners / pending attempts / selected connection inspected on the "
            "simulated fabric at the closed notification; a non-dilating peer must fail connect() with OldPeerCannotDilateError; a peer of "
            "another build (no version in common) that dilates all the same must not keep close() from completing", "3/C17"),
    "C12": ("DilationL2.tla: token-stream model of one L2 direction (relay reply, prologue, Noise handshake, KCM, records) with one "
            "adversarial replacement at every position; TLC checks ManagerOnlyAfterKCM / NothingAfterFault / FaultDrops / "
            "CleanDelivers and enumerates 76 record classes (7 types x id/seqnum boundary values x payload lengths around the Noise "
            "packet limit x subprotocol names); every class is round-tripped and every (fault, position) executed on real "
            "DilatedConnectionProtocol pairs under four fragmentations; DilationL2Obs.tla decides; supplementary: DilationL2M.tla (the "
            "conversation of both ends at the level of the extracted _Framer / _Record / DilatedConnectionProtocol tables), walks over real "
            "pairs validated by TLC", "3/C12, 7.5"),
    "C15": ("DilationFlow.tla: Outbound's pause flag / rotating deque / paused+unpaused sets with the resume loop modelled one "
            "iteration per step so that transport pause/resume, register/unregister and subchannel close occur inside a "
            "producer's turn; Inbound's pause set across connections; TLC checks ThreeSets / AllPausedWhenPaused / NoConnMeansPaused "
            "/ NoResumeWhilePaused / AllResumedAfterDrain / RotationFair / InboundExact / InboundCarried / LoopTerminates; "
            "behaviours are replayed on the real Outbound and Inbound with producers that perform the scripted re-entrant actions; "
            "DilationFlowObs.tla decides", "3/C15"),
    "C16": ("DilationTimer.tla: TrafficTimer's extracted transition table + Manager's ping/timer glue with explicit integer time "
            "(intervals 2, 3 (thorough: 5) ticks, pong latencies 0..I-1 or silence, loss / reconnect / stop at every tick); TLC checks "
            "ResponsiveNeverDropped / SilentDropped / DroppedWithinThree / NoTimerWithoutConn / MonitoredWhenConnected; behaviours are "
            "replayed on a real Leader Manager + TrafficTimer on the virtual clock against a real Follower Manager; timer deadline, "
            "machine state, pings and monitor disconnects compared after every step; seeded random walks over the real Manager/"
            "TrafficTimer are validated by TLC against DilationTimer.tla (code -> spec); public-API cases on two real wormholes "
            "(also with the mailbox connection down); DilationTimerObs.tla decides on per-step snapshots", "3/C16, 7.2"),
    "C19": ("Codes.tla over a frozen copy of the PGP word lists: TLC checks that each list is a bijection from bytes and that every "
            "completion extends the typed prefix and is allocatable, and enumerates every typed prefix / short code string; the real "
            "get_completions / choose_words / validate_code are run on every enumerated case; the code-entry protocol (one of "
            "allocate/set/input, helper call orders) is model-checked on Wormhole.tla and replayed", "3/C19"),
    "C20": ("Hints.tla: TLC enumerates every hint list of the abstract JSON-kind space with the attempts the spec requires and "
            "permits; each case is concretised and fed to the real Transit (sender, receiver) and to a real dilation "
            "Manager/Connector; no exception, dialled set within bounds (twin hints: the same endpoint named twice), produced hints "
            "parse back to the same targets", "3/C20"),
}


def main():
    checks = []
    for pid, (text, ref) in sorted(CHECKS.items()):
        checks.append({
            "property_id": pid,
            "quick_cmd": "./check %s quick" % pid,
            "thorough_cmd": "./check %s thorough" % pid,
            "evidence_file": "/verif/evidence/%s.json" % pid,
            "replay_cmd_template": "./check %s --replay {path}" % pid,
            "engine": "tlc+replay",
            "level_claimed": {"category": "model_checking", "text": text, "design_ref": ref},
            "level_note": MAILBOX_NOTE if pid in ("C01", "C02", "C03", "C08", "C09", "C14", "C18") else NOTES.get(pid, ""),
            "technique": "explicit TLA+ spec model-checked with TLC; two-way conformance (TLC behaviours replayed into the real "
                         "code, real traces validated by TLC); TLA+ observer decides on real executions",
        })
    claimed = {c["property_id"] for c in checks}
    allp = [json.loads(l)["id"] for l in open(os.path.join(HERE, "properties.jsonl"))]
    na = [{"property_id": p, "reason": NOT_YET.get(p, "check not built yet in this round (planned: DESIGN.md section 3)")}
          for p in allp if p not in claimed]
    m = {
        "version": 1,
        "setup_cmd": "./setup.sh",
        "hooks": {"guard": "MAGIC_WORMHOLE_VERIF", "enable": "no source hooks: the harness observes through the public API, "
                  "Automat's set_trace and harness-side substitution of the reactor / WebSocket protocol",
                  "baseline_off_cmd": "cd /repo && /venv/bin/python -m pytest -ra -q -p no:cacheprovider --timeout=900 "
                                      "--continue-on-collection-errors", "source_commits": [], "add_only": True},
        "engines": [{"name": "tlc+replay", "path": "/verif/check", "serves_properties": sorted(claimed),
                     "kind_free_text": "TLA+ specs in /verif/spec checked by TLC; harness/ drives the real code on a simulated "
                                       "reactor along TLC behaviours and validates recorded traces with TLC"}],
        "checks": checks,
        "not_applicable": na,
        "notes": "fix commits in /repo are listed in known_findings.json (status fixed)",
    }
    with open(os.path.join(HERE, "MANIFEST.json"), "w") as f:
        json.dump(m, f, indent=1)
    print("MANIFEST.json: %d checks, %d not yet claimed" % (len(checks), len(na)))


NOTES = {
    "C04": "payloads of 0..3 records in TLC, real payloads up to ~50 KB; receiver runs with --accept-file --no-listen; faulty "
           "acknowledgements are produced by patching the peer receiver; C06 is the interface assumption of the model",
    "C05": "POSIX path semantics; Receiver methods driven directly with crafted offers/archives, and the whole command for a subset of "
           "the cases (quick: undecorated names) with a sender whose offer is rewritten; "
           "the receiver's own <destination>.tmp is part of the destination's footprint (a stale one is overwritten by design)",
    "C06": "SecretBox assumed secure; <=4 records and <=2 adversary operations per direction in TLC; an altered length prefix is "
           "judged only once a complete manipulated frame has been consumed",
    "C07": "<=3 contenders per configuration, a unit split at most once, scripted relay and strangers; HKDF-derived handshakes "
           "cannot be produced without the key",
    "C10": "both directions over scripted L2 connections (record granularity) and the Leader -> Follower direction also over pairs of real "
           "DilatedConnectionProtocol objects (selecting window: cand/inq/ReconnectA/SelectB) with TLC witness behaviours; "
           "<=8 records and <=3 cuts in TLC/simulation",
    "C13": "model runs over one reliable connection (C10 is the interface); <=2 subchannels, <=2 writes per end in TLC; walks up to 4 "
           "subchannels",
    "C11": "<=4 links and <=2 cuts exhaustively (6 links in simulation); handshake progress per link is lock-step phases, byte-level "
           "fragmentation is C12's; Noise stand-in; the transit relay appears in a full-stack family only, not in the model",
    "C17": "as C11; the mailbox connection stays up during shutdown (the closed notification needs it, as C08)",
    "C12": "noiseprotocol is not installed: harness/stubs/noise stands in (real ChaCha20-Poly1305, 65535-byte limit); truncated tokens "
           "and absurd length prefixes leave the receiver waiting and are not required to drop",
    "C15": "2 (thorough: 3) producers, <=4 transport signals in TLC; producers and the L2 connection are recording stand-ins, "
           "Outbound/Inbound/PullToPush/Cooperator are real",
    "C16": "integer time (ties ordered by the behaviour); scripted L2 connections; horizons of 10-22 ticks (walks: 30-36)",
    "C19": "the word lists in the spec are a frozen copy of the pinned commit; os.urandom is assumed uniform; TLC enumerates all "
           "prefixes of all words for 2 (thorough: 3) word codes; code-entry schedules as for the mailbox checks",
    "C20": "field values are abstracted to JSON kinds (str/int/float/bool/null/list/dict/missing) with a few concrete "
           "representatives each; lists of length <= 2; top-level hints are JSON objects as the statement says",
}
NOT_YET = {}

if __name__ == "__main__":
    main()
