"""Conformance between spec/Wormhole.tla and the real wormhole objects (both directions share this
projection and this action mapping)."""
import json
import os

from .mbworld import MailboxWorld, MACHINES

WORDS = {"w": "alpha-beta", "v": "gamma-delta", "alloc": None, "sp ace": "al pha", "W": "Alpha-beta",
         "nfc": "café-beta", "nfd": "café-beta"}
OUTSIDER_SIDES = {"X": "f0f0f0f0f0", "P": "e1e1e1e1e1", "Y": "d2d2d2d2d2"}


class Binding:
    """Names <-> concrete values for one replayed behaviour."""

    def __init__(self, world):
        self.world = world
        self.side_of = {n: c.side for n, c in world.clients.items()}
        self.side_of.update(OUTSIDER_SIDES)
        self.name_of = {v: k for k, v in self.side_of.items()}
        self.words = dict(WORDS)

    def code(self, np, w):
        words = self.words.get(w, w)
        return "%s-%s" % (np, words)

    def code_class(self, code):
        """real code string -> model string 'np-class'"""
        if code is None:
            return None
        np, _, words = code.partition("-")
        for k, v in self.words.items():
            if v == words:
                return "%s-%s" % (np, k)
        return "%s-alloc" % np     # words chosen by the allocator

    def side_name(self, side):
        return self.name_of.get(side, "?" + str(side))


def to_world_action(world, bind, la):
    """lastAct record of the spec -> action dict(s) for MailboxWorld.apply.  Returns a list (an
    action may need a preparatory step, e.g. waiting for the retry timer)."""
    a, c, x, y = la["a"], la["c"], la["x"], la["y"]
    cl = world.clients.get(c)
    pre = []
    if a == "AppSetCode":
        return [{"a": "AppSetCode", "c": c, "code": bind.code(x, y)}]
    if a == "AppAllocate":
        return [{"a": "AppAllocate", "c": c}]
    if a == "AppInput":
        return [{"a": "AppInput", "c": c}]
    if a == "AppHelper":
        args = []
        if x == "choose_nameplate":
            args = [y]
        elif x == "choose_words":
            args = [bind.words.get(y, y)]
        elif x in ("get_nameplate_completions", "get_word_completions"):
            args = [""]
        return [{"a": "AppHelper", "c": c, "m": x, "args": args}]
    if a == "AppSend":
        k = len(cl.sent)
        return [{"a": "AppSend", "c": c, "data": ("m:%s:%d" % (c, k)).encode().hex()}]
    if a == "AppClose":
        return [{"a": "AppClose", "c": c}]
    if a == "ArmClose":
        return [{"a": "ArmClose", "c": c, "kind": x}]
    if a == "ConnOpen":
        if world._attempt_of(cl) is None:
            pre.append({"a": "Retry", "c": c})
        return pre + [{"a": "ConnOpen", "c": c, "welcome_error": x == "error"}]
    if a == "ConnFail":
        return [{"a": "ConnFail", "c": c}]
    if a == "ConnAbort":
        if world._attempt_of(cl) is None:
            pre.append({"a": "Retry", "c": c})
        return pre + [{"a": "ConnAbort", "c": c}]
    conn = world.live_conn(cl) if cl is not None else None
    k = conn.id if conn is not None else 0
    if a in ("Serve", "Deliver", "LateDeliver", "Drop", "CloseDone"):
        return [{"a": a, "k": k}]
    if a == "SrvCloseBegin":
        return [{"a": "SrvCloseBegin", "k": k}]
    if a == "Dup":
        return [{"a": "Dup", "k": k, "m": int(x) - 1}]
    if a == "SrvError":
        return [{"a": "SrvSend", "k": k, "msg": {"type": "error", "error": "unprovoked", "orig": {}}}]
    if a == "Swap":
        return [{"a": "SwapS2C", "k": k, "i": int(x) - 1}]
    if a == "Tamper":
        op, _, v = y.partition(":")
        return [{"a": "TamperS2C", "k": k, "i": int(x) - 1, "op": op,
                 "v": bind.side_of.get(v, v) if op == "side" else v}]
    if a == "Inject":
        side, _, phase = x.partition("/")
        kk, key, bside, bphase, pt = y.split("/", 4)
        return [{"a": "Inject", "mailbox": c, "side": bind.side_of.get(side, side), "phase": phase,
                 "sym": {"k": kk, "key": key, "side": bside, "phase": bphase, "pt": pt}}]
    raise ValueError("unknown spec action %r" % (la,))


# ---------------------------------------------------------------------------------- projections
def _frames_spec(q):
    return [[f["t"], f["y"] if f["t"] == "message" else (f["x"] if f["t"] in ("add",) else "")] for f in q]


def _conn_view(conn, up):
    """Wormhole.tla StatusView: while the connection is down, "connected" (stale) and "connecting" (the retry timer has fired)
    are not told apart - the model does not time ClientService's retries"""
    return "down" if (not up and conn in ("connected", "connecting")) else conn


def project_spec(st, bind=None):
    out = {}
    for c, cl in st["cs"].items():
        ev = []
        for e in cl["events"]:
            if e["k"] in ("message", "code", "closed"):
                ev.append([e["k"], "Internal" if e["v"].startswith("Internal") else e["v"]])
            else:
                ev.append([e["k"], ""])
        n = st["net"][c]
        out[c] = {
            "st": dict(cl["st"]),
            "pend": [p[0] for p in cl["pend"]],
            "processed": sorted(cl["processed"]),
            "nextTx": cl["nextTx"], "nextRx": cl["nextRx"],
            "sendq": [p[0] for p in cl["sendq"]], "orderq": [p[1] for p in cl["orderq"]],
            "events": ev,
            "errs": len(cl["errs"]) > 0,
            "status": [_conn_view(cl["status"]["conn"], n["up"]), cl["status"]["key"], cl["status"]["code"]],
            "up": n["up"], "closing": n["closing"],
            "c2s": [[f["t"], f["x"] if f["t"] == "add" else ""] for f in n["c2s"]],
            "s2c": [[f["t"], f["y"] if f["t"] == "message" else ""] for f in n["s2c"]],
        }
    srv = st["srv"]
    out["_srv"] = {
        "claims": {n: sorted(s for s, v in np["sides"].items() if v == "claimed")
                   for n, np in srv["np"].items() if np["mb"] != "-"},
        "mboxes": {m: {"open": sorted(s for s, v in mb["sides"].items() if v == "open"),
                       "msgs": [[x["side"], x["phase"]] for x in mb["msgs"]]}
                   for m, mb in srv["mb"].items() if mb["exists"]},
    }
    return out


DOC_ERRS = {"KeyFormatError", "OnlyOneCodeError", "MustChooseNameplateFirstError", "AlreadyChoseNameplateError",
            "AlreadyChoseWordsError", "NoKeyError", "AlreadyInputNameplateError", "WormholeClosed"}


def _verdict_name(v):
    if isinstance(v, str):
        return v
    n = type(v).__name__
    if n in ("LonelyError", "WrongPasswordError", "ServerError", "WelcomeError", "ServerConnectionError"):
        return n
    return "Internal:" + n


def project_real(world, bind):
    out = {}
    for c, cl in world.clients.items():
        b = cl.boss
        ev = []
        for k, v in cl.events:
            if k.endswith("!"):
                continue
            if k == "closed" and cl.mode == "deferred":
                continue
            if k == "message":
                # the schedule's name of the message (m:<sender>:<k>) if some wormhole of this world sent exactly these bytes
                label = None
                for other in world.clients.values():
                    if other is not cl and v in other.sent:
                        label = "m:%s:%d" % (other.name, other.sent.index(v))
                ev.append([k, label if label is not None else v.decode("utf-8", "replace")])
            elif k == "code":
                ev.append([k, bind.code_class(v)])
            elif k == "closed":
                vn = _verdict_name(v)
                ev.append([k, "Internal" if vn.startswith("Internal") else vn])
            else:
                ev.append([k, ""])
        conn = world.live_conn(cl)
        out[c] = {
            "st": cl.states(),
            # (private attributes: a refactored tree may create them later or elsewhere - that is a difference to report, not a crash)
            "pend": list(getattr(b._M, "_pending_outbound", {}).keys()),
            "processed": sorted(getattr(b._M, "_processed", ())),
            "nextTx": getattr(b, "_next_tx_phase", -1), "nextRx": getattr(b, "_next_rx_phase", -1),
            "sendq": [p for p, _ in getattr(b._S, "_queue", ())], "orderq": [p for _, p, _ in getattr(b._O, "_queue", ())],
            "events": ev,
            "errs": any(n == c for n, _, _ in world.internal) or any(
                type(e).__name__ not in DOC_ERRS for _, e in cl.api_errors),
            "status": [_conn_view(cl.status()[0], conn is not None)] + cl.status()[1:],
            "up": conn is not None, "closing": bool(conn and conn.closing),
            "c2s": [[f["type"], f.get("phase", "") if f["type"] == "add" else ""] for f in (conn.c2s if conn else [])
                    if f["type"] != "bind" or True],
            "s2c": [[f["type"], f.get("phase", "") if f["type"] == "message" else ""] for f in (conn.s2c if conn else [])],
        }
    claims, mboxes = {}, {}
    for appid, app in world.server.apps.items():
        for n, np in app["nameplates"].items():
            claims[n] = sorted(bind.side_name(s) for s, v in np["sides"].items() if v)
        for m, mb in app["mailboxes"].items():
            mboxes[m] = {"open": sorted(bind.side_name(s) for s, v in mb["sides"].items() if v["opened"]),
                         "msgs": [[bind.side_name(x["side"]), x["phase"]] for x in mb["messages"]]}
    out["_srv"] = {"claims": claims, "mboxes": mboxes}
    return out


def spec_view_for_mode(ps, world):
    """Deferred mode does not expose 'closed' as an ordered event (it is the result of close())."""
    for c, cl in world.clients.items():
        if cl.mode == "deferred":
            ps[c]["events"] = [e for e in ps[c]["events"] if e[0] != "closed"]
    return ps


def diff(a, b, path=""):
    """First few differences between two JSON-like structures."""
    out = []
    if isinstance(a, dict) and isinstance(b, dict):
        for k in sorted(set(a) | set(b)):
            if k not in a or k not in b:
                out.append("%s/%s: %r vs %r" % (path, k, a.get(k, "<absent>"), b.get(k, "<absent>")))
            else:
                out += diff(a[k], b[k], path + "/" + str(k))
    elif a != b:
        out.append("%s: spec=%r real=%r" % (path, a, b))
    return out[:8]
