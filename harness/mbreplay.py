"""Spec -> code: step behaviours produced by TLC through the real wormhole objects, comparing the
projected state after every environment action."""
import json

from .mbconf import Binding, to_world_action, project_spec, project_real, spec_view_for_mode, diff
from .mbworld import MailboxWorld


def replay_behaviour(states, modes, appids=None, monitors=(), dilation=False):
    """states: list of parsed spec states (the first is Init).  Returns dict(result)."""
    clients = tuple((c, modes[c]) for c in sorted(modes))
    world = MailboxWorld(seed=0, clients=clients, appids=appids)
    bind = Binding(world)
    schedule = []
    drift = None
    try:
        for i, st in enumerate(states[1:], start=1):
            la = st["lastAct"]
            acts = to_world_action(world, bind, la)
            for a in acts:
                schedule.append(a)
                world.apply(a)
                for mon in monitors:
                    mon.step(world, bind)
            if drift is None:
                ps = spec_view_for_mode(project_spec(st), world)
                pr = project_real(world, bind)
                d = diff(ps, pr)
                if d:
                    drift = {"step": i, "action": la, "diff": d}
        for mon in monitors:
            mon.finish(world, bind)
    finally:
        world.shutdown()
    return {"schedule": schedule, "drift": drift, "world": world, "bind": bind}
