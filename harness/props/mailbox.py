"""Checks for the mailbox-level properties C01 C02 C03 C08 C09 C14 C18.

Pipeline (DESIGN 2.5/2.6):
  1. tables of the thirteen machines are extracted from the tree -> Tables.tla
  2. TLC checks the property's invariants exhaustively on the property's configuration(s)
  3. spec -> code: behaviours produced by TLC (-simulate on the generation config, plus every
     counterexample) are stepped through real wormhole objects, comparing projected state
  4. code -> spec: random schedules executed directly on the real objects are recorded and validated
     by TLC against WormholeTrace.tla
  5. the TLA+ observer MailboxObs.tla evaluates the property operators on every real run
A VIOLATION is reported only for a real execution on which the observer finds the property false.
"""
import json
import os
import random
import time
import unicodedata

from .. import common, tlc
from ..common import Raw
from ..mbconf import Binding, to_world_action, project_spec, project_real, spec_view_for_mode, diff, WORDS
from ..mbobs import Tracker
from ..mbworld import MailboxWorld

OBS_NAMES = ["NoInternal", "DocVerdict", "OnceEach", "Causal", "VersionsFirst", "LateGets", "InOrderOnce",
             "VersionsHonest", "AllDelivered", "KeyEstablished", "ClosedOnce", "NothingAfter", "Verdict", "Freed",
             "CloseCompletes", "KeyAgree", "OnlyOneCode", "Backed", "StatusSane", "VerdictKnown"]
# predicates and model invariants that belong to no listed property: reported in the evidence, never a VIOLATION
SUPPLEMENTARY = ["StatusSane"]
SUPPLEMENTARY_INVARIANTS = ["StatusConsistent"]
SUPPLEMENTARY_PROPERTIES = ["StatusMonotone"]

# which observer predicates decide which property
DECIDES = {
    "C01": ["KeyAgree", "KeyEstablished"],
    "C02": ["InOrderOnce", "VersionsHonest", "Backed", "OnceEach"],
    "C03": ["InOrderOnce"],
    "C08": ["ClosedOnce", "NothingAfter", "Verdict", "VerdictKnown", "Freed", "CloseCompletes", "LateGets"],
    "C09": ["AllDelivered", "KeyEstablished", "OnceEach", "InOrderOnce", "CloseCompletes"],
    "C14": ["NoInternal", "DocVerdict"],
    "C18": ["OnceEach", "Causal", "VersionsFirst", "LateGets", "InOrderOnce"],
    "C19": ["OnlyOneCode", "NoInternal"],
}

MODEL_INVARIANTS = {
    "C01": ["KeyAgreement", "VerifiedImpliesSameCode", "MismatchSilent", "MismatchNotHappy"],
    "C02": ["NoForgery"],
    "C03": ["InOrderOnce"],
    "C08": ["ClosedOnce", "NothingAfter", "VerdictRight", "VerdictKnown", "ServerFreedAtClose"],
    "C09": ["InOrderOnce", "OnceEach"],
    "C14": ["NoInternalError", "DocumentedVerdict"],
    "C18": ["OnceEach", "CausalOrder", "VersionsFirst"],
    "C19": ["OnceEach", "NoInternalError"],
}

BASE = dict(Clients={"A", "B"}, Sides={"A", "B", "X"}, Nameplates={"4", "5"},
            Mode=Raw('[c \\in {"A","B"} |-> IF c = "A" THEN "deferred" ELSE "delegated"]'),
            AppId=Raw('[c \\in {"A","B"} |-> "app"]'),
            CodeChoices=Raw('[c \\in {"A","B"} |-> {<<"4", "w">>}]'),
            AllowAllocate=set(), AllowInput=set(), MaxSend=0, MaxDrops=0, MaxDup=0, MaxSwap=0, MaxInject=0,
            MaxTamper=0, MaxHelper=0, KnownErrs=set(), InjectSet=Raw("{}"), LateFrames=False, ReentKinds=set(), WelcomeErr=False, ConnFails=False, MaxSrvErr=0, MaxAborts=0, SrvCloses=False, MaxCloseAt=0)


DELEG = Raw('[c \\in {"A","B"} |-> "delegated"]')


def F(a, b):
    return Raw('[c \\in {"A","B"} |-> IF c = "A" THEN %d ELSE %d]' % (a, b))


BASE.update(MaxSend=F(0, 0), MaxDrops=F(0, 0), AllowClose=set())


def cfgs_for(prop, tier):   # noqa: F811  (replaces the draft above)
    """name -> constants: the exhaustive TLC configurations for this property and tier."""
    q = tier == "quick"
    out = {}

    def mk(**kw):
        d = dict(BASE)
        d.update(kw)
        return d
    codesB = Raw('[c \\in {"A","B"} |-> IF c = "A" THEN {<<"4", "w">>} ELSE {<<"4", "w">>, <<"4", "v">>, <<"5", "w">>}]')
    inj = Raw('{[side |-> "X", phase |-> "pake", body |-> Pake("4-w/app", "X")], '
              '[side |-> "X", phase |-> "pake", body |-> PakeBad], '
              '[side |-> "X", phase |-> "version", body |-> Enc("Kx", "X", "version", "ver:X")], '
              '[side |-> "X", phase |-> "0", body |-> Junk("j")], '
              # a third participant may put anything at all under `pake` (before 5a1e124: an internal failure)
              '[side |-> "X", phase |-> "pake", body |-> Junk("p")], '
              '[side |-> "X", phase |-> "pake", body |-> Body("pakeinv", "-", "X", "-", "-")]}')
    if prop == "C03":
        out["swap"] = mk(MaxSend=F(2, 0), MaxSwap=1)
        out["srv_close_send"] = mk(MaxSend=F(2, 0), MaxDrops=F(1, 0), SrvCloses=True)
        out["dup"] = mk(MaxSend=F(1, 0), MaxDup=1)
        out["one_drop"] = mk(MaxSend=F(1, 0), MaxDrops=F(1, 0))
        if not q:
            out["dup_swap"] = mk(MaxSend=F(2, 0), MaxDup=1, MaxSwap=1)
            out["both_send_dup"] = mk(MaxSend=F(2, 1), MaxDup=2)
            out["two_drops"] = mk(MaxSend=F(1, 0), MaxDrops=F(1, 1))
    elif prop == "C09":
        out["drop_sender"] = mk(MaxSend=F(1, 0), MaxDrops=F(1, 0))
        out["drop_receiver"] = mk(MaxSend=F(1, 0), MaxDrops=F(0, 1))
        out["drop_abort"] = mk(MaxSend=F(1, 0), MaxDrops=F(1, 0), MaxAborts=1)
        out["drop_close"] = mk(AllowClose={"A"}, MaxDrops=F(1, 0))
        out["srv_close_send"] = mk(MaxSend=F(2, 0), MaxDrops=F(1, 0), SrvCloses=True)
        if not q:
            out["two_drops_one_side"] = mk(MaxSend=F(1, 0), MaxDrops=F(2, 0))
            out["drop_each"] = mk(MaxSend=F(1, 0), MaxDrops=F(1, 1))
    elif prop == "C18":
        out["sends"] = mk(MaxSend=F(1, 1), MaxSwap=1)
        out["close_both"] = mk(AllowClose={"A", "B"})
        if not q:
            out["close_send_drop"] = mk(MaxSend=F(1, 0), AllowClose={"A"}, MaxDrops=F(1, 0))
    elif prop == "C08":
        out["close_both"] = mk(AllowClose={"A", "B"})
        out["close_drop"] = mk(AllowClose={"A"}, MaxDrops=F(1, 0))
        out["srv_error"] = mk(AllowClose={"A"}, MaxSrvErr=1)
        out["drop_then_unwelcome"] = mk(MaxDrops=F(1, 0), WelcomeErr=True, MaxSend=F(1, 0))
        out["srv_error_send"] = mk(MaxSrvErr=1, MaxSend=F(1, 0))
        out["close_welcome_err"] = mk(AllowClose={"A"}, WelcomeErr=True, CodeChoices=Raw('[c \\in {"A","B"} |-> IF c = "A" THEN {<<"4","w">>} ELSE {}]'))
        if not q:
            out["close_drop_welcome"] = mk(AllowClose={"A"}, MaxDrops=F(1, 0), WelcomeErr=True)
            out["close_send_drop2"] = mk(AllowClose={"A"}, MaxDrops=F(2, 0), MaxSend=F(0, 1))
            out["close_mismatch"] = mk(AllowClose={"A", "B"}, CodeChoices=codesB)
            out["close_connfail"] = mk(AllowClose={"A", "B"}, ConnFails=True, MaxDrops=F(1, 0))
    elif prop == "C14":
        out["reent_close_alloc"] = mk(Mode=DELEG, AllowClose={"A"}, AllowAllocate={"A"}, LateFrames=True,
                                      ReentKinds={"welcome", "code", "key", "verifier", "versions", "message"})
        out["input_close"] = mk(AllowClose={"B"}, AllowInput={"B"}, MaxHelper=3)
        out["third_input"] = mk(AllowInput={"B"}, MaxHelper=2, MaxInject=2, InjectSet=inj,
                                CodeChoices=Raw('[c \\in {"A","B"} |-> IF c = "A" THEN {} ELSE {<<"4","w">>}]'))
        out["fail_then_code"] = mk(AllowClose={"A", "B"}, ConnFails=True, WelcomeErr=True, AllowAllocate={"A"})
        out["srv_error_close"] = mk(AllowClose={"A"}, MaxSrvErr=1)
        out["srv_close_send"] = mk(MaxSend=F(1, 0), MaxDrops=F(1, 0), SrvCloses=True, AllowClose={"A"})
        if not q:
            out["third_party"] = mk(AllowClose={"A"}, MaxInject=1, InjectSet=inj, MaxSend=F(1, 0))
            out["input_reent"] = mk(Mode=DELEG, AllowClose={"B"}, AllowInput={"B"}, MaxHelper=2, LateFrames=True,
                                    ReentKinds={"welcome", "code", "key", "verifier", "versions", "message"})
            out["errors"] = mk(AllowClose={"A", "B"}, WelcomeErr=True, ConnFails=True)
            out["drops_dups"] = mk(AllowClose={"A"}, MaxDrops=F(1, 1), MaxDup=1, MaxSend=F(1, 0))
    elif prop == "C19":
        bad = Raw('[c \\in {"A","B"} |-> IF c = "A" THEN {<<"4", "w">>, <<"x", "w">>, <<"4", "sp ace">>} ELSE {<<"4", "w">>}]')
        out["code_calls"] = mk(CodeChoices=bad, AllowAllocate={"A"}, AllowInput={"A"}, MaxHelper=2)
        if not q:
            out["input_orders"] = mk(CodeChoices=bad, AllowInput={"A", "B"}, MaxHelper=4)
    elif prop == "C01":
        out["codes"] = mk(CodeChoices=codesB, MaxSend=F(1, 1))
        out["appids"] = mk(AppId=Raw('[c \\in {"A","B"} |-> IF c = "A" THEN "app" ELSE "app2"]'), MaxSend=F(1, 0))
        out["codes_close"] = mk(CodeChoices=codesB, AllowClose={"A", "B"})
        if not q:
            out["codes_close_swap"] = mk(CodeChoices=codesB, MaxSend=F(1, 0), MaxSwap=1, AllowClose={"A"})
    elif prop == "C02":
        out["tamper1"] = mk(MaxSend=F(1, 0), MaxTamper=1)
        out["inject1"] = mk(MaxInject=1, InjectSet=inj)
        if not q:
            out["inject_send"] = mk(MaxSend=F(1, 0), MaxInject=1, InjectSet=inj)
            out["tamper2"] = mk(MaxSend=F(1, 1), MaxTamper=2)
            out["tamper_dup"] = mk(MaxSend=F(2, 0), MaxTamper=1, MaxDup=1)
    return out


def gen_cfg(prop):
    """Generation configuration: generous budgets; behaviours are sampled with -simulate."""
    d = dict(BASE)
    d.update(MaxSend=F(2, 2), MaxDrops=F(2, 2), AllowClose={"A", "B"}, MaxDup=1, MaxSwap=1, AllowAllocate={"A"},
             LateFrames=False, WelcomeErr=True, ConnFails=True, SrvCloses=True, MaxAborts=1, MaxSrvErr=0)
    if prop == "C01":
        d.update(CodeChoices=Raw('[c \\in {"A","B"} |-> IF c = "A" THEN {<<"4", "w">>} ELSE {<<"4", "w">>, <<"4", "v">>, <<"5", "w">>}]'))
    if prop == "C02":
        d.update(MaxTamper=2, AllowClose=set(), WelcomeErr=False, ConnFails=False)
    if prop in ("C03", "C09"):
        d.update(AllowClose=set(), WelcomeErr=False, ConnFails=False)
    if prop == "C19":
        d.update(CodeChoices=Raw('[c \\in {"A","B"} |-> {<<"4", "w">>, <<"x", "w">>, <<"4", "sp ace">>}]'),
                 AllowAllocate={"A", "B"}, AllowInput={"A", "B"}, MaxHelper=6, MaxDrops=F(1, 1), WelcomeErr=False, ConnFails=False)
    if prop == "C14":
        d.update(LateFrames=True, AllowInput={"B"}, MaxHelper=5, Mode=DELEG, ReentKinds={"welcome", "code", "key", "verifier", "versions", "message"})
    return d


# ------------------------------------------------------------------------------------------------ real runs
class RealRun:
    """One execution of real wormholes, recorded."""

    def __init__(self, tid, origin, modes=None, appids=None, order_preserving=True, dilation=False):
        modes = modes or {"A": "deferred", "B": "delegated"}
        self.tid, self.origin = tid, origin
        self.world = MailboxWorld(seed=tid, clients=tuple(sorted(modes.items())), appids=appids, dilation=dilation)
        for name, cl in self.world.clients.items():
            cl.app_versions = {}
        self.bind = Binding(self.world)
        self.tracker = Tracker(self.world, self.bind, order_preserving=order_preserving)
        self.schedule = []
        self.lines = []
        self.nontrivial = set()

    def apply(self, act, spec_act=None):
        if "chase" not in act and any(getattr(c, "chasing", False) and c.chain for c in self.world.clients.values()):
            # a chasing application: how many of its pending get_*() calls it issues right after this step (before the
            # eventual queue runs) is the schedule's choice
            if not hasattr(self, "chase_rng"):
                self.chase_rng = random.Random(self.tid * 7919 + 13)
            act = dict(act, chase=self.chase_rng.choice([0, 0, 1, 1, 2]))
        self.tracker.before(act)
        if act["a"] in ("Dup", "SwapS2C"):
            self.tracker._dupswap = True
        self.schedule.append(act)
        self.world.apply(act)
        self.tracker.after(act)
        for name, cl in self.world.clients.items():
            if getattr(cl, "closed_at", None) is None and any(k == "closed" for k, _ in cl.events):
                cl.closed_at = self.world.stepno
        if act["a"] in ("Drop", "Dup", "SwapS2C", "TamperS2C", "Inject", "AppClose", "ConnFail", "ConnAbort", "SrvCloseBegin", "LateDeliver", "AppAllocate", "SrvSend", "ArmRaise",
                        "AppInput", "ArmClose"):
            self.nontrivial.add(act["a"])
        if spec_act is not None:
            pr = project_real(self.world, self.bind)
            proj = {}
            for c in self.world.clients:
                p = pr[c]
                proj[c] = {"st": p["st"], "nextTx": p["nextTx"], "nextRx": p["nextRx"], "up": p["up"],
                           "closing": p["closing"], "ev": [e[0] for e in self._spec_events(c)], "errs": p["errs"],
                           "pend": p["pend"], "c2s": len(p["c2s"]), "s2c": len(p["s2c"]), "status": p["status"]}
            self.lines.append({"tid": self.tid, "i": len(self.lines) + 1, "a": spec_act, "proj": proj})

    def _spec_events(self, c):
        """events as compared with the spec: in Deferred mode 'closed' is the result of close(), not an
        ordered event, so it is left out on both sides (WormholeTrace.ProjEvents does the same)."""
        cl = self.world.clients[c]
        return [(k, v) for k, v in cl.events if not k.endswith("!") and not (cl.mode == "deferred" and k == "closed")]

    def probe_self_closed(self):
        """Deferred mode shows the verdict only through close(): after the run, ask each wormhole that
        was never close()d whether it has already closed by itself (the Deferred then fires at once)."""
        out = {}
        for name, cl in self.world.clients.items():
            out[name] = "-"
            if cl.mode != "deferred" or cl.close_called:
                continue
            res = []
            try:
                d = cl.w.close()
                d.addBoth(res.append)
            except Exception as e:
                res.append(e)
            self.world.settle()
            if res:
                from twisted.python.failure import Failure
                from ..mbconf import _verdict_name
                v = res[0].value if isinstance(res[0], Failure) else res[0]
                out[name] = _verdict_name(v)
        return out

    def finish(self, drained, goal=False):
        import gc
        gc.collect()        # "Unhandled error in Deferred" is logged when the Deferred is collected
        self.tracker.self_closed = self.probe_self_closed()
        rec = self.tracker.record(self.tid, drained=drained, goal=goal, extra={"origin": self.origin})
        self.world.shutdown()
        self.final_trace = self.world.trace
        self.world = self.tracker = self.bind = None      # let the wormholes be collected
        return rec

    def drain(self, limit=400):
        """Let everything in flight arrive (no faults), reconnecting clients that lost their connection."""
        w = self.world
        n = 0
        while n < limit:
            acts = w.enabled(faults=False)
            if not acts:
                # a WebSocket closing handshake the server began ends with the TCP connection going away: part of a fair
                # completion, not a new fault (the client then reconnects)
                half = [c for c in w.conns if c.state == "open" and getattr(c, "wsclosing", False)]
                if not half:
                    return True
                acts = [{"a": "Drop", "k": half[0].id}]
            a = acts[0]
            self.apply(a, spec_act=world_to_spec(self, a))
            n += 1
        return False


C01_CODES = [("4-alpha-beta", "4-alpha-beta"), ("4-alpha-beta", "4-alpha-betb"), ("4-alpha-beta", "4-Alpha-beta"),
             ("4-alpha-beta", "5-alpha-beta"), ("4-caf\u00e9-beta", "4-cafe\u0301-beta"), ("4-caf\u00e9-beta", "4-cafe-beta"),
             ("4-alpha-beta", "4-alpha-beta-"), ("4-", "4-"), ("4-alpha-beta", "4-alpha"),
             # compatibility-equivalent but NFC-distinct spellings are different codes
             ("4-\ufb01sh-cake", "4-fish-cake"), ("4-x\u00b2-y", "4-x2-y"), ("4-\uff41lpha-beta", "4-alpha-beta"),
             ("4-\u212bngstrom-a", "4-\u00c5ngstrom-a"),
             # the nameplate is a string: another spelling of the same number is another code (and another nameplate)
             ("4-alpha-beta", "04-alpha-beta"), ("4-alpha-beta", "004-alpha-beta"), ("04-alpha-beta", "04-alpha-beta"),
             ("4-alpha-beta", "\u0664-alpha-beta"), ("4-alpha-beta", "\uff14-alpha-beta"),
             # white space that is not a blank is part of the code like any other character (a code pasted with its line end)
             ("4-alpha-beta", "4-alpha-beta\n"), ("4-alpha-beta\t", "4-alpha-beta"), ("4-alpha-beta", "4-alpha-beta\r\n"),
             ("4-alpha-beta", "4-alpha-beta\u00a0"), ("4-alpha-beta\n", "4-alpha-beta\n"), ("4-alpha\u3000-beta", "4-alpha-beta")]
C01_PURPOSES = [("wormhole:test", 32), ("other", 32), ("wormhole:test", 16), ("\u00fcn\u00efcode", 64), ("", 1),
                ("\ufb01le", 32), ("file", 32),
                # purposes that are not in NFC form as passed (decomposed accent, ANGSTROM SIGN): both APIs must treat them alike
                ("cafe\u0301", 32), ("\u212bngstrom", 16), ("\u1e9b\u0323", 57)]


def version_before_pake(run, victims=("A",)):
    """Run everything, but hold the peer's frames on their way to each of `victims` until the peer's PAKE and version
    are both queued, then hand them over version first (the Order machine has to park it).  The mailbox is an
    unordered set: a conformant server may do this."""
    w = run.world
    side_of = {c.name: c.side for c in w.clients.values()}
    peer_side = {v: [s_ for n, s_ in side_of.items() if n != v][0] for v in victims}

    def held(conn, fr):
        v = conn.client.name
        return v in victims and fr["type"] == "message" and fr["side"] == peer_side[v]
    for _ in range(400):
        moved = False
        for a in w.enabled(faults=False):
            if a["a"] == "Deliver":
                conn = w.conn(a["k"])
                if held(conn, conn.s2c[0]):
                    other = [i for i, f in enumerate(conn.s2c) if not held(conn, f)]
                    if other:
                        for j in range(other[0], 0, -1):
                            if conn.s2c[j]["type"] == "message":
                                run.apply({"a": "SwapS2C", "k": conn.id, "i": j - 1})
                            else:
                                run.apply({"a": "HoistS2C", "k": conn.id, "i": j})
                                break
                        run.apply(a)
                        moved = True
                        break
                    continue
            if a["a"] in ("Serve", "Deliver", "CloseDone"):
                run.apply(a)
                moved = True
                break
        if not moved:
            break
    ok = True
    for v in victims:
        conns = [c for c in w.conns if c.client.name == v and c.state == "open" and not c.closing]
        if not conns:
            ok = False
            continue
        conn = conns[-1]
        idx = [i for i, fr in enumerate(conn.s2c) if held(conn, fr)]
        phases = [conn.s2c[i]["phase"] for i in idx]
        if "pake" not in phases or len(idx) < 2:
            ok = False
            continue
        k = phases.index("pake")
        ok = _permute_s2c(run, conn, peer_side[v], [j for j in range(len(idx)) if j != k] + [k], skip_pake=False) and ok
    return ok


def c01_case(tid, codes, appids, order, rng):
    """two wormholes with the given codes / appids; `order` decides who moves first and whether B's code is
    entered only after A's PAKE message has arrived (the Key.S00 -> S01 stash path)"""
    run = RealRun(tid, "c01-family", appids=appids)
    w = run.world
    a_code, b_code = codes
    first, second = ("A", "B") if order != "b-first" else ("B", "A")
    cmap = {"A": a_code, "B": b_code}
    run.apply({"a": "ConnOpen", "c": "A"})
    run.apply({"a": "ConnOpen", "c": "B"})
    if order == "stash":
        # B types the nameplate first (input flow), A's PAKE arrives, then B finishes the words
        run.apply({"a": "AppSetCode", "c": "A", "code": a_code})
        run.apply({"a": "AppInput", "c": "B"})
        np, _, words = b_code.partition("-")
        run.apply({"a": "AppHelper", "c": "B", "m": "choose_nameplate", "args": [np]})
        run.drain()
        run.apply({"a": "AppHelper", "c": "B", "m": "choose_words", "args": [words]})
    else:
        run.apply({"a": "AppSetCode", "c": first, "code": cmap[first]})
        if order == "late":
            run.drain()
        run.apply({"a": "AppSetCode", "c": second, "code": cmap[second]})
    for c in ("A", "B"):
        run.apply({"a": "AppSend", "c": c, "data": ("m:%s:0" % c).encode().hex()})
    if order == "version-first":
        version_before_pake(run, ("A",))
    elif order == "abandoned-parked":
        # the session is abandoned with the peer's version parked in A's Order machine (its PAKE never delivered): whatever
        # later wormholes in this process do must not be affected by what this one left behind
        version_before_pake(run, ("A",))
        conn = [c for c in w.conns if c.client.name == "A" and c.state == "open"][-1]
        bside = w.clients["B"].side
        while conn.s2c and not (conn.s2c[0]["type"] == "message" and conn.s2c[0]["side"] == bside and conn.s2c[0]["phase"] == "pake"):
            run.apply({"a": "Deliver", "k": conn.id})
        return run, False, False
    drained = run.drain()
    # derive_key is a function of (purpose, length): the two sides ask in different orders, and each asks twice, so that
    # nothing a wormhole remembers from an earlier call (another length of the same purpose, another purpose) may leak into a later one
    for c in ("A", "B"):
        plist = list(C01_PURPOSES) if c == "A" else list(reversed(C01_PURPOSES))
        for purpose, n in plist + list(reversed(plist)):
            run.apply({"a": "AppDerive", "c": c, "purpose": purpose, "n": n})
    match = unicodedata.normalize("NFC", a_code) == unicodedata.normalize("NFC", b_code) and appids["A"] == appids["B"]
    goal = drained and match
    return run, goal, drained


def _permute_s2c(run, conn, side, perm, skip_pake=True):
    """Reorder the in-flight message frames from `side` on conn to the order `perm` by adjacent server swaps
    (frames of other origin keep their positions)."""
    q = list(conn.s2c)
    idx = [i for i, fr in enumerate(q) if fr["type"] == "message" and fr["side"] == side and not (skip_pake and fr["phase"] == "pake")]
    if not idx or len(idx) != len(perm):
        return False
    lo, hi = idx[0], idx[-1]
    if any(fr["type"] != "message" for fr in q[lo:hi + 1]):
        return False
    target = list(range(lo, hi + 1))             # target[j] = current index of the frame that must end at lo + j
    for j, want in enumerate(perm):
        target[idx[j] - lo] = idx[want]
    cur = list(range(lo, hi + 1))
    for pos, want in enumerate(target):
        at = cur.index(want)
        while at > pos:
            run.apply({"a": "SwapS2C", "k": conn.id, "i": lo + at - 1})
            cur[at - 1], cur[at] = cur[at], cur[at - 1]
            at -= 1
    return True


def c03_case(tid, n, perm, reconnect, rng, lazy=False):
    """B queues n application messages; the server holds back B's version and application frames on their way to A
    and then hands them over in the order `perm` (a permutation of those n+1 frames); optionally A's connection is
    dropped part way and the server replays the whole mailbox - PAKE included - in another order."""
    run = RealRun(tid, "c03-family", modes={"A": "deferred-lazy", "B": "delegated"} if lazy else None)
    w = run.world
    run.apply({"a": "ConnOpen", "c": "B"})
    run.apply({"a": "AppSetCode", "c": "B", "code": "4-alpha-beta"})
    for i in range(n):
        run.apply({"a": "AppSend", "c": "B", "data": ("m:B:%d" % i).encode().hex()})
    run.drain()
    if any(a["a"] == "ConnOpen" and a["c"] == "A" for a in w.enabled(faults=False)):
        run.apply({"a": "ConnOpen", "c": "A"})
    run.apply({"a": "AppSetCode", "c": "A", "code": "4-alpha-beta"})
    bside = w.clients["B"].side

    def hold_and_permute(p, replay=False):
        for _ in range(300):
            moved = False
            for a in w.enabled(faults=False):
                if a["a"] == "Deliver":
                    conn = w.conn(a["k"])
                    fr = conn.s2c[0]
                    if conn.client.name == "A" and fr["type"] == "message" and fr["side"] == bside and (replay or fr["phase"] != "pake"):
                        ctl = [i for i, f in enumerate(conn.s2c) if f["type"] != "message"]
                        if ctl:
                            run.apply({"a": "HoistS2C", "k": conn.id, "i": ctl[0]})
                            run.apply(a)
                            moved = True
                            break
                        continue
                if a["a"] in ("Serve", "Deliver", "CloseDone"):
                    run.apply(a)
                    moved = True
                    break
            if not moved:
                break
        conns = [c for c in w.conns if c.client.name == "A" and c.state == "open" and not c.closing]
        return bool(conns) and _permute_s2c(run, conns[-1], bside, p, skip_pake=not replay), (conns[-1] if conns else None)

    ok, conn = hold_and_permute(perm)
    if reconnect is not None and conn is not None:
        for _ in range(reconnect):
            if conn.s2c:
                run.apply({"a": "Deliver", "k": conn.id})
        run.apply({"a": "Drop", "k": conn.id})
        for _ in range(6):
            acts = [a for a in w.enabled(faults=False) if a["a"] in ("Retry", "ConnOpen") and a.get("c") == "A"]
            if not acts:
                break
            run.apply(acts[0])
        p2 = list(range(n + 2))
        rng.shuffle(p2)
        ok2, _ = hold_and_permute(p2, replay=True)
        ok = ok and ok2
    drained = run.drain()
    if lazy:
        # the application asks only now, with everything waiting in the observer's buffer: one get too many stays pending
        # (one at a time, all in one reactor turn, or two per turn: several requests may be outstanding before the first is served)
        burst = [1, n, 2][tid % 3]
        k = 0
        while k < n:
            b = min(burst, n - k)
            run.apply({"a": "AppGet", "c": "A", "kind": "message"} if b == 1 else {"a": "AppGetBurst", "c": "A", "kind": "message", "n": b})
            k += b
        drained = run.drain() and drained
    return run, bool(drained), drained, ok


def dilating_case(tid, n, perm, who, hold_version=True):
    """Application messages next to Dilation's own mailbox traffic: both wormholes are created with dilation enabled, the sides
    in `who` call dilate() (so `dilate-N` phases - please, connection hints - travel through the same mailbox), B sends n
    application messages, and the server hands B's version, dilation and application frames to A in the order `perm`.  What A's
    application receives must still be exactly B's messages, in order, once each - and nothing else."""
    from ..mbworld import pinned_urandom
    run = RealRun(tid, "dilating-family", modes={"A": "deferred", "B": "deferred"}, dilation=True)
    w = run.world
    run.apply({"a": "ConnOpen", "c": "B"})
    run.apply({"a": "AppSetCode", "c": "B", "code": "4-alpha-beta"})
    for c in ("B", "A"):
        if c in who:
            with pinned_urandom(b"\x5a" if c == "B" else b"\x33"):
                try:
                    w.clients[c].dilated = w.clients[c].w.dilate()
                except Exception as e:
                    w.clients[c].api_errors.append(("dilate", e))
    for i in range(n):
        run.apply({"a": "AppSend", "c": "B", "data": ("m:B:%d" % i).encode().hex()})
    run.drain()
    if any(a["a"] == "ConnOpen" and a["c"] == "A" for a in w.enabled(faults=False)):
        run.apply({"a": "ConnOpen", "c": "A"})
    run.apply({"a": "AppSetCode", "c": "A", "code": "4-alpha-beta"})
    bside = w.clients["B"].side

    def is_held(fr):
        return fr["phase"] != "pake" and (hold_version or fr["phase"] != "version")
    for _ in range(300):
        moved = False
        for a in w.enabled(faults=False):
            if a["a"] == "Deliver":
                conn = w.conn(a["k"])
                fr = conn.s2c[0]
                # (hold_version=False: B's version message gets through, so A sends its own please, B answers with its
                # connection hints, and several of B's dilate-N messages wait together with its application messages)
                if conn.client.name == "A" and fr["type"] == "message" and fr["side"] == bside and is_held(fr):
                    free = [i for i, f in enumerate(conn.s2c) if not (f["type"] == "message" and f["side"] == bside and is_held(f))]
                    if free:
                        run.apply({"a": "MoveS2C", "k": conn.id, "i": free[0], "to": 0})
                        run.apply(a)
                        moved = True
                        break
                    continue
            if a["a"] in ("Serve", "Deliver", "CloseDone"):
                run.apply(a)
                moved = True
                break
        if not moved:
            break
    conns = [c for c in w.conns if c.client.name == "A" and c.state == "open" and not c.closing]
    ok = False
    if conns:
        held = [f for f in conns[-1].s2c if f["type"] == "message" and f["side"] == bside and is_held(f)]
        # (perm: an index into the permutations of however many frames are waiting - version, dilate-0, dilate-1, 0, 1, ...)
        import itertools
        import math
        k = perm % math.factorial(len(held)) if held else 0
        p = list(next(itertools.islice(itertools.permutations(range(len(held))), k, None)))
        run.held_phases = [held[i]["phase"] for i in p]
        ok = _permute_s2c(run, conns[-1], bside, p)
    drained = run.drain()
    return run, bool(drained), drained, ok


def burst_case(tid, mode, n, how):
    """The peer's frames reach A several at a time (one read of the socket carries them all: no reactor turn in between):
    how = "first": pake, version and n messages in one burst on the first connection; "replay": A had everything, loses its
    connection, and the server replays the whole mailbox in one burst; "pairs": two frames per read.  The order of A's events
    (code, key, verifier, versions, messages in order) is what it is frame by frame."""
    run = RealRun(tid, "burst-family", modes={"A": mode, "B": "delegated" if mode != "delegated" else "deferred"})
    w = run.world
    run.apply({"a": "ConnOpen", "c": "B"})
    run.apply({"a": "AppSetCode", "c": "B", "code": "4-alpha-beta"})
    for i in range(n):
        run.apply({"a": "AppSend", "c": "B", "data": ("m:B:%d" % i).encode().hex()})
    run.drain()
    if any(a["a"] == "ConnOpen" and a["c"] == "A" for a in w.enabled(faults=False)):
        run.apply({"a": "ConnOpen", "c": "A"})
    run.apply({"a": "AppSetCode", "c": "A", "code": "4-alpha-beta"})
    bside = w.clients["B"].side

    def others_first():
        """everything except B's message frames towards A"""
        for _ in range(400):
            moved = False
            for a in w.enabled(faults=False):
                if a["a"] == "Deliver":
                    conn = w.conn(a["k"])
                    fr = conn.s2c[0]
                    if conn.client.name == "A" and fr["type"] == "message" and fr["side"] == bside:
                        free = [i for i, f in enumerate(conn.s2c) if not (f["type"] == "message" and f["side"] == bside)]
                        if free:
                            run.apply({"a": "MoveS2C", "k": conn.id, "i": free[0], "to": 0})
                            run.apply(a)
                            moved = True
                            break
                        continue
                if a["a"] in ("Serve", "Deliver", "CloseDone"):
                    run.apply(a)
                    moved = True
                    break
            if not moved:
                return

    def burst(size):
        conns = [c for c in w.conns if c.client.name == "A" and c.state == "open" and not c.closing]
        while conns and conns[-1].s2c:
            run.apply({"a": "DeliverBurst", "k": conns[-1].id, "n": size})
            others_first()
    others_first()
    if how == "replay":
        run.drain()
        conn = [c for c in w.conns if c.client.name == "A" and c.state == "open"][-1]
        run.apply({"a": "Drop", "k": conn.id})
        for _ in range(6):
            acts = [a for a in w.enabled(faults=False) if a["a"] in ("Retry", "ConnOpen") and a.get("c") == "A"]
            if not acts:
                break
            run.apply(acts[0])
        others_first()
    burst(2 if how == "pairs" else 99)
    drained = run.drain()
    return run, bool(drained), drained


def input_callback_case(tid, mode, words_when, peer_first):
    """Interactive code entry by an application that uses the helper from inside its when_wordlist_is_available() callback
    (completions the moment the word list is there), in both API flavours; the words are chosen before or after the claim is
    answered; the peer's code is set before or after.  Every legal helper call behaves as it does anywhere else."""
    run = RealRun(tid, "input-callback-family", modes={"A": "deferred", "B": mode})
    w = run.world
    w.wordlist_callback = True
    for c in ("A", "B"):
        run.apply({"a": "ConnOpen", "c": c})
    if peer_first:
        run.apply({"a": "AppSetCode", "c": "A", "code": "4-alpha-beta"})
        run.drain()
    run.apply({"a": "AppInput", "c": "B"})
    run.apply({"a": "AppHelper", "c": "B", "m": "refresh_nameplates", "args": []})
    run.apply({"a": "AppHelper", "c": "B", "m": "choose_nameplate", "args": ["4"]})
    if words_when == "after-claim":
        run.drain()
    run.apply({"a": "AppHelper", "c": "B", "m": "get_word_completions", "args": ["al"]})
    run.apply({"a": "AppHelper", "c": "B", "m": "choose_words", "args": ["alpha-beta"]})
    if not peer_first:
        run.apply({"a": "AppSetCode", "c": "A", "code": "4-alpha-beta"})
    for c in ("A", "B"):
        run.apply({"a": "AppSend", "c": c, "data": ("m:%s:0" % c).encode().hex()})
    drained = run.drain()
    return run, bool(drained), drained


def dilate_close_case(tid, peer, when, who_closes):
    """close() on a wormhole whose application called dilate(): the peer dilates too, only has Dilation enabled, or is an
    old client without it (`peer`); dilate() is called before or after the peer's versions arrive (`when`); then the sides in
    `who_closes` close.  Closing completes once, with the right verdict, and frees the server's resources - whatever the
    Dilation layer is doing."""
    from ..mbworld import pinned_urandom
    run = RealRun(tid, "dilate-close-family", modes={"A": "deferred", "B": "deferred"},
                  dilation={"A": True, "B": peer != "old"})
    w = run.world

    def dilate(c, salt):
        with pinned_urandom(salt):
            try:
                w.clients[c].dilated = w.clients[c].w.dilate()
            except Exception as e:
                w.clients[c].api_errors.append(("dilate", e))
    for c in ("A", "B"):
        run.apply({"a": "ConnOpen", "c": c})
    if when == "early":
        dilate("A", b"\x33")
    for c in ("A", "B"):
        run.apply({"a": "AppSetCode", "c": c, "code": "4-alpha-beta"})
    if peer == "dilates":
        dilate("B", b"\x5a")
    run.apply({"a": "AppSend", "c": "B", "data": b"m:B:0".hex()})
    if when == "mid":
        # A's key is there, B's versions are not
        for _ in range(200):
            acts = [a for a in w.enabled(faults=False) if a["a"] in ("Serve", "Deliver")]
            cl = w.clients["A"]
            if not acts or any(k == "key" for k, _ in cl.events):
                break
            run.apply(acts[0])
        dilate("A", b"\x33")
    run.drain()
    if when == "late":
        dilate("A", b"\x33")
        run.drain()
    for c in who_closes:
        run.apply({"a": "AppClose", "c": c})
    drained = run.drain()
    return run, False, drained


def c02_prepake_case(tid, n, relabel, newside, tamper_pake_too):
    """The server holds back B's PAKE frame on its way to A, delivers B's version and application frames first
    (where the Order machine queues them) with the `side` of the frames in `relabel` rewritten, then the PAKE."""
    run = RealRun(tid, "c02-prepake")
    w = run.world
    for c in ("B", "A"):
        if any(a["a"] == "ConnOpen" and a["c"] == c for a in w.enabled(faults=False)):
            run.apply({"a": "ConnOpen", "c": c})
        run.apply({"a": "AppSetCode", "c": c, "code": "4-alpha-beta"})
    for i in range(n):
        run.apply({"a": "AppSend", "c": "B", "data": ("m:B:%d" % i).encode().hex()})
    bside, aside = w.clients["B"].side, w.clients["A"].side
    # B's application messages leave only after B has verified A's version, which A sends only after B's PAKE: so
    # A gets the PAKE once on a first connection; that connection is then dropped and the whole mailbox replayed
    # - but a replayed PAKE is a duplicate that Mailbox drops.  The pre-PAKE window is therefore only reachable
    # for the version frame and for whatever the server invents: hold everything from B, PAKE included.
    for _ in range(300):
        moved = False
        for a in w.enabled(faults=False):
            if a["a"] == "Deliver":
                conn = w.conn(a["k"])
                fr = conn.s2c[0]
                if conn.client.name == "A" and fr["type"] == "message" and fr["side"] == bside:
                    ctl = [i for i, f in enumerate(conn.s2c) if f["type"] != "message" or f["side"] != bside]
                    if ctl:
                        # frames of other origin overtake the held ones
                        for j in range(ctl[0], 0, -1):
                            if conn.s2c[j]["type"] == "message":
                                run.apply({"a": "SwapS2C", "k": conn.id, "i": j - 1})
                            else:
                                run.apply({"a": "HoistS2C", "k": conn.id, "i": j})
                                break
                        run.apply(a)
                        moved = True
                        break
                    continue
            if a["a"] in ("Serve", "Deliver", "CloseDone"):
                run.apply(a)
                moved = True
                break
        if not moved:
            break
    conns = [c for c in w.conns if c.client.name == "A" and c.state == "open" and not c.closing]
    if not conns:
        return run, False, run.drain(), False
    conn = conns[-1]
    idx = [i for i, fr in enumerate(conn.s2c) if fr["type"] == "message" and fr["side"] == bside]
    phases = [conn.s2c[i]["phase"] for i in idx]
    ok = "pake" in phases and len(idx) >= 2
    if ok:
        k = phases.index("pake")
        perm = [j for j in range(len(idx)) if j != k] + [k]
        ok = _permute_s2c(run, conn, bside, perm, skip_pake=False)
        idx = [i for i, fr in enumerate(conn.s2c) if fr["type"] == "message" and fr["side"] == bside]
        v = {"own": aside, "x": "f0f0f0f0f0", "x2": "0a0a0a0a0a"}[newside]
        for j in relabel:
            if j < len(idx) - 1:
                run.apply({"a": "TamperS2C", "k": conn.id, "i": idx[j], "op": "side", "v": v})
        if tamper_pake_too:
            run.apply({"a": "TamperS2C", "k": conn.id, "i": idx[-1], "op": "side", "v": v})
    drained = run.drain()
    return run, False, drained, ok


def c09_unechoed_case(tid, k, j, side="A"):
    """`side` queues k messages before the key is verified; the server is slow to read that side's frames, so its
    version and the k messages are all written before any is stored; the server then reads j of them and the
    connection is lost; after the reconnect everything un-echoed is submitted again.  The peer (behind an
    order-preserving server) must still see versions first and the messages in order, each once."""
    other = "B" if side == "A" else "A"
    run = RealRun(tid, "c09-unechoed")
    w = run.world
    for c in ("A", "B"):
        run.apply({"a": "ConnOpen", "c": c})
        run.apply({"a": "AppSetCode", "c": c, "code": "4-alpha-beta"})
    for i in range(k):
        run.apply({"a": "AppSend", "c": side, "data": ("m:%s:%d" % (side, i)).encode().hex()})

    def held(conn):
        fr = conn.c2s[0]
        return conn.client.name == side and fr.get("type") == "add" and fr.get("phase") != "pake"
    for _ in range(400):
        moved = False
        for a in w.enabled(faults=False):
            if a["a"] == "Serve" and held(w.conn(a["k"])):
                continue
            if a["a"] in ("Serve", "Deliver", "CloseDone"):
                run.apply(a)
                moved = True
                break
        if not moved:
            break
    conns = [c for c in w.conns if c.client.name == side and c.state == "open" and not c.closing]
    ok = bool(conns) and len([f for f in conns[-1].c2s if f.get("type") == "add"]) >= min(k, 1) + 1
    if conns:
        conn = conns[-1]
        for _ in range(j):
            if conn.c2s:
                run.apply({"a": "Serve", "k": conn.id})
        run.apply({"a": "Drop", "k": conn.id})
    drained = run.drain()
    return run, bool(drained), drained, ok


def long_outage_case(tid, k, who="A", both=False):
    """Both sides verified and talking; `who` loses its connection and the server stays unreachable for k connection
    attempts in a row (each refused) - minutes, with ClientService's back-off - while both applications keep sending;
    then the server is back.  Nothing may be lost or repeated, however long the outage was: the k-th failed attempt is
    followed by a (k+1)-th."""
    other = "B" if who == "A" else "A"
    run = RealRun(tid, "long-outage")
    w = run.world
    for c in ("A", "B"):
        run.apply({"a": "ConnOpen", "c": c})
        run.apply({"a": "AppSetCode", "c": c, "code": "4-alpha-beta"})
    run.apply({"a": "AppSend", "c": who, "data": ("m:%s:0" % who).encode().hex()})
    run.drain()
    victims = [who, other] if both else [who]
    ok = True
    for vname in victims:
        conn = w.live_conn(w.clients[vname])
        ok = ok and conn is not None
        if conn is not None:
            run.apply({"a": "Drop", "k": conn.id})
    run.apply({"a": "AppSend", "c": who, "data": ("m:%s:1" % who).encode().hex()})
    run.apply({"a": "AppSend", "c": other, "data": ("m:%s:0" % other).encode().hex()})
    failed = 0
    for i in range(k):
        for vname in victims:
            acts = {a["a"] for a in w.enabled() if a.get("c") == vname}
            if "Retry" in acts:
                run.apply({"a": "Retry", "c": vname})
                acts = {a["a"] for a in w.enabled() if a.get("c") == vname}
            if "ConnFail" in acts:
                run.apply({"a": "ConnFail", "c": vname})
                failed += 1
    run.apply({"a": "AppSend", "c": who, "data": ("m:%s:2" % who).encode().hex()})
    drained = run.drain()
    run.apply({"a": "AppSend", "c": other, "data": ("m:%s:1" % other).encode().hex()})
    drained = run.drain() and drained
    return run, True, drained, ok and failed >= k


def srvclose_case(tid, during, after, who="A"):
    """Both sides verified; the server closes `who`'s connection gracefully (WebSocket closing handshake); the
    application sends `during` messages while the websocket is CLOSING and `after` more once TCP is gone; then the
    client reconnects.  Every send_message() must be accepted and everything must arrive, in order."""
    run = RealRun(tid, "srvclose")
    w = run.world
    for c in ("A", "B"):
        run.apply({"a": "ConnOpen", "c": c})
        run.apply({"a": "AppSetCode", "c": c, "code": "4-alpha-beta"})
    run.apply({"a": "AppSend", "c": who, "data": ("m:%s:0" % who).encode().hex()})
    run.drain()
    conn = w.live_conn(w.clients[who])
    n = 1
    ok = conn is not None and not conn.s2c
    if ok:
        run.apply({"a": "SrvCloseBegin", "k": conn.id})
        for _ in range(during):
            run.apply({"a": "AppSend", "c": who, "data": ("m:%s:%d" % (who, n)).encode().hex()})
            n += 1
        run.apply({"a": "Drop", "k": conn.id})
        for _ in range(after):
            run.apply({"a": "AppSend", "c": who, "data": ("m:%s:%d" % (who, n)).encode().hex()})
            n += 1
    drained = run.drain()
    for _ in range(2):
        run.apply({"a": "AppSend", "c": who, "data": ("m:%s:%d" % (who, n)).encode().hex()})
        n += 1
    drained = run.drain() and drained
    return run, bool(drained), drained, ok


def c18_raise_case(tid, kind, nmsgs, then_close):
    """The delegate of B raises from inside its `kind` callback (an application bug).  Whatever the library makes of
    that, the notifications it delivers must still come at most once each, in causal order, with closed last - also
    when more peer messages arrive afterwards and when the application then calls close()."""
    run = RealRun(tid, "c18-raise")
    w = run.world
    for c in ("A", "B"):
        run.apply({"a": "ConnOpen", "c": c})
    run.apply({"a": "ArmRaise", "c": "B", "kind": kind})
    for c in ("A", "B"):
        run.apply({"a": "AppSetCode", "c": c, "code": "4-alpha-beta"})
    run.apply({"a": "AppSend", "c": "A", "data": b"m:A:0".hex()})
    run.drain()
    for i in range(1, nmsgs):
        run.apply({"a": "AppSend", "c": "A", "data": ("m:A:%d" % i).encode().hex()})
    run.drain()
    if then_close:
        run.apply({"a": "AppClose", "c": "B"})
    drained = run.drain()
    return run, False, drained


def c18_case(tid, k, j, how):
    """A lazy Deferred-mode application: the peer sends k messages, the application reads j of them, the wormhole
    closes (`how`), and every get_*() issued afterwards must fail - including get_message() with unread
    messages still buffered."""
    run = RealRun(tid, "c18-family", modes={"A": "deferred-lazy", "B": "delegated"})
    w = run.world
    for c in ("A", "B"):
        run.apply({"a": "ConnOpen", "c": c})
    run.apply({"a": "AppSetCode", "c": "A", "code": "4-alpha-beta"})
    run.apply({"a": "AppSetCode", "c": "B", "code": "4-alpha-beta" if how != "wrong" else "4-gamma-delta"})
    for i in range(k):
        run.apply({"a": "AppSend", "c": "B", "data": ("m:B:%d" % i).encode().hex()})
    run.drain()
    for _ in range(j):
        run.apply({"a": "AppGet", "c": "A", "kind": "message"})
    if how.startswith("pending"):
        # more gets than there are messages: one ("pending") or several ("pending3", pipelined reads) are outstanding when
        # the wormhole closes, and so are gets of every other kind that has no value yet
        for _ in range(k - j + (3 if how == "pending3" else 1)):
            run.apply({"a": "AppGet", "c": "A", "kind": "message"})
    run.apply({"a": "AppClose", "c": "A"})
    drained = run.drain()
    for kind in ("message",) * (k + 1) + ("code", "key", "verifier", "versions", "welcome"):
        run.apply({"a": "AppGet", "c": "A", "kind": kind})
    run.drain()
    return run, False, drained


def c18_outstanding_case(tid, n, kinds, peer):
    """get_*() Deferreds that are outstanding when the wormhole closes - several of a kind, pipelined - must all fail then.
    peer=False: the other side never shows up (close reports LonelyError); peer=True: keys agreed, no message yet."""
    run = RealRun(tid, "c18-outstanding", modes={"A": "deferred-lazy", "B": "delegated"})
    for c in ("A", "B"):
        run.apply({"a": "ConnOpen", "c": c})
    run.apply({"a": "AppSetCode", "c": "A", "code": "4-alpha-beta"})
    if peer:
        run.apply({"a": "AppSetCode", "c": "B", "code": "4-alpha-beta"})
    run.drain()
    for kind in kinds:
        for _ in range(n):
            run.apply({"a": "AppGet", "c": "A", "kind": kind})
    run.apply({"a": "AppClose", "c": "A"})
    drained = run.drain()
    for kind in kinds:
        run.apply({"a": "AppGet", "c": "A", "kind": kind})
    run.drain()
    return run, False, drained


def third_party_case(tid, point, kind):
    """A third participant (a side that is neither wormhole's) adds one message to the mailbox of an otherwise honest
    exchange - at the start, after the keys are known, after the versions, at the end.  kind: its own valid PAKE message, a
    copy of B's PAKE body, a junk PAKE body, a junk `version` or `0`.  The server relays it like any other message."""
    from spake2 import SPAKE2_Symmetric
    from wormhole.util import dict_to_bytes as d2b
    run = RealRun(tid, "third-party")
    w = run.world
    for c in ("A", "B"):
        run.apply({"a": "ConnOpen", "c": c})
    for c in ("A", "B"):
        run.apply({"a": "AppSetCode", "c": c, "code": "4-alpha-beta"})
        run.apply({"a": "AppSend", "c": c, "data": ("m:%s:0" % c).encode().hex()})
    xside = "f0f0f0f0f0"

    def inject():
        app = w.server.app(w.clients["A"].appid)
        mbs = list(app["mailboxes"])
        if not mbs:
            return False
        if kind == "pake-valid":
            body = d2b({"pake_v1": SPAKE2_Symmetric(b"4-other-words", idSymmetric=b"appid").start().hex()}).hex()
        elif kind == "pake-copy":
            theirs = [m for m in app["mailboxes"][mbs[0]]["messages"] if m["phase"] == "pake" and m["side"] == w.clients["B"].side]
            if not theirs:
                return False
            body = theirs[0]["body"]
        elif kind == "pake-junk":
            body = b"not json at all".hex()
        elif kind in ("pake-nonutf8", "pake-list", "pake-nonhex", "pake-nonstr", "pake-notelem", "pake-short", "pake-empty"):
            body = {"pake-nonutf8": b"\xff\xfe{}", "pake-list": b"[1, 2]", "pake-nonhex": b'{"pake_v1": "zz"}', "pake-nonstr": b'{"pake_v1": 5}',
                    "pake-notelem": d2b({"pake_v1": (b"S" + b"\xff" * 32).hex()}), "pake-short": b'{"pake_v1": "00"}', "pake-empty": b""}[kind].hex()
        else:
            body = bytes(range(40)).hex()
        phase = "pake" if kind.startswith("pake") else kind
        run.apply({"a": "Inject", "mailbox": mbs[0], "side": xside, "phase": phase, "body": body, "appid": w.clients["A"].appid})
        return True

    def seen(ev):
        return all(any(k == ev for k, _ in c.events) for c in w.clients.values())
    done = False
    for _ in range(400):
        if not done and (point == "start" and w.server.app(w.clients["A"].appid)["mailboxes"]
                         or point == "after-key" and seen("key") or point == "after-versions" and seen("versions")):
            done = inject()
            continue
        acts = w.enabled(faults=False)
        if not acts:
            break
        run.apply(acts[0])
    if not done:
        done = inject()
    drained = run.drain()
    return run, False, drained, done


def c18_chase_case(tid, how, when):
    """A Deferred-mode application that has get_code() outstanding and issues get_unverified_key() / get_verifier() /
    get_versions() right after the call (or the delivery) that produces the values - before the eventual queue has run.
    how: "set" (set_code with the peer's pake already waiting), "input" (input_code + helper, same), "deliver" (the
    peer's pake and version arrive afterwards).  when: how many gets are issued at the critical step."""
    run = RealRun(tid, "c18-chase", modes={"A": "deferred-chasing", "B": "delegated"})
    w = run.world
    for c in ("A", "B"):
        run.apply({"a": "ConnOpen", "c": c, "chase": 0})
    run.apply({"a": "AppSetCode", "c": "B", "code": "4-alpha-beta", "chase": 0})
    run.apply({"a": "AppSend", "c": "B", "data": b"m:B:0".hex(), "chase": 0})
    if how != "deliver":
        for _ in range(60):
            acts = [a for a in w.enabled(faults=False) if a["a"] in ("Serve", "Deliver")]
            if not acts:
                break
            run.apply(dict(acts[0], chase=0))
    if how == "input":
        run.apply({"a": "AppInput", "c": "A", "chase": 0})
        run.apply({"a": "AppHelper", "c": "A", "m": "choose_nameplate", "args": ["4"], "chase": 0})
        for _ in range(60):
            acts = [a for a in w.enabled(faults=False) if a["a"] in ("Serve", "Deliver")]
            if not acts:
                break
            run.apply(dict(acts[0], chase=0))
        run.apply({"a": "AppHelper", "c": "A", "m": "choose_words", "args": ["alpha-beta"], "chase": when})
    else:
        run.apply({"a": "AppSetCode", "c": "A", "code": "4-alpha-beta", "chase": when})
    for _ in range(200):
        acts = [a for a in w.enabled(faults=False)]
        if not acts:
            break
        run.apply(dict(acts[0], chase=when if how == "deliver" else 1))
    for _ in range(5):
        run.apply({"a": "AppGet", "c": "A", "kind": "welcome", "chase": 1})
    drained = run.drain()
    return run, False, drained


def c02_cross_session_case(tid, phases):
    """History before the session: an earlier session of the same two applications in this process (same side labels - a
    long-running program, or sides a server has seen before).  In the new session the server substitutes the bodies of the
    peer's frames of `phases` by the bodies the peer's frames had in the *earlier* session (a replay across sessions: genuine
    ciphertext, made with another session key).  The client must ignore it or close with an error."""
    old = RealRun(900001 + tid, "c02-cross-session-earlier")      # (another payload profile than the new session's)
    w0 = old.world
    for c in ("A", "B"):
        old.apply({"a": "ConnOpen", "c": c})
        old.apply({"a": "AppSetCode", "c": c, "code": "4-alpha-beta"})
        for k in range(2):
            old.apply({"a": "AppSend", "c": c, "data": ("m:%s:%d" % (c, k)).encode().hex()})
    old.drain()
    bside = w0.clients["B"].side
    earlier = {}
    for app in w0.server.apps.values():
        for mbx in list(app["mailboxes"].values()):
            for msg in mbx["messages"]:
                if msg["side"] == bside:
                    earlier[msg["phase"]] = msg["body"]
    old.finish(True)
    run = RealRun(tid, "c02-cross-session")
    w = run.world
    if w.clients["B"].side != bside:
        return run, False, False, False          # (sides are pinned per client name: cannot happen)
    for c in ("A", "B"):
        run.apply({"a": "ConnOpen", "c": c})
        run.apply({"a": "AppSetCode", "c": c, "code": "4-alpha-beta"})
        for k in range(2):
            run.apply({"a": "AppSend", "c": c, "data": ("m:%s:%d" % (c, k)).encode().hex()})
    done = 0
    for _ in range(400):
        acts = w.enabled(faults=False)
        if not acts:
            break
        a = acts[0]
        if a["a"] == "Deliver":
            conn = w.conn(a["k"])
            fr = conn.s2c[0]
            if conn.client.name == "A" and fr["type"] == "message" and fr.get("side") == bside and fr.get("phase") in phases \
                    and fr["phase"] in earlier and fr["body"] != earlier[fr["phase"]]:
                run.apply({"a": "TamperS2C", "k": conn.id, "i": 0, "op": "body", "v": earlier[fr["phase"]]})
                done += 1
                continue
        run.apply(a)
    drained = run.drain()
    return run, False, drained, done > 0


def c02_reconnect_replay_case(tid, victim, keep, order, nmsgs=2):
    """After an honest exchange the server drops the victim's connection; when the client has reconnected and re-opened
    its mailbox, the server replays the stored messages of the peer selectively (`keep`: the phases it delivers again) and
    in the order it likes (`order`: "stored" / "pake-last" / "reversed").  Nothing may reach the application twice."""
    run = RealRun(tid, "c02-reconnect-replay")
    w = run.world
    for c in ("A", "B"):
        run.apply({"a": "ConnOpen", "c": c})
        run.apply({"a": "AppSetCode", "c": c, "code": "4-alpha-beta"})
    for c in ("A", "B"):
        for k in range(nmsgs):
            run.apply({"a": "AppSend", "c": c, "data": ("m:%s:%d" % (c, k)).encode().hex()})
    run.drain(limit=400 + 40 * nmsgs)
    cl = w.clients[victim]
    conn = w.live_conn(cl)
    if conn is None:
        return run, False, False
    run.apply({"a": "Drop", "k": conn.id})
    run.apply({"a": "Retry", "c": victim})
    run.apply({"a": "ConnOpen", "c": victim})
    for _ in range(60):
        conn = w.live_conn(cl)
        if conn is None:
            break
        if conn.c2s:
            run.apply({"a": "Serve", "k": conn.id})
        elif conn.s2c and conn.s2c[0]["type"] != "message":
            run.apply({"a": "Deliver", "k": conn.id})
        else:
            break
    conn = w.live_conn(cl)
    if conn is not None:
        # the selective replay: frames of the peer whose phase is not in `keep` are withheld
        for i in reversed(range(len(conn.s2c))):
            fr = conn.s2c[i]
            if fr["type"] == "message" and fr.get("side") != cl.side and fr.get("phase") not in keep:
                run.apply({"a": "WithholdS2C", "k": conn.id, "i": i})
        theirs = [i for i, fr in enumerate(conn.s2c) if fr["type"] == "message" and fr.get("side") != cl.side]
        if order != "stored" and len(theirs) >= 2:
            # bubble the frames of the peer into the wanted order (adjacent swaps, as the world's SwapS2C does)
            want = list(reversed(theirs)) if order == "reversed" else theirs[1:] + theirs[:1]
            frames = [conn.s2c[i] for i in want]
            for pos, fr in zip(theirs, frames):
                conn.s2c[pos] = fr
            run.tracker.order_preserving = False
            run.tracker.tampered = True
    drained = run.drain(limit=400 + 40 * nmsgs)
    return run, False, drained


def c02_label_join_case(tid, victim, whose, src_phase, nmsgs=12):
    """Labels whose concatenation coincides: the frame of (side S, phase "10") shown to the victim as (side S + "1", phase "0") - the
    peer's eleventh message (`whose` = "peer") or the victim's own, reflected (`whose` = "own") - while the genuine phase "0" is
    withheld, so that the phase has not been accepted yet.  Side and phase each enter the message key on their own."""
    run = RealRun(tid, "c02-label-join")
    w = run.world
    other = "B" if victim == "A" else "A"
    for c in ("A", "B"):
        run.apply({"a": "ConnOpen", "c": c})
        run.apply({"a": "AppSetCode", "c": c, "code": "4-alpha-beta"})
    for c in ("A", "B"):
        for k in range(nmsgs):
            run.apply({"a": "AppSend", "c": c, "data": ("m:%s:%d" % (c, k)).encode().hex()})
    vcl = w.clients[victim]
    ocl = w.clients[other]

    def numeric_from_peer(fr):
        return fr.get("type") == "message" and fr.get("side") == ocl.side and str(fr.get("phase", "")).isdigit()
    # everything happens but the delivery of the peer's application messages to the victim
    for _ in range(400 + 60 * nmsgs):
        acts = w.enabled(faults=False)
        pick = None
        for a in acts:
            if a["a"] == "Deliver":
                conn = w.conn(a["k"])
                if conn.client.name == victim and conn.s2c and numeric_from_peer(conn.s2c[0]):
                    # let the frames behind it (the victim's own echoes, acks) overtake: the mailbox is an unordered set
                    later = [i for i, fr in enumerate(conn.s2c) if not numeric_from_peer(fr)]
                    if later:
                        pick = {"a": "MoveS2C", "k": conn.id, "i": later[0], "to": 0}
                        break
                    continue
            pick = a
            break
        if pick is None:
            break
        run.apply(pick)
    conn = w.live_conn(vcl)
    if conn is None:
        return run, False, False
    zero = [i for i, fr in enumerate(conn.s2c) if numeric_from_peer(fr) and fr["phase"] == "0"]
    if zero:
        run.apply({"a": "WithholdS2C", "k": conn.id, "i": zero[0]})
    # the peer's other messages arrive (they wait in the victim's reorder buffer for phase 0)
    run.drain(limit=400 + 40 * nmsgs)
    conn = w.live_conn(vcl)
    if conn is None:
        return run, False, False
    side = ocl.side if whose == "peer" else vcl.side
    f = conn.srv
    mb = f["app"]["mailboxes"].get(f["mailbox"]) if f.get("app") and f.get("mailbox") else None
    idx = [i for i, m in enumerate(mb["messages"]) if m.get("side") == side and m.get("phase") == src_phase] if mb else []
    if not idx:
        return run, False, False
    # the server shows that stored frame once more, its label's digit moved from the phase to the side
    run.apply({"a": "Dup", "k": conn.id, "m": idx[0]})
    run.apply({"a": "TamperS2C", "k": conn.id, "i": len(conn.s2c) - 1, "op": "phase", "v": src_phase[1:]})
    run.apply({"a": "TamperS2C", "k": conn.id, "i": len(conn.s2c) - 1, "op": "side", "v": side + src_phase[:1]})
    drained = run.drain(limit=400 + 40 * nmsgs)
    return run, False, drained



def c02_case(tid, victim, frame_index, op, rng):
    """honest exchange of two messages each way; the server manipulates the frame_index-th message frame
    delivered to `victim` (byte-level variants chosen by rng)"""
    run = RealRun(tid, "c02-family")
    w = run.world
    for c in ("A", "B"):
        run.apply({"a": "ConnOpen", "c": c})
        run.apply({"a": "AppSetCode", "c": c, "code": "4-alpha-beta"})
    for c in ("A", "B"):
        for k in range(2):
            run.apply({"a": "AppSend", "c": c, "data": ("m:%s:%d" % (c, k)).encode().hex()})
    seen = 0
    done = False
    for _ in range(400):
        acts = w.enabled(faults=False)
        if not acts:
            break
        a = acts[0]
        if not done and a["a"] == "Deliver":
            conn = w.conn(a["k"])
            if conn.client.name == victim and conn.s2c and conn.s2c[0]["type"] == "message":
                if seen == frame_index:
                    fr = conn.s2c[0]
                    other = [c for c in w.clients.values() if c.name != victim][0]
                    t = dict(op)
                    if t["op"] == "side":
                        # ("own+" / "peer+": a label that differs from a genuine one only by a non-ASCII character)
                        t["v"] = {"own": conn.client.side, "peer": other.side, "x": "f0f0f0f0f0", "own+": conn.client.side + "\u00e9",
                                  "OWN": conn.client.side.upper(), "PEER": other.side.upper(), "Own": conn.client.side.capitalize(),
                                  "peer+": other.side + "\u00e9", "+peer": "\u0660" + other.side}[t["v"]]
                        if t["v"] == fr["side"]:
                            t["v"] = "f0f0f0f0f0"
                    if t["op"] == "flip":
                        n = len(fr["body"]) // 2
                        t["pos"] = {"first": 0, "last": n - 1, "mid": n // 2, "rand": rng.randrange(max(1, n))}[t.get("where", "rand")]
                        t["bit"] = rng.randrange(8)
                    if t["op"] in ("replay", "replay-next"):
                        # the same body delivered again under another phase label (and, optionally, another side) - after
                        # everything else that is queued, or right behind the original, i.e. before the genuine frame of that phase
                        # ("replay": the first stored message of the mailbox, i.e. a PAKE body; "replay-next": this very frame)
                        run.apply({"a": "Dup", "k": conn.id, "m": 0} if t["op"] == "replay" else {"a": "DupS2C", "k": conn.id, "i": 0})
                        run.apply({"a": "TamperS2C", "k": conn.id, "i": len(conn.s2c) - 1, "op": "phase", "v": t["v"]})
                        if t.get("side"):
                            run.apply({"a": "TamperS2C", "k": conn.id, "i": len(conn.s2c) - 1, "op": "side", "v": t["side"]})
                        if t["op"] == "replay-next" and not t.get("end"):
                            run.apply({"a": "MoveS2C", "k": conn.id, "i": len(conn.s2c) - 1, "to": 1})
                    else:
                        run.apply(dict({"a": "TamperS2C", "k": conn.id, "i": 0}, **t))
                    done = True
                seen += 1
        run.apply(a)
    drained = run.drain()
    return run, False, drained


def words_class(code):
    np, _, words = code.partition("-")
    for k, v in WORDS.items():
        if v == words:
            return np, k
    return np, words


def world_to_spec(run, a):
    """world action -> lastAct pattern of the spec ('*' = not compared); None = no spec step."""
    w = run.world
    t = a["a"]
    if t in ("Retry", "AppGet", "AppGetBurst", "AppDerive", "DeliverBurst", "MoveS2C", "DupS2C"):
        return None

    def cname(k):
        return w.conn(k).client.name
    if t == "ConnOpen":
        return {"a": "ConnOpen", "c": a["c"], "x": "error" if a.get("welcome_error") else "ok", "y": "*"}
    if t == "ArmClose":
        return {"a": t, "c": a["c"], "x": a["kind"], "y": "*"}
    if t in ("ConnFail", "AppSend", "AppClose", "AppAllocate", "AppInput"):
        return {"a": t, "c": a["c"], "x": "*", "y": "*"}
    if t == "AppSetCode":
        np, k = words_class(a["code"])
        return {"a": t, "c": a["c"], "x": np, "y": k}
    if t == "AppHelper":
        arg = a["args"][0] if a["m"] in ("choose_nameplate",) else "*"
        if a["m"] == "choose_words":
            arg = words_class("0-" + a["args"][0])[1]
        return {"a": t, "c": a["c"], "x": a["m"], "y": arg if a["m"].startswith("choose") else "*"}
    if t in ("Serve", "Deliver", "LateDeliver", "Drop", "CloseDone"):
        return {"a": t, "c": cname(a["k"]), "x": "*", "y": "*"}
    if t == "Dup":
        return {"a": "Dup", "c": cname(a["k"]), "x": str(a["m"] + 1), "y": "*"}
    if t == "SwapS2C":
        return {"a": "Swap", "c": cname(a["k"]), "x": str(a["i"] + 1), "y": "*"}
    if t == "ConnAbort":
        return {"a": "ConnAbort", "c": a["c"], "x": "*", "y": "*"}
    if t == "SrvCloseBegin":
        return {"a": "SrvCloseBegin", "c": cname(a["k"]), "x": "*", "y": "*"}
    if t == "SrvSend" and a["msg"].get("type") == "error":
        return {"a": "SrvError", "c": cname(a["k"]), "x": "*", "y": "*"}
    return None


def modes_of(states):
    return {c: cl["mode"] for c, cl in states[0]["cs"].items()}


def replay_spec_behaviour(tid, states, origin, prop):
    """Spec -> code.  Returns (run, drift or None)."""
    run = RealRun(tid, origin, modes=modes_of(states))
    drift = None
    for i, st in enumerate(states[1:], start=1):
        la = st["lastAct"]
        try:
            acts = to_world_action(run.world, run.bind, la)
            for a in acts:
                run.apply(a)
        except Exception as e:       # the real system cannot take this step: model and code disagree
            if drift is None:
                drift = {"step": i, "action": la, "diff": ["cannot apply: %r" % (e,)]}
            break
        if drift is None:
            ps = spec_view_for_mode(project_spec(st), run.world)
            pr = project_real(run.world, run.bind)
            d = diff(ps, pr)
            if d:
                drift = {"step": i, "action": la, "diff": d}
    return run, drift


HOSTILE = ("ConnFail", "Inject", "TamperS2C", "SrvSend", "AppClose", "ArmClose", "WithholdS2C")


def env_goal(run, drained):
    """Must everything have arrived by now?  Decided by what the environment and the applications did in this run (not
    by where the wormholes ended up): both applications gave the same code and never closed, the server never erred,
    refused or tampered, and the run was completed fairly with the server reachable."""
    if not drained or run.world is None:
        return False
    for a in run.schedule:
        if a["a"] in HOSTILE or (a["a"] == "ConnOpen" and a.get("welcome_error")):
            return False
    w = run.world
    if any(getattr(c, "lazy", False) or getattr(c, "chasing", False) for c in w.clients.values()):
        return False
    return len(w.clients) == 2 and all(getattr(c, "code_used", None) for c in w.clients.values()) and run.tracker.codes_match()


def random_real_walk(tid, rng, prop, steps=60):
    """Code -> spec: a seeded random walk over the environment actions actually enabled on the real
    system, within the action families the property's environment allows."""
    modes = None
    if (prop == "C18" and rng.random() < 0.4) or (prop in ("C03", "C09", "C02") and rng.random() < 0.25):
        # a Deferred-mode application that does not ask for messages as they come: they wait in the observer's buffer
        modes = {"A": "deferred-lazy", "B": "delegated"}
    elif prop == "C18" and rng.random() < 0.35:
        # ... or one that asks for each value in turn at moments of its own choosing (mbworld.Client.chase)
        modes = {"A": "deferred-chasing", "B": "delegated"}
    run = RealRun(tid, "random", modes=modes)
    w = run.world
    budget = {"Drop": rng.choice([0, 1, 2]), "Dup": rng.choice([0, 1]), "SwapS2C": rng.choice([0, 1]),
              "send": {"A": rng.choice([0, 1, 2]), "B": rng.choice([0, 1, 2])},
              "close": prop in ("C08", "C14", "C18") and rng.random() < 0.8,
              "welcome_error": prop in ("C08", "C14", "C18") and rng.random() < 0.3}
    srv_closes = prop in ("C03", "C09", "C14", "C08", "C18")
    budget["Abort"] = rng.choice([0, 1, 2]) if prop in ("C09", "C08", "C14", "C18", "C03") else 0
    budget["SrvErr"] = rng.choice([0, 0, 1]) if prop in ("C08", "C14", "C18") else 0
    if prop in ("C03", "C02", "C01"):
        budget["close"] = False
    if prop == "C09":
        # the closed notification is an application-visible event too: it must survive drops around close()
        budget["close"] = rng.random() < 0.3
    codes = {"A": "4-alpha-beta", "B": "4-alpha-beta"}
    if prop == "C01" and rng.random() < 0.6:
        codes["B"] = rng.choice(["4-gamma-delta", "5-alpha-beta"])
    coded = set()
    closed = set()
    hostile = False         # the server erred / refused / the first connection failed: closing is then legitimate
    late_budget = {"A": 4, "B": 4}
    for _ in range(steps):
        acts = []
        for a in w.enabled(faults=True):
            t = a["a"]
            if t == "ConnFail" or t == "LateDeliver":
                continue
            if t == "Drop":
                conn = w.conn(a["k"])
                if conn.wsclosing:
                    acts += [a, a]          # the closing handshake ends with TCP going away
                elif budget["Drop"] > 0 and rng.random() < 0.15:
                    acts.append(a)
                elif budget["Drop"] > 0 and not conn.s2c and srv_closes and rng.random() < 0.15:
                    acts.append({"a": "SrvCloseBegin", "k": conn.id})
                continue
            if t == "ConnOpen" and budget["Abort"] > 0 and rng.random() < 0.3 and getattr(w.clients[a["c"]].boss._RC, "_have_made_a_successful_connection", False):
                acts.append({"a": "ConnAbort", "c": a["c"]})
                continue
            if t == "ConnOpen" and budget["welcome_error"] and rng.random() < 0.3:
                # the operator has told the server to turn clients away (welcome.error), possibly only on a reconnect
                a = dict(a, welcome_error=True)
            acts.append(a)
            if t in ("Serve", "Deliver"):
                acts.append(a)      # bias towards progress
        if budget["SrvErr"] > 0 and rng.random() < 0.3:
            for conn in w.conns:
                if conn.state == "open" and not conn.closing:
                    acts.append({"a": "SrvSend", "k": conn.id, "msg": {"type": "error", "error": "unprovoked", "orig": {}}})
        for c in ("A", "B"):
            if w.clients[c].lazy and prop in ("C03", "C09", "C02") and rng.random() < 0.2:
                acts.append({"a": "AppGet", "c": c, "kind": "message"})
            if w.clients[c].mode == "deferred" and prop in ("C18", "C08", "C14") and rng.random() < 0.12 and late_budget[c] > 0:
                kinds = ["code", "key", "verifier", "versions", "welcome"]
                if w.clients[c].lazy or any(k == "closed" for k, _ in w.clients[c].events):
                    kinds += ["message", "message"]     # an eager application already has a get_message() outstanding
                acts.append({"a": "AppGet", "c": c, "kind": rng.choice(kinds)})
            if c in closed:
                continue
            if c not in coded:
                acts.append({"a": "AppSetCode", "c": c, "code": codes[c]})
            if budget["send"][c] > 0:
                acts.append({"a": "AppSend", "c": c, "data": ("m:%s:%d" % (c, len(w.clients[c].sent))).encode().hex()})
            if budget["close"] and rng.random() < 0.1:
                acts.append({"a": "AppClose", "c": c})
        for conn in w.conns:
            if conn.state == "open" and not conn.closing:
                msgs = [i for i, f in enumerate(conn.s2c) if f["type"] == "message"]
                if budget["SwapS2C"] > 0 and len(msgs) >= 2:
                    for i in msgs[:-1]:
                        if i + 1 in msgs:
                            acts.append({"a": "SwapS2C", "k": conn.id, "i": i})
                            break
                if budget["Dup"] > 0 and conn.srv.get("listening"):
                    mb = conn.srv["app"]["mailboxes"].get(conn.srv["mailbox"])
                    if mb and mb["messages"]:
                        acts.append({"a": "Dup", "k": conn.id, "m": rng.randrange(len(mb["messages"]))})
        if not acts:
            break
        a = rng.choice(acts)
        t = a["a"]
        if t == "AppSetCode":
            coded.add(a["c"])
        elif t == "AppSend":
            budget["send"][a["c"]] -= 1
        elif t == "AppClose":
            closed.add(a["c"])
        elif t in ("Drop", "Dup", "SwapS2C"):
            budget[t] -= 1
        elif t == "AppGet":
            late_budget[a["c"]] -= 1
        elif t == "SrvSend":
            budget["SrvErr"] -= 1
            hostile = True
        elif t == "ConnAbort":
            budget["Abort"] -= 1
        if t in ("ConnFail", "Inject", "TamperS2C") or (t == "ConnOpen" and a.get("welcome_error")):
            hostile = True
        run.apply(a, spec_act=world_to_spec(run, a))
    drained = run.drain()
    # a lazy application finally asks for everything that has been waiting for it (one request stays outstanding)
    for c in ("A", "B"):
        cl = w.clients[c]
        if cl.lazy and not any(k == "closed" for k, _ in cl.events):
            other = w.clients["B" if c == "A" else "A"]
            if tid % 2:
                run.apply({"a": "AppGetBurst", "c": c, "kind": "message", "n": len(other.sent) + 1})
            else:
                for _ in range(len(other.sent) + 1):
                    run.apply({"a": "AppGet", "c": c, "kind": "message"})
    if prop in ("C18", "C08") :
        # after everything: get_*() issued after the closed notification must fail, not hang
        for c in ("A", "B"):
            cl = w.clients[c]
            if cl.mode == "deferred" and any(k == "closed" for k, _ in cl.events):
                for kind in ("code", "message", "message", "message", "verifier"):
                    run.apply({"a": "AppGet", "c": c, "kind": kind})
    # whether everything must have arrived is decided by what the *environment* did, not by where the wormholes ended
    # up: after drops, aborted reconnects, duplicates and reorderings only - and a fair completion with both servers
    # reachable - both sides must be connected again with everything delivered (a wormhole that gave up is a failure)
    benign = not (run.tracker.tampered or hostile)
    goal = drained and not closed and coded == {"A", "B"} and codes["A"] == codes["B"] and \
        (benign or all(w.live_conn(c) is not None for c in w.clients.values()))
    return run, goal, drained


def run_schedule(tid, entry, origin):
    """Execute a stored schedule (corpus entry or replay file) on fresh real wormholes."""
    run = RealRun(tid, origin, modes=entry.get("modes"))
    applied = 0
    for a in entry["schedule"]:
        en = run.world.enabled(faults=True)
        if a["a"] in ("Serve", "Deliver", "LateDeliver", "Drop", "CloseDone", "ConnOpen", "ConnFail", "Retry") and \
                not any(e["a"] == a["a"] and e.get("k") == a.get("k") and e.get("c") == a.get("c") for e in en):
            break          # the schedule no longer applies to this tree (different frames in flight)
        run.apply(a)
        applied += 1
    drained = run.drain()
    return run, drained, applied


def corpus_entries(prop):
    import glob
    out = []
    for fn in sorted(glob.glob(os.path.join(common.HERE, "corpus", prop, "*.json"))):
        e = json.load(open(fn))
        e["_file"] = os.path.basename(fn)
        out.append(e)
    return out


def replay(prop, path):
    d = json.load(open(path))
    entry = d.get("replay", d)
    if "notify_schedule" in entry:
        from . import notify
        return notify.replay_schedule(prop, path, entry["notify_schedule"])
    if "modes" not in entry and "observation" in entry:
        entry["modes"] = {c: v["mode"] for c, v in entry["observation"]["cl"].items()}
    with common.Workdir(prop + "_replay") as wd:
        run_, drained, applied = run_schedule(1, entry, "replay")
        rec = run_.finish(drained)
        verdicts, _ = run_observer(wd, [rec])
    bad = [n for n in DECIDES[prop] if not verdicts[1][n]]
    for i, st in enumerate(run_.final_trace):
        print("%3d %-40s ev=%s exc=%s" % (i + 1, json.dumps(st["a"])[:40], st["ev"], st["exc"]))
    print("applied %d of %d steps; internal=%s" % (applied, len(entry["schedule"]), rec["internal"]))
    print("observer:", {n: verdicts[1][n] for n in DECIDES[prop]})
    if bad:
        print("VIOLATION property=%s replay=%s" % (prop, path))
        return 1
    return 0


# ------------------------------------------------------------------------------------------------ TLC passes
EXERCISED = {}      # predicate -> number of runs of the last observer pass on which it had something to judge


def run_observer(wd, records):
    """Evaluate MailboxObs.tla on the recorded runs.  Returns {tid: {name: bool}}."""
    path = wd.file("obs.ndjson")
    with open(path, "w") as f:
        for r in records:
            f.write(json.dumps(r) + "\n")
    with open(wd.file("MC_Obs.cfg"), "w") as f:
        f.write("SPECIFICATION Spec\nCHECK_DEADLOCK FALSE\n")
    with open(wd.file("MC_Obs.tla"), "w") as f:
        f.write("---- MODULE MC_Obs ----\nEXTENDS MailboxObs\n====\n")
    r = tlc.run("MC_Obs.tla", "MC_Obs.cfg", workers=1, cwd=wd.path, env={"OBS_FILE": path}, timeout=1800)
    out = {}
    EXERCISED.clear()
    for v in tlc.printed_tuples(r.stdout, "OBS"):
        out[v[1]] = dict(zip(OBS_NAMES, v[2]))
        for n, b in zip(OBS_NAMES, v[3]):
            EXERCISED[n] = EXERCISED.get(n, 0) + bool(b)
    if len(out) != len(records):
        raise RuntimeError("observer evaluated %d of %d runs\n%s" % (len(out), len(records), r.stdout[-3000:]))
    return out, r


def run_trace_validation(wd, lines, ntraces):
    """Validate recorded real traces against WormholeTrace.tla.  Returns {tid: (reached, total)}."""
    path = wd.file("traces.ndjson")
    with open(path, "w") as f:
        for l in lines:
            f.write(json.dumps(l) + "\n")
    consts = dict(BASE)
    consts.update(MaxSend=F(9, 9), MaxDrops=F(9, 9), AllowClose={"A", "B"}, MaxDup=9, MaxSwap=9, AllowAllocate={"A", "B"},
                  AllowInput={"A", "B"}, LateFrames=True, WelcomeErr=True, ConnFails=True, MaxHelper=99, MaxSrvErr=9, MaxAborts=9, SrvCloses=True,
                  ReentKinds={"welcome", "code", "key", "verifier", "versions", "message"},
                  CodeChoices=Raw('[c \\in {"A","B"} |-> {<<"4", "w">>, <<"4", "v">>, <<"5", "w">>}]'))
    common.write_model(wd, "MC_Trace", "WormholeTrace", consts, spec="TSpec", constraint="Mark", postcondition="Post",
                       extra_defs="ASSUME RegInit")
    r = tlc.run("MC_Trace.tla", "MC_Trace.cfg", workers=1, cwd=wd.path, env={"TRACE_FILE": path}, timeout=3000)
    out = {}
    for v in tlc.printed_tuples(r.stdout, "TRACE"):
        out[v[1]] = (v[2], v[3])
    return out, r


def binding_demo():
    """The trace specification is bound to the code: real traces are accepted as recorded, and rejected as soon as
    one recorded field is altered, one step is dropped, or two steps change places."""
    import copy
    rng = random.Random(7)
    out = {}
    with common.Workdir("selftest") as wd:
        wd.gen_tables()
        traces = []
        tid = 0
        while len(traces) < 6:
            tid += 1
            run_, goal, drained = random_real_walk(tid, rng, "C09", steps=40)
            lazy = any(c.lazy or getattr(c, "chasing", False) for c in run_.world.clients.values())
            run_.finish(drained, goal=goal)
            if len(run_.lines) >= 15 and not lazy:
                traces.append(run_.lines)
        variants = []        # (name, lines)
        n = 0
        for lines in traces:
            def retag(ls, t):
                ls = copy.deepcopy(ls)
                for i, l in enumerate(ls):
                    l["tid"], l["i"] = t, i + 1
                return ls
            n += 1
            variants.append(("original", retag(lines, n)))
            # one machine state of one client at one step
            k = rng.randrange(3, len(lines) - 1)
            c = rng.choice(["A", "B"])
            bad = retag(lines, n + 100)
            st = bad[k]["proj"][c]["st"]
            m = sorted(st)[rng.randrange(len(st))]
            st[m] = "S_bogus" if not isinstance(st[m], str) or not st[m].startswith("S_bogus") else "X"
            variants.append(("state_altered", bad))
            # one application event dropped from the record
            bad = retag(lines, n + 200)
            hit = [i for i, l in enumerate(bad) if any(l["proj"][x]["ev"] for x in ("A", "B"))]
            if hit:
                for l in bad[hit[-1]:]:
                    for x in ("A", "B"):
                        if l["proj"][x]["ev"]:
                            l["proj"][x]["ev"] = l["proj"][x]["ev"][:-1]
                            break
                    else:
                        continue
                variants.append(("event_removed", bad))
            # one step missing
            bad = retag(lines[:k] + lines[k + 1:], n + 300)
            variants.append(("step_removed", bad))
            # the frame counters of one step
            bad = retag(lines, n + 400)
            bad[k]["proj"][c]["c2s"] += 1
            variants.append(("queue_length_altered", bad))
        allv = [l for _, ls in variants for l in ls]
        tv, r = run_trace_validation(wd, allv, len(variants))
        for name, ls in variants:
            t = ls[0]["tid"]
            reached, total = tv.get(t, (0, len(ls)))
            out.setdefault(name, {"accepted": 0, "rejected": 0})["accepted" if reached == total else "rejected"] += 1
    ok = out.get("original", {}).get("rejected", 1) == 0 and all(v["accepted"] == 0 for k_, v in out.items() if k_ != "original")
    # (removing a step may leave a behaviour the specification also allows: reported, not required to be rejected)
    ok = out.get("original", {}).get("rejected", 1) == 0 and all(
        out.get(k_, {"accepted": 0})["accepted"] == 0 for k_ in ("state_altered", "event_removed", "queue_length_altered"))
    return ok, out


def run(prop, tier):
    v = common.Verdict(prop, tier)
    cov = run_pipeline(prop, tier, v, tier == "quick")
    return v.finish(cov, assumptions=ASSUMPTIONS)


def run_pipeline(prop, tier, v, quick):
    seed = common.seed()
    rng = random.Random(seed * 1000003 + sum(map(ord, prop)))
    cov = {"tlc_configs": {}, "samples": [], "drift": [], "unconfirmed_counterexamples": []}
    records, lines, runs = [], [], {}
    tid = 0
    with common.Workdir(prop) as wd:
        info = wd.gen_tables()
        cov["tables"] = info
        # ---- 1. exhaustive model checking on the current tables
        states = transitions = 0
        cexs = []
        known_errs = set()
        for k in common.load_known():
            if k.get("status") == "known":
                known_errs.update(k.get("model_errs", []))
        from concurrent.futures import ThreadPoolExecutor
        cfgs = cfgs_for(prop, tier)
        supp_model = []

        def check_one(item):
            name, consts = item
            consts = dict(consts, KnownErrs=known_errs)
            mname = "MC_%s_%s" % (prop, name)
            kw = dict(cwd=wd.path, timeout=3000, workers=6 if quick else 16, heap="4g" if quick else "8g")
            common.write_model(wd, mname, "Wormhole", consts, invariants=MODEL_INVARIANTS[prop] + SUPPLEMENTARY_INVARIANTS,
                               properties=SUPPLEMENTARY_PROPERTIES, view="view")
            r = tlc.run(mname + ".tla", mname + ".cfg", **kw)
            if r.violated in SUPPLEMENTARY_INVARIANTS + SUPPLEMENTARY_PROPERTIES or (not r.ok and not r.violated and "StatusMonotone" in (r.stdout or "")):
                # a supplementary invariant stopped the exploration: note it, and decide the listed ones without it
                supp_model.append({"config": name, "violated": r.violated or "StatusMonotone"})
                common.write_model(wd, mname, "Wormhole", consts, invariants=MODEL_INVARIANTS[prop], view="view")
                r = tlc.run(mname + ".tla", mname + ".cfg", **kw)
            return name, mname, r
        # (quick: the configurations are small - three at a time with six workers each; thorough: one after the other)
        with ThreadPoolExecutor(max_workers=3 if quick else 1) as ex:
            results = list(ex.map(check_one, list(cfgs.items())))
        for name, mname, r in results:
            cov["tlc_configs"][name] = {"distinct_states": r.distinct, "states_generated": r.generated, "depth": r.depth,
                                        "wall_s": round(r.wall, 1), "result": "ok" if r.ok else (r.violated or "error")}
            states += r.distinct
            transitions += r.generated
            if r.violated:
                cexs.append((name, r.violated, r.trace))
            elif not r.ok:
                raise RuntimeError("TLC failed on %s: %s" % (mname, (r.error or r.stdout[-2000:])))
        if prop == "C02":
            # first of all real runs, so that nothing else has been through this process' wormhole classes yet: state kept at
            # class or module level by an earlier session is exactly what this family is about
            ncs = ncs_ok = 0
            for phases in (("version",), ("0",), ("1",), ("version", "0", "1"), ("pake",), ("pake", "version", "0", "1")):
                tid += 1
                ncs += 1
                try:
                    run_, goal, drained, ok = c02_cross_session_case(tid, phases)
                except Exception as e:
                    cov.setdefault("family_errors", []).append("cross-session %s: %r" % (phases, e))
                    continue
                ncs_ok += bool(ok)
                runs[run_.tid] = run_
                records.append(run_.finish(drained, goal=False))
            cov["c02_cross_session_cases"] = ncs
            cov["c02_cross_session_substituted"] = ncs_ok
        # ---- 2. spec -> code: counterexamples first, then sampled behaviours
        for (name, inv, trace) in cexs:
            tid += 1
            run_, drift = replay_spec_behaviour(tid, trace, "tlc-cex:%s:%s" % (name, inv), prop)
            drained = run_.drain()
            runs[tid] = run_
            records.append(run_.finish(drained))
            if drift:
                cov["drift"].append(dict(drift, tid=tid))
        for e in corpus_entries(prop):
            tid += 1
            run_, drained, applied = run_schedule(tid, e, "corpus:" + e["_file"])
            runs[tid] = run_
            records.append(run_.finish(drained))
        cov["corpus_schedules"] = len(corpus_entries(prop))
        gname = "MC_%s_gen" % prop
        common.write_model(wd, gname, "Wormhole", gen_cfg(prop), invariants=[], view=None)
        nsim = 150 if quick else 1500
        simdir = wd.file("sim")
        os.makedirs(simdir)
        t1 = time.time()
        r = tlc.run(gname + ".tla", gname + ".cfg", cwd=wd.path, workers=10,
                    simulate={"num": nsim // 10, "file": os.path.join(simdir, "tr")},
                    depth=70, seed=seed + 1, timeout=1200)
        cov.setdefault("timing", {})["simulate_s"] = round(time.time() - t1, 1)
        ndrift = 0
        nbeh = 0
        for b in tlc.read_sim_traces(os.path.join(simdir, "tr")):
            nbeh += 1
            tid += 1
            run_, drift = replay_spec_behaviour(tid, b, "tlc-sim", prop)
            drained = run_.drain()
            runs[tid] = run_
            records.append(run_.finish(drained, goal=env_goal(run_, drained)))
            if drift:
                ndrift += 1
                if len(cov["drift"]) < 10:
                    cov["drift"].append(dict(drift, tid=tid))
        cov["sim_behaviours"] = nbeh
        cov["replayed_behaviours"] = nbeh + len(cexs)
        cov["replay_drift_count"] = ndrift
        # ---- 2b. targeted families (byte-level / spelling-level concretisations of the model's cases)
        if prop == "C01":
            fam = []
            for codes in C01_CODES:
                for appids in ({"A": "appid", "B": "appid"}, {"A": "appid", "B": "appid2"}, {"A": "app\ufb01d", "B": "appfid"}):
                    for order in ("abandoned-parked", "a-first", "b-first", "late", "stash", "version-first"):
                        if quick and order in ("b-first",) and codes != C01_CODES[0]:
                            continue
                        fam.append((codes, appids, order))
            # application ids that differ only in what a tidy mind might fold away: letter case (of the domain part, of the path),
            # surrounding blanks, a doubled or trailing slash, a compatibility character - each is a different application id
            for appids in ({"A": "Example.com/app", "B": "example.com/app"}, {"A": "APPID", "B": "appid"}, {"A": "appid", "B": "appid "},
                           {"A": "lothar.com/wormhole/x", "B": "lothar.com/wormhole/X"}, {"A": "a.b/c", "B": "a.b//c"},
                           {"A": "a.b/c", "B": "a.b/c/"}, {"A": "\uff41ppid", "B": "appid"}):
                for order in (("a-first",) if quick else ("a-first", "late", "version-first")):
                    fam.append((C01_CODES[0], appids, order))
            for (codes, appids, order) in fam:
                tid += 1
                try:
                    run_, goal, drained = c01_case(tid, codes, appids, order, rng)
                except Exception as e:
                    cov.setdefault("family_errors", []).append(repr(e)[:120])
                    continue
                runs[tid] = run_
                records.append(run_.finish(drained, goal=goal))
            cov["c01_family_cases"] = len(fam)
        if prop == "C02":
            ops = [{"op": "side", "v": "own"}, {"op": "side", "v": "x"}, {"op": "phase", "v": "pake"}, {"op": "phase", "v": "version"},
                   {"op": "phase", "v": "0"}, {"op": "phase", "v": "1"}, {"op": "phase", "v": "7"},
                   {"op": "flip", "where": "first"}, {"op": "flip", "where": "last"}, {"op": "flip", "where": "mid"}, {"op": "flip", "where": "rand"},
                   {"op": "truncate"}, {"op": "extend"}, {"op": "replay", "v": "1"}, {"op": "replay", "v": "version"},
                   {"op": "side", "v": "own+"}, {"op": "side", "v": "peer+"}, {"op": "side", "v": "+peer"},
                   {"op": "side", "v": "OWN"}, {"op": "side", "v": "PEER"}, {"op": "side", "v": "Own"},
                   {"op": "phase", "v": "0\u0661"}, {"op": "phase", "v": "\u0660" + "1"}, {"op": "phase", "v": "versi\u00f6n"},
                   {"op": "replay", "v": "0\u0661"}, {"op": "replay", "v": "1\u0660"}, {"op": "replay", "v": "\u0660" + "2"},
                   {"op": "replay-next", "v": "1"}, {"op": "replay-next", "v": "0"}, {"op": "replay-next", "v": "version"},
                   {"op": "replay-next", "v": "2"}, {"op": "replay-next", "v": "1", "side": "f0f0f0f0f0"},
                   {"op": "replay-next", "v": "0", "side": "f0f0f0f0f0"},
                   {"op": "replay-next", "v": "1", "end": True}, {"op": "replay-next", "v": "3", "end": True}]
            n = 0
            for victim in ("A", "B"):
                for idx in range(7):
                    for op in ops:
                        if quick and (idx + len(op.get("v", "")) + n) % 3 and victim == "B":
                            n += 1
                            continue
                        n += 1
                        tid += 1
                        try:
                            run_, goal, drained = c02_case(tid, victim, idx, op, random.Random(seed * 77 + tid))
                        except Exception as e:
                            cov.setdefault("family_errors", []).append(repr(e)[:120])
                            continue
                        runs[tid] = run_
                        records.append(run_.finish(drained, goal=False))
            cov["c02_family_cases"] = n
            nrr = 0
            for victim in ("A", "B"):
                for keep in (("version",), ("version", "0", "1"), ("0", "1"), ("1",), ("pake", "version", "0", "1"), ("pake",)):
                    for order in ("stored", "pake-last", "reversed"):
                        tid += 1
                        nrr += 1
                        try:
                            run_, goal, drained = c02_reconnect_replay_case(tid, victim, keep, order)
                        except Exception as e:
                            cov.setdefault("family_errors", []).append(repr(e)[:120])
                            continue
                        runs[tid] = run_
                        records.append(run_.finish(drained, goal=False))
            # labels whose concatenation coincides (side S, phase "10" shown as side S+"1", phase "0"; "11" as S+"1", "1"; ...)
            n = 0
            for victim in ("A", "B"):
                for whose in ("peer", "own"):
                    for src_phase in (("10",) if quick else ("10", "11")):
                        tid += 1
                        n += 1
                        try:
                            run_, goal, drained = c02_label_join_case(tid, victim, whose, src_phase)
                        except Exception as e:
                            cov.setdefault("family_errors", []).append("label-join %s %s: %r" % (victim, whose, e))
                            continue
                        runs[tid] = run_
                        records.append(run_.finish(drained, goal=False))
            cov["label_join_cases"] = n
            # long sessions: whatever a client remembers about what it has already processed must not wear out with the number
            # of messages (70 and 150 from each side before the replay)
            for victim, keep, nm in (("A", None, 70), ("B", ("version",), 70), ("A", ("pake", "version"), 150)):
                tid += 1
                nrr += 1
                try:
                    kp = keep if keep is not None else tuple(["pake", "version"] + [str(i) for i in range(nm)])
                    run_, goal, drained = c02_reconnect_replay_case(tid, victim, kp, "stored", nmsgs=nm)
                except Exception as e:
                    cov.setdefault("family_errors", []).append(repr(e)[:120])
                    continue
                runs[tid] = run_
                records.append(run_.finish(drained, goal=False))
            cov["c02_reconnect_replay_cases"] = nrr
            npre = nok = 0
            for n_ in (0, 1, 2):
                for relabel in ([0], [0, 1, 2, 3], [1], [2]):
                    for newside in ("x", "own", "x2"):
                        for tp in (False, True):
                            tid += 1
                            npre += 1
                            try:
                                run_, goal, drained, ok = c02_prepake_case(tid, n_, relabel, newside, tp)
                            except Exception as e:
                                cov.setdefault("family_errors", []).append(repr(e)[:120])
                                continue
                            nok += bool(ok)
                            runs[tid] = run_
                            records.append(run_.finish(drained, goal=False))
            cov["c02_prepake_cases"] = npre
            cov["c02_prepake_reordered"] = nok
        if prop in ("C03", "C09", "C18", "C14"):
            # (C14: "reordered delivery" is conformant server behaviour - every arrival order of version + 3 messages, once each)
            import itertools
            fam = []
            for n_ in ((2, 3, 4) if prop not in ("C18", "C14") else (3,)):
                for perm in itertools.permutations(range(n_ + 1)):
                    fam.append((n_, perm))
            # more than ten messages: two-digit phases, the late ones overtaking the early ones
            ident = list(range(13))
            fam_long = [(12, tuple(ident)), (12, tuple([0, 11] + ident[1:11] + [12])), (12, tuple([0, 12, 11] + ident[1:11])),
                        (12, tuple([0] + ident[:0:-1])), (12, tuple([11, 0, 12] + ident[1:11]))]
            frng = random.Random(seed * 31 + 3)
            if quick and len(fam) > 60:
                fam = fam[:30] + frng.sample(fam[30:], 30)
            fam = fam + (fam_long if prop not in ("C18", "C14") else [])
            nperm = 0
            for (n_, perm) in fam:
                for reconnect in ((None, frng.randrange(0, n_ + 1), "lazy") if prop not in ("C18", "C14") else (None,)):
                    tid += 1
                    try:
                        run_, goal, drained, ok = c03_case(tid, n_, list(perm), None if reconnect == "lazy" else reconnect, frng,
                                                           lazy=(reconnect == "lazy"))
                    except Exception as e:
                        cov.setdefault("family_errors", []).append(repr(e)[:120])
                        continue
                    nperm += bool(ok)
                    runs[tid] = run_
                    records.append(run_.finish(drained, goal=goal))
            cov["c03_family_cases"] = 3 * len(fam)
            cov["c03_family_permuted"] = nperm
        if prop in ("C14", "C02"):
            n = nok = 0
            for point in ("start", "after-key", "after-versions", "end"):
                for kind in ("pake-valid", "pake-copy", "pake-junk", "version", "0") + (
                        ("pake-nonutf8", "pake-list", "pake-nonhex", "pake-nonstr", "pake-notelem", "pake-short", "pake-empty") if point == "start" else ()):
                    tid += 1
                    n += 1
                    try:
                        run_, goal, drained, ok = third_party_case(tid, point, kind)
                    except Exception as e:
                        cov.setdefault("family_errors", []).append("third party %s %s: %r" % (point, kind, e))
                        continue
                    nok += bool(ok)
                    runs[tid] = run_
                    records.append(run_.finish(drained, goal=False))
            cov["third_party_cases"] = n
            cov["third_party_injected"] = nok
        if prop in ("C03", "C09", "C14", "C18"):
            n = nok = 0
            for who in ("A", "B"):
                for during in (0, 1, 2):
                    for after in (0, 1):
                        tid += 1
                        n += 1
                        try:
                            run_, goal, drained, ok = srvclose_case(tid, during, after, who)
                        except Exception as e:
                            cov.setdefault("family_errors", []).append(repr(e)[:120])
                            continue
                        nok += bool(ok)
                        runs[tid] = run_
                        records.append(run_.finish(drained, goal=goal))
            cov["srvclose_family_cases"] = n
            cov["srvclose_family_as_intended"] = nok
        if prop in ("C09", "C03", "C08"):
            # family: outages of many failed connection attempts in a row (the environment decides when the server is back)
            n = nok = 0
            for who, k_, both in ((("A", 3, False), ("B", 9, False), ("A", 14, True)) if quick else
                                  [(w_, kk, b_) for w_ in ("A", "B") for kk in (1, 5, 8, 9, 12, 20, 33) for b_ in (False, True)]):
                tid += 1
                n += 1
                try:
                    run_, goal, drained, ok = long_outage_case(tid, k_, who, both)
                except Exception as e:
                    cov.setdefault("family_errors", []).append(repr(e)[:120])
                    continue
                nok += bool(ok)
                runs[tid] = run_
                # (the server is reachable again and nobody closed: everything is due, wherever the wormholes ended up)
                records.append(run_.finish(drained, goal=True))
            cov["long_outage_cases"] = n
            cov["long_outage_as_intended"] = nok
        if prop in ("C18", "C09", "C03"):
            n = nok = 0
            for side in ("A", "B"):
                for k_ in (1, 2, 3):
                    for j_ in range(0, k_ + 2):
                        tid += 1
                        n += 1
                        try:
                            run_, goal, drained, ok = c09_unechoed_case(tid, k_, j_, side)
                        except Exception as e:
                            cov.setdefault("family_errors", []).append(repr(e)[:120])
                            continue
                        nok += bool(ok)
                        runs[tid] = run_
                        records.append(run_.finish(drained, goal=goal))
            cov["unechoed_family_cases"] = n
            cov["unechoed_family_as_intended"] = nok
        if prop == "C18":
            n = 0
            for kind in ("welcome", "code", "key", "verifier", "versions", "message"):
                for nmsgs in (1, 3):
                    for then_close in (False, True):
                        tid += 1
                        n += 1
                        try:
                            run_, goal, drained = c18_raise_case(tid, kind, nmsgs, then_close)
                        except Exception as e:
                            cov.setdefault("family_errors", []).append(repr(e)[:120])
                            continue
                        runs[tid] = run_
                        records.append(run_.finish(drained, goal=False))
            cov["c18_raise_cases"] = n
        if prop == "C18":
            # the whole stack: the same applications on two wormholes whose Dilation layer is busy (witness behaviours of
            # DilationL3.tla); the applications' events and their outstanding / late get_*() calls judged as everywhere else
            import types
            from . import dil_full
            fam, goals_ = dil_full.app_events_family(wd, prop, quick, seed)
            nfs = 0
            for mrec, info in fam:
                if mrec is None:
                    cov.setdefault("family_errors", []).append("full-stack %s: %s" % (info.get("goal"), info.get("error")))
                    continue
                nfs += 1
                runs[mrec["tid"]] = types.SimpleNamespace(nontrivial={"AppClose", "Dilation:" + info["goal"]},
                                                          schedule=[{"a": "FullStack", **info}])
                records.append(mrec)
            cov["full_stack_app_cases"] = nfs
            cov["full_stack_witness_goals"] = goals_
            n = 0
            for n_ in (1, 2, 3):
                for peer in (False, True):
                    for kinds in (("message",), ("verifier", "versions", "key") if not peer else ("message", "message"),
                                  ("message", "verifier", "versions", "key", "welcome", "code")):
                        tid += 1
                        n += 1
                        try:
                            run_, goal, drained = c18_outstanding_case(tid, n_, kinds, peer)
                        except Exception as e:
                            cov.setdefault("family_errors", []).append(repr(e)[:120])
                            continue
                        runs[tid] = run_
                        records.append(run_.finish(drained, goal=False))
            for how in ("set", "input", "deliver"):
                for when in (1, 2, 3, 4):
                    tid += 1
                    n += 1
                    try:
                        run_, goal, drained = c18_chase_case(tid, how, when)
                    except Exception as e:
                        cov.setdefault("family_errors", []).append("chase %s %d: %r" % (how, when, e))
                        continue
                    runs[tid] = run_
                    records.append(run_.finish(drained, goal=False))
            for how in ("happy", "wrong", "pending", "pending3"):
                for k_ in range(0, 4):
                    for j_ in range(0, k_ + 1):
                        tid += 1
                        n += 1
                        try:
                            run_, goal, drained = c18_case(tid, k_, j_ if how != "wrong" else 0, how)
                        except Exception as e:
                            cov.setdefault("family_errors", []).append(repr(e)[:120])
                            continue
                        runs[tid] = run_
                        records.append(run_.finish(drained, goal=False))
            cov["c18_family_cases"] = n
        if prop == "C08":
            # "nothing is delivered to the application after it": a Deferred-mode application that has not read everything when
            # the wormhole closes asks afterwards (the lazy family of C18, judged here by the same LateGets)
            n = 0
            for how in ("happy", "wrong", "pending"):
                for k_ in range(0, 4):
                    for j_ in sorted({0, k_ // 2, k_}):
                        tid += 1
                        n += 1
                        try:
                            run_, goal, drained = c18_case(tid, k_, j_ if how != "wrong" else 0, how)
                        except Exception as e:
                            cov.setdefault("family_errors", []).append(repr(e)[:120])
                            continue
                        runs[tid] = run_
                        records.append(run_.finish(drained, goal=False))
            cov["c08_unread_at_close_cases"] = n
        if prop in ("C18", "C03", "C14"):
            n = 0
            for mode in ("delegated", "deferred"):
                for how in ("first", "replay", "pairs"):
                    for n_ in (0, 2):
                        tid += 1
                        n += 1
                        try:
                            run_, goal, drained = burst_case(tid, mode, n_, how)
                        except Exception as e:
                            cov.setdefault("family_errors", []).append("burst %s %s: %r" % (mode, how, e))
                            continue
                        runs[tid] = run_
                        records.append(run_.finish(drained, goal=goal))
            cov["burst_cases"] = n
        if prop in ("C14", "C19"):
            n = 0
            for mode in ("deferred", "delegated"):
                for words_when in ("after-claim", "before-claim"):
                    for peer_first in (False, True):
                        tid += 1
                        n += 1
                        try:
                            run_, goal, drained = input_callback_case(tid, mode, words_when, peer_first)
                        except Exception as e:
                            cov.setdefault("family_errors", []).append("input-callback %s %s: %r" % (mode, words_when, e))
                            continue
                        runs[tid] = run_
                        records.append(run_.finish(drained, goal=goal))
            cov["input_callback_cases"] = n
        if prop in ("C08", "C14", "C09"):
            # family: close() on wormholes whose applications use Dilation (peer dilating, merely capable, or an old client)
            n = 0
            for peer in ("dilates", "capable", "old"):
                for when in ("early", "mid", "late"):
                    for who in (("A",), ("A", "B"), ("B", "A")):
                        tid += 1
                        n += 1
                        try:
                            run_, goal, drained = dilate_close_case(tid, peer, when, who)
                        except Exception as e:
                            cov.setdefault("family_errors", []).append("dilate-close %s %s %s: %r" % (peer, when, who, e))
                            continue
                        runs[tid] = run_
                        records.append(run_.finish(drained, goal=False))
            cov["dilate_close_cases"] = n
        if prop in ("C14", "C18", "C03", "C02", "C09"):
            # family: application messages next to Dilation's own mailbox traffic (dilate-N phases), every arrival order
            import itertools
            n = 0
            for who in (("A", "B"), ("B",), ("A",)):
                for perm in (range(len(who), 120, 5) if quick else range(120)):
                    for n_ in ((2,) if quick else (1, 2, 3)):
                        tid += 1
                        n += 1
                        try:
                            run_, goal, drained, ok = dilating_case(tid, n_, perm * (1 if n_ < 3 else 6), who, hold_version=bool(perm % 2))
                        except Exception as e:
                            cov.setdefault("family_errors", []).append("dilating %s %s: %r" % (who, perm, e))
                            continue
                        runs[tid] = run_
                        records.append(run_.finish(drained, goal=False))
            cov["dilating_family_cases"] = n
        # ---- 3. code -> spec: random schedules on the real system
        nrand = 120 if quick else 1200
        nlazy = 0
        for _ in range(nrand):
            tid += 1
            run_, goal, drained = random_real_walk(tid, rng, prop, steps=rng.choice([25, 40, 60]))
            runs[tid] = run_
            if any(c.lazy or getattr(c, "chasing", False) for c in run_.world.clients.values()):
                nlazy += 1          # the model's application takes messages as they come: not trace-validated
            else:
                lines += run_.lines
            records.append(run_.finish(drained, goal=goal))
        cov["lazy_application_runs"] = nlazy
        cov.setdefault("timing", {})["tlc_exhaustive_s"] = round(sum(c["wall_s"] for c in cov["tlc_configs"].values()), 1)
        cov["timing"]["tlc_exhaustive_note"] = "sum of the configurations' wall times; in the quick tier three run at a time"
        cov["timing"]["real_runs_s"] = round(time.time() - t1 - cov["timing"]["simulate_s"], 1)
        t1 = time.time()
        tv, rtv = run_trace_validation(wd, lines, nrand - nlazy)
        cov["timing"]["trace_validation_s"] = round(time.time() - t1, 1)
        cov["trace_lines"] = len(lines)
        accepted = sum(1 for t, (a, b) in tv.items() if a == b)
        rejected = [(t, a, b) for t, (a, b) in tv.items() if a != b]
        cov["traces_validated_against_impl"] = accepted
        cov["traces_rejected"] = len(rejected)
        for (t, a, b) in rejected[:5]:
            cov["drift"].append({"tid": t, "trace_rejected_at_line": a + 1, "of": b,
                                 "action": runs[t].lines[a]["a"] if a < len(runs[t].lines) else None})
        # ---- 4. the observer decides
        verdicts, robs = run_observer(wd, records)
        cov["exercised"] = {n: EXERCISED.get(n, 0) for n in DECIDES[prop]}
        cov["supplementary"] = {
            "note": "beyond the listed properties (evidence only): WormholeStatus reports are modelled in Wormhole.tla and compared in both "
                    "conformance directions; StatusConsistent / StatusMonotone are checked by TLC in every configuration and "
                    "MailboxObs.P_StatusSane on every recorded real execution",
            "model_invariants": SUPPLEMENTARY_INVARIANTS + SUPPLEMENTARY_PROPERTIES, "model_violations": supp_model,
            "observer": {n: {"runs_with_something_to_judge": EXERCISED.get(n, 0),
                             "false_on": [t for t in sorted(verdicts) if not verdicts[t][n]][:10]} for n in SUPPLEMENTARY}}
        for n, k in cov["exercised"].items():
            if k == 0:
                cov.setdefault("notes", []).append("vacuous: no run gave predicate %s anything to judge" % n)
        failing = 0
        nontrivial = set()
        for rec in records:
            t = rec["tid"]
            nt = runs[t].nontrivial
            if nt:
                nontrivial.add((tuple(sorted(nt)), tuple(a["a"] for a in runs[t].schedule)[:40]))
            bad = [n for n in DECIDES[prop] if not verdicts[t][n]]
            if bad:
                failing += 1
                sig = signature(prop, bad, rec)
                v.violation(sig, "%s fails on a real execution (origin %s): %s" % (",".join(bad), rec.get("origin"), json.dumps(sig)),
                            {"schedule": runs[t].schedule, "observation": rec})
        cov.update(states=states, transitions=transitions, evaluations=len(records),
                   distinct_nontrivial=len(nontrivial), failing_runs=failing,
                   rule="a run = one schedule of environment actions executed on two real wormholes; non-trivial = contains a "
                        "drop/dup/swap/tamper/inject/close/late frame/allocate/input action; distinct = distinct action sequences",
                   observer_predicates=DECIDES[prop], model_invariants=MODEL_INVARIANTS[prop])
        for rec in records[:2] + records[-1:]:
            cov["samples"].append({"origin": rec.get("origin"), "schedule": runs[rec["tid"]].schedule[:60],
                                   "events": {c: [e["k"] + ":" + e["v"] for e in rec["cl"][c]["ev"]] for c in rec["cl"]}})
        if prop in ("C18", "C03", "C08"):
            # the notification layer on its own (Notify.tla): observers and eventual queue under a Deferred-mode application
            from . import notify
            t1 = time.time()
            cov["notification_layer"] = notify.run_family(wd, quick, seed, v, prop)
            cov["timing"]["notification_layer_s"] = round(time.time() - t1, 1)
    return cov


ASSUMPTIONS = [
    "TLC results hold for the listed constants only (2 clients, bounded sends/drops/faults)",
    "cryptography is symbolic in the model; real SPAKE2/NaCl/HKDF are exercised in the replayed executions",
    "autobahn/Twisted are replaced by the simulated reactor and FakeWS (harness/sim.py, mbworld.py)",
    "the Python server twin (harness/mbserver.py) stands for a conformant mailbox server",
]


def signature(prop, bad, rec):
    sig = {"clause": bad[0]}
    if "NoInternal" in bad and rec.get("internal"):
        first = rec["internal"][0]
        sig["internal"] = normalise_internal(first)
    return sig


def normalise_internal(s):
    """'A:ws_message:NoTransition(...)' -> stable description without client name and memory addresses"""
    import re
    s = re.sub(r"^[AB-]:", "", s)
    s = re.sub(r"0x[0-9a-f]+", "0x", s)
    m = re.search(r"NoTransition.*?function (\w+)\.(\w+) at 0x.*?function (\w+)\.(\w+) at 0x", s)
    if m:
        return "NoTransition:%s:%s:%s" % (m.group(3), m.group(4), m.group(2))
    s = re.sub(r"^(ws_\w+|api:\w+|connectionLost|timer|log):", "", s)
    return s.split("(")[0][:120]
