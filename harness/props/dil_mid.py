"""C10 (exactly-once in-order records across reconnects) and C13 (subchannel semantics).

spec/DilationL4.tla and spec/DilationSub.tla (which uses the SubChannel table extracted from the tree)
are model-checked by TLC; their behaviours are replayed on two real Managers with real Outbound /
Inbound / SubChannel / endpoint objects over scripted L2 connections (harness/dilmid.py), comparing what
the applications on both sides saw after every step; DilMidObs.tla decides on the recorded executions.
"""
import json
import os
import random

from .. import common, tlc
from ..common import Raw
from ..dilmid import DilMidWorld, Open, Data, Close, Ack
from ..mbworld import machine_state

OBS_NAMES = ["InOrderOnce", "Goal", "OpensOnce", "NothingAfterLost", "DataInOrder", "IdsDisjoint", "UnexpectedRefused",
             "WriteAfterCloseErrors", "NoInternal", "CloseOnce"]

# the application script of C10: operation k of the model is this (each produces exactly one record)
SCRIPT = [("open", 1), ("write", 1), ("write", 1), ("open", 2), ("write", 2), ("close", 1), ("write", 2), ("close", 2),
          ("open", 3), ("write", 3)]


class L4Run:
    """one C10 execution: records flow from side `a` to the other side"""

    def __init__(self, a, seed, real=False, late_listen=None):
        self.a, self.b = a, ("F" if a == "L" else "L")
        # late_listen = n: the receiving application registers its listener only after n steps (or at the end): whatever
        # arrived for its subchannels before is held and handed over then - per subchannel still open, data, close in order
        self.late_listen = late_listen
        self.listening = late_listen is None
        if real:
            from ..dilreal import RealLinkWorld
            self.w = RealLinkWorld()
        else:
            self.w = DilMidWorld()
        self.real = real
        # every other run the receiving application answers each piece of data (bidirectional traffic on the subchannels)
        self.echo = (seed % 2 == 0)
        if self.echo:
            self.w.echo_side = self.b
        self.w.connect()
        if self.listening:
            self.w.listen(self.b, "p")
        self.w.pump()
        self.protos = {}
        self.issued = []
        self.rng = random.Random(seed)
        self.schedule = []
        self.errors = []

    def _payload(self, k):
        # write sizes: empty but for the tag, tiny, and - on the real L2 connection - around the Noise packet limit (a record
        # of 65520..65535 encoded bytes does not fit one packet) and beyond
        sizes = {1: 1, 2: 65515 if self.real else 5, 4: 70000, 6: 0, 9: 65498 if self.real else 3}
        return (b"op%03d:" % k) + bytes([k % 251]) * sizes.get(k, 3)

    def do(self, la):
        w = self.w
        a = la[0]
        self.schedule.append(list(la))
        if a == "AppSend":
            k = la[1]
            op, sc = SCRIPT[k % len(SCRIPT)]
            try:
                if op == "open":
                    self.protos[sc] = w.open(self.a, "p")
                elif op == "write":
                    self.protos[sc].transport.write(self._payload(k))
                else:
                    self.protos[sc].transport.loseConnection()
            except Exception as e:
                self.errors.append(repr(e)[:100])
            self.issued.append(k)
        elif a == "DeliverRec":
            self._deliver_until(self.a, (Open, Data, Close))
        elif a == "DeliverAck":
            self._deliver_until(self.b, (Ack,))
        elif a == "Cut":
            w.cut()
        elif a == "LossA":
            w.observe_loss(self.a)
        elif a == "LossB":
            w.observe_loss(self.b)
        elif a == "Reconnect":
            for _ in range(4):
                if not w.mailbox_pump():
                    break
            q = len(w.sides[self.a].m._outbound._outbound_queue)
            if not self.real and len(la) > 1 and la[1] < q:
                w.pause_after[self.a] = la[1]       # the send buffer fills after la[1] of the q records to re-send
            w.connect()
        elif a == "Drain":
            conn = w.sides[self.a].conn
            left = len(w.sides[self.a].m._outbound._queued_unsent)
            conn.drained(la[1] if la[1] < left else None)
        elif a == "ReconnectA":
            # the Leader (= side a) selects the new connection: KCM, then its whole queue again; the KCM makes
            # the Follower's end a candidate
            for _ in range(4):
                if not w.mailbox_pump():
                    break
            w.handshake()
            w.select(self.a)
            while w.pending[self.a].out and not w.pending[self.b].candidate:
                w.deliver(self.a)
        elif a == "SelectB":
            w.select(self.b)
        w.settle()
        if not self.listening and len(self.schedule) >= self.late_listen:
            self._listen_now()

    def _listen_now(self):
        self.listening = True
        try:
            self.w.listen(self.b, "p")
        except Exception as e:
            self.errors.append("listen: " + repr(e)[:100])
        self.w.settle()

    def run_out(self):
        """after the last step of a witness: observe losses, reconnect if needed, select, deliver everything"""
        w = self.w
        if not self.listening:
            self._listen_now()
        if not w.up:
            w.observe_loss(self.a)
            w.observe_loss(self.b)
            self.do(("ReconnectA", 0) if self.real else ("Reconnect", 0))
        if self.real and w.can_select(self.b):
            self.do(("SelectB", 0))
        if not self.real:
            for _ in range(20):
                c = w.sides[self.a].conn
                if c is None or not w.sides[self.a].m._outbound._queued_unsent:
                    break
                c.drained(None)
        w.pump()

    def _deliver_until(self, frm, kinds):
        s = self.w.sides[frm]
        for _ in range(50):
            if s.conn is None or not s.conn.out:
                return
            r = s.conn.out[0]
            if self.w.deliver(frm) == 0:
                return
            if isinstance(r, kinds):
                return

    def delivered(self):
        """operation indexes the receiving application has seen, in order"""
        out = []
        seen_sc = {}
        for ev in self.w.app_events:
            if ev[0] != self.b:
                continue
            label = ev[1]
            if ev[2] == "made":
                # the n-th accepted subchannel corresponds to the n-th "open" operation
                n = len(seen_sc) + 1
                seen_sc[label] = n
                out.append(self._op_index("open", n))
            elif ev[2] == "data":
                data = ev[3]
                if data[:2] == b"op" and data[5:6] == b":" and data == self._payload(int(data[2:5])):
                    out.append(int(data[2:5]))
                else:
                    out.append(-1)
            elif ev[2] == "lost":
                out.append(self._op_index("close", seen_sc.get(label, 0)))
        return out

    def _op_index(self, op, sc):
        for k in self.issued:
            if SCRIPT[k % len(SCRIPT)] == (op, sc) and k < len(SCRIPT):
                return k
        return -2

    def echoes(self):
        """-> per subchannel opened by a: what its protocol received, and the answers expected to what was written on it"""
        expected = {}
        for k in self.issued:
            if 0 <= k < len(SCRIPT) and SCRIPT[k][0] == "write":
                expected.setdefault(SCRIPT[k][1], []).append((b"echo:" + self._payload(k)[:64]).decode("latin-1"))
        out = []
        for sc, p in sorted(self.protos.items()):
            got = [e[1].decode("latin-1") for e in getattr(p, "log", []) if e[0] == "data"]
            out.append({"got": got, "expected": expected.get(sc, [])})
        return out

    def per_sub(self):
        """issued and delivered operation indexes grouped by subchannel (the order the statement promises when the
        listener came late: per subchannel)"""
        def group(ops):
            g = {}
            for k in ops:
                if 0 <= k < len(SCRIPT):
                    g.setdefault(SCRIPT[k][1], []).append(k)
                else:
                    g.setdefault(0, []).append(k)
            return g
        gi, gd = group(self.issued), group(self.delivered())
        scs = sorted(set(gi) | set(gd))
        return {"issued": [gi.get(sc, []) for sc in scs], "delivered": [gd.get(sc, []) for sc in scs]}

    def finish(self, tid):
        w = self.w
        if not self.listening:
            self._listen_now()
        quiet = w.up and all(s.conn is not None and s.conn.alive for s in w.sides.values())
        if quiet:
            if not self.real:
                # "quiet" includes the transport having drained: whatever the Outbound still holds back goes out
                for _ in range(20):
                    c = w.sides[self.a].conn
                    if c is None or not w.sides[self.a].m._outbound._queued_unsent:
                        break
                    c.drained(None)
            w.pump()
        rec = {"tid": tid, "kind": "l4", "issued": list(self.issued), "delivered": self.delivered(), "goal": bool(quiet),
               "internal": [repr(e)[:120] for e in w.logged] + self.errors + [repr(e)[:100] for s in w.sides.values() for e in s.errors],
               "ends": {}, "pendingUnexpected": 0, "scids": {"L": [], "F": []}, "afterCloseOK": True,
               "lateListen": self.late_listen is not None, "perSub": self.per_sub(),
               # the other direction of each close: the subchannel a closed is reported lost to a's application once the
               # peer's CLOSE has come back (it travels - and is re-sent after a loss - like every other record)
               # what came back (echo runs): per subchannel a prefix of the answers to what was written on it, in order, once
               "echoes": self.echoes(), "echoErrors": list(getattr(w, "echo_errors", [])),
               "closedByOpener": sum(1 for k in self.issued if 0 <= k < len(SCRIPT) and SCRIPT[k][0] == "close"),
               "lostAtOpener": sum(1 for ev in w.app_events if ev[0] == self.a and ev[2] == "lost")}
        w.close()
        return rec


L4_T_PROJ = ("[issued |-> issued, oq |-> oq, unsent |-> unsent, apaused |-> apaused, connA |-> connA, connB |-> connB, "
             "linkUp |-> linkUp, wire |-> wire, acks |-> acks, wm |-> wm, delivered |-> delivered]")


def l4_projection(run):
    """the real objects seen through DilationL4.tla's variables"""
    w = run.w
    A, B = w.sides[run.a], w.sides[run.b]
    ob = A.m._outbound
    seqd = (Open, Data, Close)
    return {"issued": list(run.issued),
            "oq": [r.seqnum for r in ob._outbound_queue],
            "unsent": [r.seqnum for r in ob._queued_unsent],
            "apaused": bool(ob._paused),
            "connA": ob._connection is not None, "connB": B.m._outbound._connection is not None,
            "linkUp": bool(w.up),
            "wire": [r.seqnum for r in (A.conn.out if A.conn is not None and w.up else ()) if isinstance(r, seqd)],
            "acks": [r.resp_seqnum for r in (B.conn.out if B.conn is not None and w.up else ()) if isinstance(r, Ack)],
            "wm": B.m._inbound._highest_inbound_acked + 1,
            "delivered": run.delivered()}


def l4_real_enabled(run, consts, cuts):
    w = run.w
    A, B = w.sides[run.a], w.sides[run.b]
    ob = A.m._outbound
    seqd = (Open, Data, Close)
    acts = []
    if len(run.issued) < consts["MaxRecords"]:
        acts += [("AppSend", len(run.issued))] * 2
    if w.up:
        wire = [r for r in (A.conn.out if A.conn is not None else ()) if isinstance(r, seqd)]
        if wire and B.conn is not None and B.conn.alive:
            acts += [("DeliverRec", wire[0].seqnum)] * 3
        acks = [r for r in (B.conn.out if B.conn is not None else ()) if isinstance(r, Ack)]
        if acks and A.conn is not None and A.conn.alive:
            acts += [("DeliverAck", acks[0].resp_seqnum)] * 2
        if cuts < consts["MaxCuts"]:
            acts.append(("Cut", cuts + 1))
        if consts["Backpressure"] and ob._connection is not None and ob._paused and ob._queued_unsent:
            n = len(ob._queued_unsent)
            acts += [("Drain", j) for j in range(1, n + 1)]
    else:
        if A.conn is not None and A.conn.alive:
            acts.append(("LossA", 0))
        if B.conn is not None and B.conn.alive:
            acts.append(("LossB", 0))
        if not (A.conn is not None and A.conn.alive) and not (B.conn is not None and B.conn.alive):
            q = len(ob._outbound_queue)
            ks = list(range(1, q + 1)) if (consts["Backpressure"] and q) else [q]
            acts += [("Reconnect", k) for k in ks]
    return acts


def l4_walk(tid, consts, a, rng, nsteps=45):
    """Code -> spec for C10: a seeded random walk over what two real Managers (Outbound, Inbound, SubChannels) over a
    scripted L2 connection offer - application operations, deliveries of records and acks, cuts, each side noticing,
    re-selection, the transport draining - recorded for validation against DilationL4.tla."""
    run = L4Run(a, 2 * tid + 1, real=False, late_listen=None)     # odd seed: no echo traffic
    lines = []
    cuts = 0
    for _ in range(nsteps):
        acts = l4_real_enabled(run, consts, cuts)
        if not acts:
            break
        la = rng.choice(acts)
        run.do(la)
        if la[0] == "Cut":
            cuts += 1
        lines.append({"a": list(la), "proj": l4_projection(run)})
    return run, lines


def full_stack_case(tid, writer, npre, ndeliver, nduring, nafter, cuts):
    """C10 on the whole stack: two real dilating wormholes (real Connector, DilatedConnectionProtocol, Noise stand-in, mailbox
    twin).  `writer`'s application opens a subchannel and writes npre records; ndeliver units written by the writer's end of the
    link in use reach the peer (their acks may or may not come back); the network cuts that link; nduring more records are
    written while there is no connection; the run is completed fairly (loss noticed, reconnect through the mailbox, new
    connection, everything in flight delivered); nafter more records; `cuts` times over.  At rest the reader's application must
    have every record exactly once, in order - the same InOrderOnce / Goal the scripted-L2 runs are judged by."""
    from .dil_full import FullWorld
    from twisted.internet import protocol as tproto
    fw = FullWorld(variant=tid)
    fw.units_first = bool(tid % 2)
    reader = "F" if writer == "L" else "L"
    got, issued, errors = [], [], []
    lost = []

    class P(tproto.Protocol):
        def dataReceived(self, data):
            if self.side == reader:
                got.append(bytes(data))

        def connectionLost(self, reason=None):
            lost.append(self.side)

    def fac(side):
        f = tproto.Factory()
        f.buildProtocol = lambda addr: type("P_" + side, (P,), {"side": side})()
        return f
    fw.do(("AppDilate", "L", 0))
    fw.do(("AppDilate", "F", 0))
    rested = fw.run_out()
    conn = []
    try:
        fw.api[reader].listener_for("p").listen(fac(reader))
        d = fw.api[writer].connector_for("p").connect(fac(writer))
        d.addCallbacks(conn.append, lambda f: errors.append("connect: %r" % (f.value,)))
        fw.run_auto_timers()
    except Exception as e:
        errors.append("open: %r" % (e,))

    def write(k):
        for _ in range(k):
            payload = b"rec%03d:" % len(issued) + bytes([len(issued) % 251]) * (3 + 5 * len(issued))
            issued.append(payload)
            try:
                conn[0].transport.write(payload)
            except Exception as e:
                errors.append("write: %r" % (e,))
        fw.run_auto_timers()
    for round_ in range(cuts):
        if not conn:
            break
        write(npre)
        sel = fw.selected_links(writer)
        if sel:
            link = fw.links[sel[0]]
            e = fw.end_of(link, writer)
            for j in range(ndeliver):
                if link.can_deliver(e):
                    fw.deliver_unit(link, e)
                # every other delivered record's ack gets back before the cut
                if j % 2 == 0 and link.can_deliver(1 - e):
                    fw.deliver_unit(link, 1 - e)
            fw.do(("Cut", "-", sel[0]))
        write(nduring)
        rested = fw.run_out() and rested
        write(nafter)
        rested = fw.run_out() and rested
    if conn:
        try:
            conn[0].transport.loseConnection()
        except Exception as e:
            errors.append("close: %r" % (e,))
        rested = fw.run_out() and rested
    st = fw.state()
    internal = errors + fw.finish()
    quiet = bool(rested and conn)
    idx = {p: i for i, p in enumerate(issued)}
    delivered = [idx.get(g, -1) for g in got]
    rec = {"tid": tid, "kind": "l4", "issued": list(range(len(issued))), "delivered": delivered, "goal": quiet,
           "internal": [x for x in internal if "NoTransition" not in x or "stopped" not in x],
           "ends": {}, "pendingUnexpected": 0, "scids": {"L": [], "F": []}, "afterCloseOK": True,
           "lateListen": False, "perSub": {"issued": [list(range(len(issued)))], "delivered": [delivered]},
           "echoes": [], "echoErrors": [], "closedByOpener": 1 if conn else 0, "lostAtOpener": lost.count(writer),
           "mgr": {n: st[n]["mgr"] for n in st}}
    return rec


def both_directions_case(tid, n_l, n_f, cut, interleave):
    """C10 with traffic in both directions at once, on the whole stack: both applications listen; the Leader's opens n_l
    subchannels and the Follower's n_f (interleaved or one side first), each writes two records on each of its subchannels, the
    link in use is cut (or not) with part of that delivered, one more record on each, everything is closed by its opener, and the
    run is completed fairly.  At rest every subchannel has appeared once at the other side and *its* acceptor has exactly what
    was written to it, in order, and nothing else; no opener was handed data nobody wrote to it."""
    from .dil_full import FullWorld
    from twisted.internet import protocol as tproto
    fw = FullWorld(variant=tid)
    fw.units_first = bool(tid % 2)
    errors, stray = [], []
    accepted = {"L": [], "F": []}
    lost = []

    class P(tproto.Protocol):
        role = "acceptor"

        def connectionMade(self):
            self.got = []
            if self.role == "acceptor":
                accepted[self.side].append(self)

        def dataReceived(self, data):
            if self.role == "acceptor":
                self.got.append(bytes(data))
            else:
                stray.append("an opener at %s was handed %r" % (self.side, bytes(data)[:12]))

        def connectionLost(self, reason=None):
            if self.role == "opener":
                lost.append(self)

    def fac(side, role):
        f = tproto.Factory()
        f.buildProtocol = lambda addr: type("P_%s_%s" % (side, role), (P,), {"side": side, "role": role})()
        return f
    fw.do(("AppDilate", "L", 0))
    fw.do(("AppDilate", "F", 0))
    rested = fw.run_out()
    subs = []                  # [side, protocol or None, [payloads issued]]
    try:
        for x in ("L", "F"):
            fw.api[x].listener_for("p").listen(fac(x, "acceptor"))
        order = (["L", "F"] * max(n_l, n_f)) if interleave else (["L"] * n_l + ["F"] * n_f)
        left = {"L": n_l, "F": n_f}
        for x in order:
            if left[x] <= 0:
                continue
            left[x] -= 1
            ent = [x, None, []]
            subs.append(ent)
            d = fw.api[x].connector_for("p").connect(fac(x, "opener"))
            d.addCallbacks(lambda p, ent=ent: ent.__setitem__(1, p), lambda f: errors.append("connect: %r" % (f.value,)))
            fw.run_auto_timers()
    except Exception as e:
        errors.append("open: %r" % (e,))

    def write_all(k):
        for i, ent in enumerate(subs):
            for _ in range(k):
                payload = b"s%d-%s-%03d:" % (i, ent[0].encode(), len(ent[2])) + bytes([65 + i]) * (3 + 4 * len(ent[2]))
                ent[2].append(payload)
                if ent[1] is not None:
                    try:
                        ent[1].transport.write(payload)
                    except Exception as e:
                        errors.append("write: %r" % (e,))
        fw.run_auto_timers()
    write_all(2)
    if cut:
        sel = fw.selected_links("L")
        if sel:
            link = fw.links[sel[0]]
            for j in range(cut):
                for e in (0, 1):
                    if link.can_deliver(e):
                        fw.deliver_unit(link, e)
            fw.do(("Cut", "-", sel[0]))
    write_all(1)
    rested = fw.run_out() and rested
    nclosed = 0
    for ent in subs:
        if ent[1] is not None:
            try:
                ent[1].transport.loseConnection()
                nclosed += 1
            except Exception as e:
                errors.append("close: %r" % (e,))
    rested = fw.run_out() and rested
    st = fw.state()
    internal = errors + fw.finish()
    per_issued, per_delivered = [], []
    for i, ent in enumerate(subs):
        x, p, issued = ent
        other = "F" if x == "L" else "L"
        idx = {pl: k for k, pl in enumerate(issued)}
        sid = getattr(getattr(p, "transport", None), "_scid", None)
        acc = [a for a in accepted[other] if getattr(a.transport, "_scid", None) == sid] if sid is not None else []
        per_issued.append(list(range(len(issued))))
        per_delivered.append([idx.get(g, -1) for g in acc[0].got] if len(acc) == 1 else ([-2] if len(acc) > 1 else []))
    nacc = len(accepted["L"]) + len(accepted["F"])
    if nacc != len(subs):
        stray.append("%d subchannels were opened, %d appeared" % (len(subs), nacc))
    quiet = bool(rested and all(ent[1] is not None for ent in subs))
    rec = {"tid": tid, "kind": "l4", "issued": [], "delivered": [], "goal": quiet,
           "internal": [x for x in internal if "NoTransition" not in x or "stopped" not in x],
           "ends": {}, "pendingUnexpected": 0, "scids": {"L": [], "F": []}, "afterCloseOK": True,
           "lateListen": True, "perSub": {"issued": per_issued, "delivered": per_delivered},
           "echoes": [], "echoErrors": stray[:4], "closedByOpener": nclosed, "lostAtOpener": len(lost),
           "mgr": {n: st[n]["mgr"] for n in st}}
    return rec


def paused_burst_case(tid, writer, then):
    """Back-pressure on the receiving side meets records that have already been read: the receiving application pauses its subchannel
    from inside its first dataReceived() while more DATA - and the CLOSE - of the same subchannel are in the same TCP segment (pausing
    the peer connection only stops future reads); it resumes later (`then` = "resume"), or the connection is replaced first and the
    rest re-sent behind the next KCM (`then` = "reconnect")."""
    run = L4Run(writer, tid * 2 + 1, real=True)
    w = run.w
    state = {"p": None}

    def hook(proto):
        if state["p"] is None:
            state["p"] = proto
            proto.transport.pauseProducing()
    w.data_hooks[(run.b, "p#in1")] = hook
    try:
        for k in (0, 1, 2, 5):
            run.do(("AppSend", k))
        c = w.pending.get(writer)
        t = c.link.ends[c.end]
        if len(t.out) > 1:
            t.out[:] = [b"".join(t.out)]            # one segment
        w.pump()
        if then == "reconnect":
            run.do(("Cut",))
            w.observe_loss(run.a)
            w.observe_loss(run.b)
            run.do(("ReconnectA", 0))
            if w.can_select(run.b):
                run.do(("SelectB", 0))
            w.pump()
        if state["p"] is not None and state["p"].transport is not None:
            state["p"].transport.resumeProducing()
        w.pump()
    except Exception as e:
        run.errors.append("paused-burst: %s: %s" % (type(e).__name__, str(e)[:100]))
    run.schedule.insert(0, ["paused-burst", writer, then])
    return run.finish(tid)


def early_open_case(tid, writer, nlate):
    """Subchannels asked for before there is a connection, on the whole stack: `writer`'s application calls connect() right
    after dilate() (the OPEN waits for the first connection) and, from its when_dilated() callback, `nlate` more times.  Each
    subchannel's protocol writes its own tag when connected.  The reader's application must see the subchannels - and their
    data - in the order the connect() calls were issued."""
    from .dil_full import FullWorld
    from twisted.internet import protocol as tproto
    fw = FullWorld(variant=tid)
    fw.units_first = bool(tid % 2)
    reader = "F" if writer == "L" else "L"
    got, errors = [], []

    class R(tproto.Protocol):
        def dataReceived(self, data):
            got.append(bytes(data).decode())

    class W(tproto.Protocol):
        def connectionMade(self):
            self.transport.write(self.tag.encode())

    def wfac(tag):
        f = tproto.Factory()
        f.buildProtocol = lambda addr: type("W_" + tag, (W,), {"tag": tag})()
        return f
    issued = []

    def connect(tag):
        issued.append(tag)
        d = fw.api[writer].connector_for("p").connect(wfac(tag))
        d.addErrback(lambda f: errors.append("connect %s: %r" % (tag, f.value)))
    fw.do(("AppDilate", "L", 0))
    fw.do(("AppDilate", "F", 0))
    try:
        rf = tproto.Factory()
        rf.buildProtocol = lambda addr: R()
        fw.api[reader].listener_for("p").listen(rf)
        # (the application may ask to be told when the wormhole is dilated before or after it issues its first connect())
        def more(_):
            for k in range(nlate):
                connect("t%d" % (k + 1))
        if tid % 2:
            connect("t0")
            d = fw.api[writer].when_dilated()
            d.addCallback(more)
        else:
            d = fw.api[writer].when_dilated()
            d.addCallback(more)
            connect("t0")
        d.addErrback(lambda f: errors.append("when_dilated: %r" % (f.value,)))
    except Exception as e:
        errors.append("setup: %r" % (e,))
    rested = fw.run_out()
    internal = errors + fw.finish()
    idx = {t: i for i, t in enumerate(issued)}
    delivered = [idx.get(g, -1) for g in got]
    return {"tid": tid, "kind": "l4", "issued": list(range(len(issued))), "delivered": delivered, "goal": bool(rested) and len(issued) == nlate + 1,
            "internal": [x for x in internal if "NoTransition" not in x or "stopped" not in x],
            "ends": {}, "pendingUnexpected": 0, "scids": {"L": [], "F": []}, "afterCloseOK": True,
            "lateListen": False, "perSub": {"issued": [], "delivered": []}, "echoes": [], "echoErrors": [], "closedByOpener": 0, "lostAtOpener": 0}


def full_stack_sub_case(tid, opener, nsubs, offline, close, listen_late, units_first=False):
    """C13 on the whole stack: two real dilating wormholes; `opener`'s application opens nsubs subchannels, writes two pieces on
    each and (close) closes them - while connected, or (offline) after the network has cut the link in use, so that OPEN, DATA
    and CLOSE all wait for, and arrive with, the next connection (on the Follower's side: before its Connector has accepted
    it).  At rest every subchannel has appeared once on the other side with its data in order before its connectionLost, and the
    opener has seen connectionLost for each one it closed."""
    from .dil_full import FullWorld
    from twisted.internet import protocol as tproto
    fw = FullWorld(variant=tid)
    fw.units_first = units_first
    acceptor = "F" if opener == "L" else "L"
    logs = {}      # (side, object index) -> protocol
    built = {"L": [], "F": []}
    errors = []

    class P(tproto.Protocol):
        def connectionMade(self):
            self.log = [["made", "-"]]

        def dataReceived(self, data):
            self.log.append(["data", bytes(data).decode("latin-1")])

        def connectionLost(self, reason=None):
            self.log.append(["lost", "-"])

    def fac(side):
        f = tproto.Factory()

        def build(addr):
            p = P()
            p.log = []
            built[side].append(p)
            return p
        f.buildProtocol = build
        return f
    fw.do(("AppDilate", "L", 0))
    fw.do(("AppDilate", "F", 0))
    rested = fw.run_out()

    def listen():
        try:
            fw.api[acceptor].listener_for("p").listen(fac(acceptor))
        except Exception as e:
            errors.append("listen: %r" % (e,))
    if not listen_late:
        listen()
    if offline is True:
        sel = fw.selected_links(opener)
        if sel:
            fw.do(("Cut", "-", sel[0]))
    opened = []
    wrote = {}
    for k in range(nsubs):
        res = []
        try:
            d = fw.api[opener].connector_for("p").connect(fac(opener))
            d.addCallbacks(res.append, lambda f: errors.append("connect: %r" % (f.value,)))
            fw.run_auto_timers()
        except Exception as e:
            errors.append("open: %r" % (e,))
        if not res:
            continue
        p = res[0]
        opened.append(p)
        sid = getattr(p.transport, "_scid", None)
        wrote[sid] = []
        try:
            for j in range(2):
                data = "s%d-%d" % (k, j)
                p.transport.write(data.encode())
                wrote[sid].append(data)
            if close:
                p.transport.loseConnection()
        except Exception as e:
            errors.append("write/close: %r" % (e,))
        fw.run_auto_timers()
    if offline == "acks-lost":
        # everything the opener wrote reaches the other side; what comes back (acks, the CLOSE answers) is lost with the link:
        # the opener sends all of it again on the next connection, and the other side must recognise it
        sel = fw.selected_links(opener)
        if sel:
            link = fw.links[sel[0]]
            e = fw.end_of(link, opener)
            for _ in range(200):
                if not link.can_deliver(e):
                    break
                fw.deliver_unit(link, e)
            fw.do(("Cut", "-", sel[0]))
    rested = fw.run_out() and rested
    if listen_late:
        listen()
        rested = fw.run_out() and rested
    ends, missing = {}, []
    acc = {getattr(p.transport, "_scid", None): p for p in built[acceptor]}
    for p in opened:
        sid = getattr(p.transport, "_scid", None)
        ends["%do" % sid] = {"ev": p.log, "peerWrote": [], "errors": [], "calls": [], "closesSent": 0}
        a = acc.get(sid)
        if a is None:
            missing.append("subchannel %s never appeared at %s" % (sid, acceptor))
            continue
        ends["%da" % sid] = {"ev": a.log, "peerWrote": wrote[sid], "errors": [], "calls": [], "closesSent": 0}
        if rested:
            if [x[1] for x in a.log if x[0] == "data"] != wrote[sid]:
                missing.append("subchannel %s: data %s of %s arrived" % (sid, [x[1] for x in a.log if x[0] == "data"], wrote[sid]))
            if close and not any(x[0] == "lost" for x in a.log):
                missing.append("subchannel %s: closed by the opener, no connectionLost at %s" % (sid, acceptor))
            if close and not any(x[0] == "lost" for x in p.log):
                missing.append("subchannel %s: closed by the opener, whose own connectionLost never came" % sid)
    if len(built[acceptor]) != len(acc):
        missing.append("%d protocols built at %s for %d subchannels" % (len(built[acceptor]), acceptor, len(acc)))
    if not rested:
        missing.append("the run did not come to rest")
    internal = errors + fw.finish()
    rec = {"tid": tid, "kind": "sub", "issued": [], "delivered": [], "goal": False,
           "internal": [x for x in internal if "NoTransition" not in x or "stopped" not in x],
           "ends": ends, "pendingUnexpected": 0,
           "scids": {opener: [getattr(p.transport, "_scid", None) for p in opened], acceptor: []},
           "afterCloseOK": True, "missingOpens": missing}
    return rec


def model_l4_delivered(st):
    return list(st["delivered"])


class SubRun:
    """one C13 execution on the mid-level world"""

    # the model's subprotocol names stand for classes of real names: ordinary, non-ASCII, very long, with odd characters
    SPELLINGS = [{"a": "a", "u": "u"}, {"a": "\u00fc-proto \u2603", "u": "\u00fc-proto"}, {"a": "n" * 300, "u": "n" * 299},
                 {"a": "a/b\\c:d e", "u": "A"},
                 # not in NFC form as given (decomposed accent, ANGSTROM SIGN): names are compared as the application wrote them;
                 # "u" is the NFC form of "a" - another name
                 {"a": "cafe\u0301 \u212b", "u": "caf\u00e9 \u00c5"}]

    def spell(self, n):
        return self.names.get(n, n)

    def __init__(self, expected, half, variant=0):
        self.names = self.SPELLINGS[variant % len(self.SPELLINGS)]
        expected = {k: [self.spell(n) for n in v] for k, v in expected.items()} if expected else expected
        self.expected = expected
        self.w = DilMidWorld(expected=expected)
        self.w.connect()
        self.w.pump()
        self.half = half
        # how a write that comes after this end's own accepted close (or after connectionLost) is spelt: the statement's "an
        # error when writing after close" does not depend on what is written - an empty write is a write
        self.late_style = variant % 3
        self.openers = {}     # id -> opener protocol
        self.schedule = []
        self.errors = {}      # (id, end) -> [exception names]
        self.calls = {}       # (id, end) -> [[write|close, ok|err]] in call order
        self.closes_sent = {}  # (id, end) -> CLOSE records the Manager was asked to send
        self.scids = {"L": [], "F": []}
        self.open_failures = []
        self.eager = {}       # id -> application calls its opener makes from inside connectionMade()
        self.skip = []        # ... which are then skipped when the behaviour reaches them
        for sname, side in self.w.sides.items():
            def send_close(scid, sname=sname, orig=side.m.send_close):
                e = "o" if ("L" if scid % 2 == 1 else "F") == sname else "a"
                self.closes_sent[(scid, e)] = self.closes_sent.get((scid, e), 0) + 1
                return orig(scid)
            side.m.send_close = send_close

    def end_proto(self, sid, e):
        if e == "o":
            return self.openers.get(sid)
        side = "F" if sid % 2 == 1 else "L"
        for f in self.w.sides[side].factories.values():
            for p in f.built:
                if getattr(p.transport, "_scid", None) == sid:
                    return p
        return None

    def do(self, la):
        w = self.w
        a, x, y = la
        self.schedule.append(list(la))
        if a == "AppOpen":
            eager = self.eager.pop(y, [])

            def made(proto, y=y, eager=eager):
                self.openers[y] = proto
                for (a2, e2, sid2) in eager:
                    self._app(a2, e2, sid2)
            w.on_made = made if eager else None
            p = w.open(x, self.spell(self._name_of_id.get(y, "a")), half=self.half)
            w.on_made = None
            if not hasattr(p, "log"):
                # connect() did not produce a connected protocol (its Deferred failed or has not fired)
                self.open_failures.append("open %s by %s: %r" % (y, x, getattr(p, "value", p)))
            else:
                self.openers[y] = p
                self.scids[x].append(getattr(getattr(p, "transport", None), "_scid", None))
        elif a == "AppListen":
            w.listen(x, self.spell(self._listen_name), half=self.half)
        elif a in ("AppWrite", "AppClose"):
            if self.skip and self.skip[0] == (a, x, y):
                self.skip.pop(0)        # already done from inside connectionMade()
            else:
                self._app(a, x, y)
        elif a == "Deliver":
            # one sequenced record towards side x (acks travel along)
            frm = "F" if x == "L" else "L"
            s = w.sides[frm]
            for _ in range(50):
                if s.conn is None or not s.conn.out:
                    break
                r = s.conn.out[0]
                if w.deliver(frm) == 0:
                    break
                if isinstance(r, (Open, Data, Close)):
                    break
            # acks the other way are never interesting here
            o = w.sides[x]
            while o.conn is not None and o.conn.out and isinstance(o.conn.out[0], Ack):
                w.deliver(x)
        w.settle()
        self.max_held = max(self.max_held, self._held())

    def _app(self, a, e, sid):
        p = self.end_proto(sid, e)
        try:
            if a == "AppWrite":
                k = self._writes.get((sid, e), 0)
                self._writes[(sid, e)] = k + 1
                late = any(c == ["close", "ok"] for c in self.calls.get((sid, e), [])) or \
                    any(tuple(x)[0] == "lost" for x in getattr(p, "log", ()))
                if late and self.late_style == 1:
                    p.transport.write(b"")
                elif late and self.late_style == 2:
                    p.transport.writeSequence([b"", b""] if k % 2 else [])
                else:
                    p.transport.write(("w%d%s%d" % (sid, e, k)).encode())
            elif self.half:
                p.transport.loseWriteConnection()
            else:
                p.transport.loseConnection()
            self.calls.setdefault((sid, e), []).append(["write" if a == "AppWrite" else "close", "ok"])
        except Exception as ex:
            self.errors.setdefault((sid, e), []).append(type(ex).__name__)
            self.calls.setdefault((sid, e), []).append(["write" if a == "AppWrite" else "close", "err"])

    max_held = 0

    def _held(self):
        """OPENs held pending although their name is outside the set the application declared"""
        held = 0
        for n, side in self.w.sides.items():
            exp = (self.expected or {}).get(n)
            if exp is None:
                continue
            demux = side.m._subprotocol_factories
            for name, q in demux._pending_opens.items():
                if name not in exp:
                    held += len(q)
            # (an OPEN whose name the application itself is listening for is accepted: it is evidently expected)
        return held

    _writes = None
    _name_of_id = None
    _listen_name = "a"


def replay_sub(tid, states, names_by_step, expected, half):
    run = SubRun(expected, half, variant=tid)
    run._writes = {}
    run._name_of_id = {}
    drift = None
    for i, st in enumerate(states[1:], start=1):
        la = st["last"]
        if la[0] == "AppOpen":
            run._name_of_id[la[2]] = st["name"][la[2] - 1]
            if tid % 2 == 1:
                # every other run: what the opener does next on this subchannel, it does from inside connectionMade()
                j = i + 1
                ops = []
                while j < len(states) and states[j]["last"][0] in ("AppWrite", "AppClose") and list(states[j]["last"][1:]) == ["o", la[2]]:
                    ops.append((states[j]["last"][0], "o", la[2]))
                    j += 1
                if ops:
                    run.eager[la[2]] = ops
                    run.skip = [tuple(o) for o in ops]
        if la[0] == "AppListen":
            prev = states[i - 1]["listening"][la[1]]
            new = set(st["listening"][la[1]]) - set(prev)
            run._listen_name = sorted(new)[0] if new else "a"
        try:
            run.do(tuple(la))
        except Exception as e:
            drift = drift or {"step": i, "action": la, "diff": ["cannot apply: %r" % (e,)]}
            break
        if drift is None and not run.skip:
            # (while the opener is still inside connectionMade() - calls of the following steps done early - the
            # real state is ahead of the behaviour by design: compared again once those steps have passed)
            d = []
            for idx, pair in enumerate(st["ends"], start=1):
                for e in ("o", "a"):
                    mev = [list(x) for x in pair[e]["ev"]]
                    p = run.end_proto(idx, e)
                    rev = []
                    if p is not None:
                        for ev in p.log:
                            rev.append([ev[0], ev[1].decode() if len(ev) > 1 else "-"])
                    if mev != rev:
                        d.append("sc%d.%s: spec=%s real=%s" % (idx, e, mev, rev))
            if d:
                drift = {"step": i, "action": la, "diff": d[:4]}
    return run, drift


SUB_T_PROJ = (
    '[ends |-> [i \\in Ids |-> [e \\in {"o", "a"} |-> [st |-> IF ends[i][e].st = "refused" THEN "none" ELSE ends[i][e].st, ev |-> ends[i][e].ev]]], '
    'name |-> name, '
    'listening |-> [s \\in Sides |-> [n \\in Names |-> n \\in listening[s]]], '
    'openAt |-> [s \\in Sides |-> SetToSortSeq(openAt[s], <)], '
    'pending |-> [s \\in Sides |-> [n \\in Names |-> SelectSeq(pending[s], LAMBDA id : name[id] = n)]]]')


def sub_projection(run, consts):
    """the real objects seen through DilationSub.tla's variables (SUB_T_PROJ is the same view of the model)"""
    nids = 2 * consts["MaxOpens"]
    w = run.w
    inv = {v: k for k, v in run.names.items()}
    ends = []
    for sid in range(1, nids + 1):
        pair = {}
        for e in ("o", "a"):
            side = ("L" if sid % 2 == 1 else "F") if e == "o" else ("F" if sid % 2 == 1 else "L")
            p = run.end_proto(sid, e)
            if p is not None:
                st = machine_state(p.transport)
                ev = [[x[0], x[1].decode() if len(x) > 1 else "-"] for x in p.log]
            else:
                sc = w.sides[side].m._inbound._open_subchannels.get(sid)
                # (an opener's SubChannel without a protocol does not occur: connect() builds it at once)
                st = machine_state(sc) if sc is not None and e == "a" else "none"
                ev = []
            pair[e] = {"st": st, "ev": ev}
        ends.append(pair)
    names = [run._name_of_id.get(i, "-") for i in range(1, nids + 1)]
    listening, open_at, pending = {}, {}, {}
    for n, side in w.sides.items():
        demux = side.m._subprotocol_factories
        listening[n] = {m: run.spell(m) in demux._factories for m in sorted(consts["Names"])}
        open_at[n] = sorted(side.m._inbound._open_subchannels.keys())
        pending[n] = {m: [t._scid for t, _ in demux._pending_opens.get(run.spell(m), ())] for m in sorted(consts["Names"])}
    return {"ends": ends, "name": names, "listening": listening, "openAt": open_at, "pending": pending}


def sub_real_enabled(run, consts, opened):
    w = run.w
    acts = []
    for s in sorted(consts["Openers"]):
        if opened[s] < consts["MaxOpens"]:
            for n in sorted(consts["Names"]):
                acts.append(("AppOpen", s, n))
    for s in ("L", "F"):
        demux = w.sides[s].m._subprotocol_factories
        for n in sorted(consts["Names"]):
            if run.spell(n) not in demux._factories:
                acts.append(("AppListen", s, n))
        frm = w.sides["F" if s == "L" else "L"]
        seqd = [r for r in (frm.conn.out if frm.conn is not None else ()) if isinstance(r, (Open, Data, Close))]
        if seqd:
            acts += [("Deliver", s, seqd[0].scid)] * 3
    for sid in range(1, 2 * consts["MaxOpens"] + 1):
        for e in ("o", "a"):
            if run.end_proto(sid, e) is None:
                continue
            if run._writes.get((sid, e), 0) < consts["MaxWrites"]:
                acts.append(("AppWrite", e, sid))
            if len(run.errors.get((sid, e), [])) < 2:
                acts.append(("AppClose", e, sid))
    return acts


def sub_walk(tid, consts, expected, half, rng, nsteps=30):
    """Code -> spec for C13: a seeded random walk over what the two real Managers (SubChannel, endpoints, demultiplexer,
    Inbound) offer, recorded for validation against DilationSub.tla; judged by the observer like every other run."""
    run = SubRun(expected, half, variant=tid)
    run._writes = {}
    run._name_of_id = {}
    opened = {"L": 0, "F": 0}
    lines = []
    for _ in range(nsteps):
        acts = sub_real_enabled(run, consts, opened)
        if not acts:
            break
        a = rng.choice(acts)
        if a[0] == "AppOpen":
            s, n = a[1], a[2]
            y = (1 if s == "L" else 2) + 2 * opened[s]
            opened[s] += 1
            run._name_of_id[y] = n
            run.do(("AppOpen", s, y))
            p = run.openers.get(y)
            real = getattr(getattr(p, "transport", None), "_scid", y) if p is not None else y
            if real != y:
                run.openers[real] = run.openers.pop(y)
                run._name_of_id[real] = run._name_of_id.pop(y)
            la = ["AppOpen", s, real]
        elif a[0] == "AppListen":
            run._listen_name = a[2]
            run.do(("AppListen", a[1], 0))
            la = ["AppListen", a[1], 0]
        else:
            run.do(a)
            la = list(a)
        lines.append({"a": la, "proj": sub_projection(run, consts)})
    return run, lines


def finish_sub(run, tid, expected):
    w = run.w
    # everything still in flight arrives; then every subchannel opened towards a side that listens for its name (and has not
    # declared the name unexpected) must have appeared there - "at once if a listener exists, or when one is registered later"
    missing = []
    try:
        w.pump()
        for y, name in sorted((run._name_of_id or {}).items()):
            p = run.openers.get(y)
            if p is None:
                continue
            sid = getattr(p.transport, "_scid", None)
            x = "L" if (sid or y) % 2 == 1 else "F"
            o_ = "F" if x == "L" else "L"
            real = run.spell(name)
            exp = (run.expected or {}).get(o_)
            if real in w.sides[o_].factories and (exp is None or real in exp):
                a = run.end_proto(sid, "a") if sid is not None else None
                if a is None or not any(e[0] == "made" for e in a.log):
                    missing.append("subchannel %s (%s) opened by %s never appeared at %s" % (sid, name, x, o_))
    except Exception as e:
        missing.append("settling: %r" % (e,))
    ends = {}
    ids = set(run.openers)
    for side in w.sides.values():
        for f in side.factories.values():
            for p in f.built:
                sid = getattr(p.transport, "_scid", None)
                if sid is not None:
                    ids.add(sid)
    after_close_ok = True
    for sid in sorted(ids):
        for e in ("o", "a"):
            p = run.end_proto(sid, e)
            if p is None:
                continue
            ev = [[x[0], x[1].decode() if len(x) > 1 else "-"] for x in p.log]
            other = run.end_proto(sid, "a" if e == "o" else "o")
            written = ["w%d%s%d" % (sid, "a" if e == "o" else "o", k) for k in range(run._writes.get((sid, "a" if e == "o" else "o"), 0))]
            ends["%d%s" % (sid, e)] = {"ev": ev, "peerWrote": written, "errors": run.errors.get((sid, e), []),
                                       "calls": run.calls.get((sid, e), []), "closesSent": run.closes_sent.get((sid, e), 0)}
            # a write after the local close must raise: probe every end that has closed locally
            if any(x[0] in ("lost",) for x in ev):
                try:
                    p.transport.write(b"late")
                    after_close_ok = False
                except Exception:
                    pass
    # "each side sees connectionLost exactly once": at most once at any time (P_OpensOnce), and - at rest, everything in flight
    # having arrived - once on both sides of every subchannel that either application closed (loseConnection) and that had
    # appeared at the other side (a listener that came late included)
    if not run.half:
        for sid in sorted(ids):
            eo, ea = ends.get("%do" % sid), ends.get("%da" % sid)
            if eo is None or ea is None or not any(x[0] == "made" for x in ea["ev"]):
                continue
            if any(c == ["close", "ok"] for c in eo["calls"] + ea["calls"]):
                for tag, en in (("opener", eo), ("acceptor", ea)):
                    if not any(x[0] == "lost" for x in en["ev"]):
                        missing.append("subchannel %s was closed and is at rest: no connectionLost at its %s" % (sid, tag))
    held = max(run.max_held, run._held())
    rec = {"tid": tid, "kind": "sub", "issued": [], "delivered": [], "goal": False,
           "internal": [repr(e)[:120] for e in w.logged if type(e).__name__ not in
                        ("DataForMissingSubchannelError", "CloseForMissingSubchannelError", "DuplicateOpenError")] +
                       [repr(e)[:100] for s in w.sides.values() for e in s.errors] + [x[:120] for x in run.open_failures],
           "ends": ends, "pendingUnexpected": held, "scids": {k: [x for x in v if x is not None] for k, v in run.scids.items()},
           "afterCloseOK": after_close_ok, "missingOpens": missing}
    w.close()
    return rec


def public_api_expected_case(tid, expected, opens, listen):
    """The subprotocol contract as the application states it: two real wormholes, `w.dilate(expected_subprotocols=expected)`
    on the Follower (full stack, harness Noise stand-in); the Leader opens subchannels named `opens`; the Follower listens for
    `listen`.  An OPEN outside the declared set must be refused by closing it, not held; one inside it appears exactly once."""
    from .dil_full import FullWorld
    from twisted.internet import protocol as tproto
    fw = FullWorld(variant=tid)
    fw.dilate_kwargs_by_side = {"F": {"expected_subprotocols": list(expected)}}
    fw.do(("AppDilate", "L", 0))
    fw.do(("AppDilate", "F", 0))
    connected = fw.run_out() and bool(fw.selected_links("L")) and bool(fw.selected_links("F"))
    log_ = {"L": {}, "F": {}}
    errors = []

    class Rec(tproto.Protocol):
        def __init__(self, side, label):
            self.side, self.label, self.ev = side, label, []
            log_[side][label] = self.ev

        def connectionMade(self):
            self.ev.append(["made", "-"])

        def dataReceived(self, data):
            self.ev.append(["data", data.decode()])

        def connectionLost(self, reason=None):
            self.ev.append(["lost", "-"])

    class Fac(tproto.Factory):
        def __init__(self, side, name):
            self.side, self.name, self.n = side, name, 0

        def buildProtocol(self, addr):
            self.n += 1
            return Rec(self.side, "%s%d" % (self.name, self.n))

    def pump():
        for _ in range(30):
            moved = False
            for i in fw.selected_links("L"):
                link = fw.links[i]
                for e in (0, 1):
                    while link.can_deliver(e):
                        fw.deliver_unit(link, e)
                        moved = True
            fw.run_auto_timers()
            for n in ("L", "F"):
                eq = fw._eq(n)
                while getattr(eq, "_calls", None):
                    reactor_ = eq._clock
                    for dc in list(reactor_.due()):
                        reactor_.run_call(dc)
                    moved = True
                    break
            if not moved:
                break
    openers = {}
    held = 0
    if connected:
        try:
            for name in listen:
                fw.api["F"].listener_for(name).listen(Fac("F", name))
            pump()
            for k, name in enumerate(opens):
                d = fw.api["L"].connector_for(name).connect(Fac("L", "o:%s#%d_" % (name, k)))
                d.addCallbacks(lambda p_, k=k: openers.__setitem__(k, p_), lambda f, k=k: errors.append("connect %d: %r" % (k, f.value)))
                pump()
            for k, p_ in sorted(openers.items()):
                try:
                    p_.transport.write(("w%d" % k).encode())
                except Exception:
                    pass        # a refused subchannel is already closed
            pump()
            demux = fw.manager("F")._subprotocol_factories
            for name, q in demux._pending_opens.items():
                if name not in expected:
                    held += len(q)
        except Exception as e:
            errors.append("family: %r" % (e,))
    ends = {}
    for side in ("L", "F"):
        for label, ev in log_[side].items():
            ends["%s:%s" % (side, label)] = {"ev": ev, "peerWrote": [x[1] for x in ev if x[0] == "data"], "errors": [], "calls": [], "closesSent": 0}
    # an expected name that is listened for must have appeared exactly once per open; an unexpected one never
    appeared = {name: sum(1 for label in log_["F"] if label.rstrip("0123456789") == name) for name in set(opens)}
    wrong = ["%s appeared %d times for %d opens" % (name, appeared[name], opens.count(name)) for name in appeared
             if (name in expected and name in listen and appeared[name] != opens.count(name)) or (name not in expected and appeared[name] != 0)]
    refused_seen = all(any(x[0] == "lost" for x in log_["L"].get("o:%s#%d_1" % (name, k), [])) for k, name in enumerate(opens) if name not in expected)
    benign = ("DataForMissingSubchannelError", "CloseForMissingSubchannelError")      # our own writes to a subchannel the peer refused
    internal = errors + [x for x in fw.finish() if not x.startswith(benign)] + wrong + ([] if connected else ["public-api case: the two wormholes did not connect"]) + \
        ([] if refused_seen else ["an OPEN outside the declared set was not closed towards its opener"])
    return {"tid": tid, "kind": "sub", "issued": [], "delivered": [], "goal": False, "internal": internal, "ends": ends,
            "pendingUnexpected": held, "scids": {"L": [], "F": []}, "afterCloseOK": True, "missingOpens": [], "origin": "family:public-api-expected",
            "config": "public"}


UNSET = Raw('[s \\in {"L","F"} |-> [given |-> FALSE, names |-> {}]]')
EXPF = Raw('[s \\in {"L","F"} |-> IF s = "F" THEN [given |-> TRUE, names |-> {"a"}] ELSE [given |-> FALSE, names |-> {}]]')
EXP0 = Raw('[s \\in {"L","F"} |-> IF s = "F" THEN [given |-> TRUE, names |-> {}] ELSE [given |-> FALSE, names |-> {}]]')
SUB_INV = ["OpensOnce", "NothingAfterLost", "DataInOrder", "IdsDisjoint", "UnexpectedRefused", "NoInternal",
           "WriteAfterCloseErrors", "CloseOnce"]
SUB_CONFIGS = {
    "basic": (dict(Names={"a"}, Expected=UNSET, MaxOpens=1, MaxWrites=2, Half=False, Openers={"L"}), None, False),
    "expected": (dict(Names={"a", "u"}, Expected=EXPF, MaxOpens=1, MaxWrites=1, Half=False, Openers={"L"}), {"F": ["a"]}, False),
    # the application declared that it expects nothing at all: every OPEN is refused
    "expected_nothing": (dict(Names={"a"}, Expected=EXP0, MaxOpens=1, MaxWrites=1, Half=False, Openers={"L"}), {"F": []}, False),
    "half": (dict(Names={"a"}, Expected=UNSET, MaxOpens=1, MaxWrites=1, Half=True, Openers={"L"}), None, True),
    "both_open": (dict(Names={"a"}, Expected=UNSET, MaxOpens=1, MaxWrites=1, Half=False, Openers={"L", "F"}), None, False),
}
# too large for an exhaustive run: TLC simulates them (behaviours for the real code; the invariants are checked along the way)
SUB_SIM_ONLY = {
    "several_each": (dict(Names={"a"}, Expected=UNSET, MaxOpens=2, MaxWrites=1, Half=False, Openers={"L", "F"}), None, False),
    "several_each_named": (dict(Names={"a", "u"}, Expected=EXPF, MaxOpens=3, MaxWrites=0, Half=False, Openers={"L", "F"}), {"F": ["a"]}, False),
}


# what a listener that comes late finds waiting (SubchannelDemultiplex._connect -> SubChannel._deliver_queued_data):
# an OPEN and its CLOSE with nothing in between, data and a CLOSE, data only; the same with half-closeable protocols
_LATE = 'last[1] = "AppListen" /\\ \\E id \\in Ids : LET ev == ends[id].a.ev IN Len(ev) >= 1 /\\ ev[1][1] = "made" /\\ '
SUB_GOALS = {
    "basic": {"late_listen_close_only": _LATE + 'Len(ev) = 2 /\\ ev[2][1] = "lost"',
              "late_listen_data_close": _LATE + 'Len(ev) >= 3 /\\ ev[2][1] = "data" /\\ ev[Len(ev)][1] = "lost"',
              "late_listen_data_only": _LATE + 'Len(ev) = 2 /\\ ev[2][1] = "data"',
              "late_listen_nothing_waiting": _LATE + 'Len(ev) = 1'},
    "half": {"late_listen_close_only_half": _LATE + 'Len(ev) = 2 /\\ ev[2][1] # "data"',
             "late_listen_data_close_half": _LATE + 'Len(ev) >= 3 /\\ ev[2][1] = "data" /\\ ev[Len(ev)][1] # "data"'},
    "both_open": {"late_listen_close_only_F": 'last[1] = "AppListen" /\\ last[2] = "L" /\\ \\E id \\in Ids : LET ev == ends[id].a.ev IN '
                                              'Len(ev) = 2 /\\ ev[1][1] = "made" /\\ ev[2][1] = "lost"'},
}


def run_observer(wd, records):
    path = wd.file("obs.ndjson")
    with open(path, "w") as f:
        for rec in records:
            f.write(json.dumps(rec) + "\n")
    with open(wd.file("MC_DMObs.cfg"), "w") as f:
        f.write("SPECIFICATION Spec\nCHECK_DEADLOCK FALSE\n")
    with open(wd.file("MC_DMObs.tla"), "w") as f:
        f.write("---- MODULE MC_DMObs ----\nEXTENDS DilMidObs\n====\n")
    r = tlc.run("MC_DMObs.tla", "MC_DMObs.cfg", workers=1, cwd=wd.path, env={"OBS_FILE": path}, timeout=1800)
    verdicts = {t[1]: dict(zip(OBS_NAMES, t[2])) for t in tlc.printed_tuples(r.stdout, "OBS")}
    if len(verdicts) != len(records):
        raise RuntimeError("observer evaluated %d of %d runs\n%s" % (len(verdicts), len(records), r.stdout[-2500:]))
    return verdicts


def run(prop, tier):
    quick = tier == "quick"
    seed = common.seed()
    v = common.Verdict(prop, tier)
    cov = {"tlc_configs": {}, "samples": [], "drift": []}
    records, meta = [], {}
    states = transitions = 0
    ndrift = 0
    tid = 0
    with common.Workdir(prop) as wd:
        wd.gen_tables()
        cov["tables"] = wd.tables_info
        if prop == "C10":
            cfgs = {"r3c2": dict(MaxRecords=3, MaxCuts=2, Window=False, Backpressure=False), "r5c2": dict(MaxRecords=5, MaxCuts=2, Window=False, Backpressure=False),
                    "w3c2": dict(MaxRecords=3, MaxCuts=2, Window=True, Backpressure=False), "w5c2": dict(MaxRecords=5, MaxCuts=2, Window=True, Backpressure=False),
                    "b4c2": dict(MaxRecords=4, MaxCuts=2, Window=False, Backpressure=True)}
            if not quick:
                cfgs["r8c3"] = dict(MaxRecords=8, MaxCuts=3, Window=False, Backpressure=False)
                cfgs["w7c3"] = dict(MaxRecords=7, MaxCuts=3, Window=True, Backpressure=False)
                cfgs["b6c3"] = dict(MaxRecords=6, MaxCuts=3, Window=False, Backpressure=True)
            for name, consts in cfgs.items():
                m = "MC_C10_" + name
                common.write_model(wd, m, "DilationL4", consts, invariants=["InOrderOnce", "NothingForgotten", "Goal", "UnsentSane"],
                                   properties=["EventuallyAll"] if name in ("r3c2", "w3c2", "b4c2") else [])
                r = tlc.run(m + ".tla", m + ".cfg", cwd=wd.path, timeout=1800)
                cov["tlc_configs"][name] = {"distinct_states": r.distinct, "states_generated": r.generated, "depth": r.depth,
                                            "wall_s": round(r.wall, 1), "result": "ok" if r.ok else (r.violated or "error")}
                states += r.distinct
                transitions += r.generated
                if not r.ok and not r.violated:
                    raise RuntimeError("TLC failed on %s: %s" % (m, r.error or r.stdout[-1500:]))
            behaviours = []      # (behaviour, window?, origin)
            for win, bp in ((False, False), (True, False), (False, True)):
                g = "MC_C10_gen_w" if win else ("MC_C10_gen_b" if bp else "MC_C10_gen")
                common.write_model(wd, g, "DilationL4", dict(MaxRecords=8, MaxCuts=3, Window=win, Backpressure=bp))
                simdir = wd.file("sim_w" if win else ("sim_b" if bp else "sim"))
                os.makedirs(simdir)
                tlc.run(g + ".tla", g + ".cfg", cwd=wd.path, workers=6, simulate={"num": (120 if quick else 1200) // 6, "file": os.path.join(simdir, "tr")},
                        depth=45, seed=seed + 10, timeout=900)
                behaviours += [(tr, win, "tlc-sim") for tr in tlc.read_sim_traces(os.path.join(simdir, "tr"))]
            # coverage goals (shortest behaviours reaching them): several records waiting in the candidate connection ...
            goals = {
                "three_waiting_at_select": "cand /\\ Len(inq) >= 3",
                "old_and_new_waiting": "cand /\\ Len(inq) >= 2 /\\ inq[1] + 1 <= wm /\\ inq[Len(inq)] + 1 > wm",
                "cut_while_waiting": "~linkUp /\\ cand /\\ Len(inq) >= 1",
                "selected_after_cut": "~linkUp /\\ connB /\\ last[1] = \"SelectB\" /\\ last[2] >= 1",
                "second_window_waiting": "cuts >= 2 /\\ cand /\\ Len(inq) >= 2",
                "all_delivered_after_two_windows": "cuts >= 2 /\\ connB /\\ Len(delivered) >= 5",
                "send_during_window": "cand /\\ last[1] = \"AppSend\" /\\ Len(inq) >= 1",
            }
            wit, unreached = common.witnesses(wd, "DilationL4", dict(MaxRecords=6, MaxCuts=2, Window=True, Backpressure=False), goals, "MC_C10_goal")
            cov["witness_goals"] = {"reached": [g_ for g_, _ in wit], "unreached": unreached}
            for g_, tr in wit:
                # continue each witness to quiescence so that the waiting records are actually dispatched
                behaviours.append((tr, True, "tlc-witness:" + g_))
            # ... and a re-send throttled by the transport when the connection is lost again
            bgoals = {
                "lost_while_throttled": "~linkUp /\\ connA /\\ apaused /\\ Len(unsent) >= 2",
                "second_resend_after_throttled_loss": 'cuts >= 2 /\\ last[1] = "Reconnect" /\\ Len(oq) >= 3',
                "send_behind_waiting": 'last[1] = "AppSend" /\\ Len(unsent) >= 2',
                "drained_in_two_steps": 'last[1] = "Drain" /\\ unsent = <<>> /\\ cuts >= 1 /\\ Len(delivered) >= 1',
                "all_delivered_after_throttled_losses": "cuts >= 2 /\\ Len(delivered) >= 4 /\\ unsent = <<>> /\\ connA /\\ connB /\\ linkUp",
            }
            wit, unreached = common.witnesses(wd, "DilationL4", dict(MaxRecords=5, MaxCuts=2, Window=False, Backpressure=True), bgoals, "MC_C10_bgoal")
            cov["witness_goals_backpressure"] = {"reached": [g_ for g_, _ in wit], "unreached": unreached}
            for g_, tr in wit:
                behaviours.append((tr, False, "tlc-witness:" + g_))
            # code -> spec: seeded random walks over the real objects, validated by TLC against DilationL4.tla
            rng = random.Random(seed * 7919 + 10)
            tv = {"walks": 0, "accepted": 0, "rejected": []}
            for name, consts in (("walk_plain", dict(MaxRecords=8, MaxCuts=3, Window=False, Backpressure=False)),
                                 ("walk_backpressure", dict(MaxRecords=7, MaxCuts=3, Window=False, Backpressure=True))):
                traces, runs = {}, {}
                for k in range(30 if quick else 300):
                    tid += 1
                    run_, lines = l4_walk(tid, consts, "LF"[k % 2], rng)
                    traces[tid] = lines
                    rec = run_.finish(tid)
                    rec["origin"], rec["config"] = "real-walk", name
                    records.append(rec)
                    meta[tid] = {"schedule": run_.schedule, "direction": run_.a, "real_l2": False, "late_listen": None}
                res, r = common.trace_validate(wd, "DilationL4", consts, traces, L4_T_PROJ, "MC_C10_trace_" + name)
                for t, (reached, total) in sorted(res.items()):
                    tv["walks"] += 1
                    if reached == total:
                        tv["accepted"] += 1
                    else:
                        ndrift += 1
                        if len(tv["rejected"]) < 6:
                            tv["rejected"].append({"tid": t, "config": name, "matched_lines": reached, "of": total,
                                                   "next_line": traces[t][reached] if reached < total else None,
                                                   "schedule": meta[t]["schedule"][:reached + 1]})
            cov["trace_validation"] = dict(tv, rule="each walk = up to 45 steps chosen among what the real Managers over a scripted L2 "
                                           "connection offer; accepted = DilationL4.tla has a behaviour with the same actions and the same "
                                           "projection (outbound queue, unsent part, pause flag, in-flight records and acks, watermark, "
                                           "what the receiving application saw) after every step")
            for tr, win, origin in behaviours:
                for a in (("L",) if win else ("L", "F")):
                    tid += 1
                    late = None
                    if tid % 3 == 0:
                        late = [0, len(tr) // 2, len(tr) + 5][(tid // 3) % 3]
                    run_ = L4Run(a, seed + tid, real=win, late_listen=late)
                    drift = None
                    for i, st in enumerate(tr[1:], start=1):
                        try:
                            run_.do(tuple(st["last"]))
                        except Exception as e:
                            drift = {"step": i, "action": st["last"], "diff": ["cannot apply: %r" % (e,)]}
                            break
                        if late is None and run_.delivered() != model_l4_delivered(st):
                            drift = {"step": i, "action": st["last"], "diff": ["delivered: spec=%s real=%s" % (st["delivered"], run_.delivered())]}
                            break
                    if origin.startswith("tlc-witness") and drift is None:
                        run_.run_out()
                    rec = run_.finish(tid)
                    rec["origin"] = origin
                    records.append(rec)
                    meta[tid] = {"schedule": run_.schedule, "direction": a, "real_l2": win, "late_listen": late}
                    if drift:
                        ndrift += 1
                        if len(cov["drift"]) < 6:
                            cov["drift"].append(dict(drift, tid=tid))
        else:
            for name, (consts, expected, half) in list(SUB_CONFIGS.items()) + list(SUB_SIM_ONLY.items()):
                m = "MC_C13_" + name
                common.write_model(wd, m, "DilationSub", consts, invariants=SUB_INV)
                behaviours = []
                if name in SUB_CONFIGS:
                    r = tlc.run(m + ".tla", m + ".cfg", cwd=wd.path, timeout=1800)
                    cov["tlc_configs"][name] = {"distinct_states": r.distinct, "states_generated": r.generated, "depth": r.depth,
                                                "wall_s": round(r.wall, 1), "result": "ok" if r.ok else (r.violated or "error")}
                    states += r.distinct
                    transitions += r.generated
                    if r.violated:
                        behaviours.append(r.trace)
                    elif not r.ok:
                        raise RuntimeError("TLC failed on %s: %s" % (m, r.error or r.stdout[-1500:]))
                simdir = wd.file("sim_" + name)
                os.makedirs(simdir)
                rs = tlc.run(m + ".tla", m + ".cfg", cwd=wd.path, workers=4, simulate={"num": (60 if quick else 600) // 4, "file": os.path.join(simdir, "tr")},
                             depth=30 if name in SUB_CONFIGS else 45, seed=seed + 13, timeout=900)
                if name in SUB_SIM_ONLY:
                    cov["tlc_configs"][name] = {"mode": "simulation only", "result": "ok" if not rs.violated else rs.violated, "wall_s": round(rs.wall, 1)}
                behaviours = [(tr, "tlc-sim") for tr in behaviours + list(tlc.read_sim_traces(os.path.join(simdir, "tr")))]
                if name in SUB_GOALS:
                    # coverage goals: situations simulation seldom reaches, as shortest behaviours (negated invariants)
                    wit, unreached = common.witnesses(wd, "DilationSub", consts, SUB_GOALS[name], "MC_C13_goal_" + name)
                    cov.setdefault("witness_goals", {})[name] = {"reached": [g_ for g_, _ in wit], "unreached": unreached}
                    behaviours += [(tr, "tlc-witness:" + g_) for g_, tr in wit]
                for tr, origin_ in behaviours:
                    tid += 1
                    run_, drift = replay_sub(tid, tr, None, expected, half)
                    rec = finish_sub(run_, tid, expected)
                    rec["origin"], rec["config"] = origin_, name
                    records.append(rec)
                    meta[tid] = {"schedule": run_.schedule, "config": name}
                    if drift:
                        ndrift += 1
                        if len(cov["drift"]) < 6:
                            cov["drift"].append(dict(drift, tid=tid, config=name))
        if prop == "C13":
            # code -> spec: seeded random walks over the real objects, validated by TLC against DilationSub.tla
            rng = random.Random(seed * 7919 + 13)
            tv = {"walks": 0, "accepted": 0, "rejected": []}
            walk_cfgs = {
                "walk_basic": (dict(Names={"a"}, Expected=UNSET, MaxOpens=2, MaxWrites=2, Half=False, Openers={"L", "F"}), None, False),
                "walk_expected": (dict(Names={"a", "u"}, Expected=EXPF, MaxOpens=2, MaxWrites=1, Half=False, Openers={"L", "F"}), {"F": ["a"]}, False),
                "walk_half": (dict(Names={"a"}, Expected=UNSET, MaxOpens=2, MaxWrites=1, Half=True, Openers={"L", "F"}), None, True),
            }
            for name, (consts, expected, half) in walk_cfgs.items():
                traces = {}
                for _ in range(25 if quick else 250):
                    tid += 1
                    run_, lines = sub_walk(tid, consts, expected, half, rng)
                    rec = finish_sub(run_, tid, expected)
                    rec["origin"], rec["config"] = "real-walk", name
                    records.append(rec)
                    meta[tid] = {"schedule": run_.schedule, "config": name}
                    traces[tid] = lines
                res, r = common.trace_validate(wd, "DilationSub", consts, traces, SUB_T_PROJ, "MC_C13_trace_" + name)
                for t, (reached, total) in sorted(res.items()):
                    tv["walks"] += 1
                    if reached == total:
                        tv["accepted"] += 1
                    else:
                        ndrift += 1
                        if len(tv["rejected"]) < 6:
                            tv["rejected"].append({"tid": t, "config": name, "matched_lines": reached, "of": total,
                                                   "next_line": traces[t][reached] if reached < total else None,
                                                   "schedule": meta[t]["schedule"][:reached + 1]})
            cov["trace_validation"] = dict(tv, rule="each walk = up to 30 application / delivery steps chosen among what the two real Managers "
                                           "offer; accepted = DilationSub.tla has a behaviour with the same actions and the same projection "
                                           "(SubChannel states, application events per end, names, listeners, open sets, held OPENs) after every step")
            n = 0
            for expected, opens, listen in ((["a"], ["a"], ["a"]), (["a"], ["u"], ["a"]), (["a"], ["u", "a", "u"], ["a"]), ([], ["u"], []),
                                            (["a", "b"], ["b", "a", "u"], ["a", "b"]), (["a"], ["a", "a"], ["a"])):
                tid += 1
                n += 1
                rec = public_api_expected_case(tid, expected, opens, listen)
                records.append(rec)
                meta[tid] = {"schedule": [["public-api-expected", expected, opens, listen]], "config": "public"}
            cov["public_api_cases"] = n
            # family: subchannels opened, written to and closed on the whole stack - also while there is no connection
            n = 0
            for opener in ("L", "F"):
                for (nsubs, offline, close, late) in ((1, False, True, False), (2, True, True, False), (3, True, False, False), (2, True, True, True),
                                                      (1, True, True, False), (2, False, False, True), (1, "acks-lost", True, False),
                                                      (2, "acks-lost", False, False), (2, "acks-lost", True, False)):
                    for uf in (False, True):
                        tid += 1
                        n += 1
                        rec = full_stack_sub_case(tid, opener, nsubs, offline, close, late, uf)
                        rec["origin"], rec["config"] = "family:full-stack", "full"
                        records.append(rec)
                        meta[tid] = {"schedule": [["full-stack-sub", opener, nsubs, offline, close, late, uf]], "config": "full"}
            cov["full_stack_cases"] = n
        if prop == "C10":
            # family: both directions at once (subchannels opened by the Leader's and by the Follower's application in one session)
            n = 0
            for (n_l, n_f, cut, il) in (((1, 1, 0, True), (2, 1, 2, True), (1, 2, 3, False), (2, 2, 1, False)) if quick else
                                        [(a, b, c, d) for a in (1, 2, 3) for b in (1, 2, 3) for c in (0, 1, 2, 4) for d in (True, False)]):
                tid += 1
                n += 1
                rec = both_directions_case(tid, n_l, n_f, cut, il)
                rec["origin"], rec["config"] = "family:both-directions", "full"
                records.append(rec)
                meta[tid] = {"schedule": [["both-directions", n_l, n_f, cut, il]], "direction": "both", "real_l2": True, "late_listen": None}
            cov["both_directions_cases"] = n
            # family: the same question on the whole stack (real Connector and connection selection under the Managers)
            n = 0
            for writer in ("L", "F"):
                for (npre, ndeliver, nduring, nafter, cuts) in ((2, 0, 0, 0, 1), (3, 2, 1, 1, 1), (1, 1, 2, 0, 2), (0, 0, 2, 1, 1), (3, 3, 0, 2, 2),
                                                                (4, 1, 3, 0, 1),
                                                                # a long session: sequence numbers past one byte, over a cut
                                                                (150, 120, 100, 60, 1)) if quick else \
                        [(a, b, c, d, e) for a in (0, 1, 3) for b in (0, 1, 3) for c in (0, 2) for d in (0, 1) for e in (1, 2) if a + c + d > 0] + \
                        [(150, 120, 100, 60, 1), (300, 257, 10, 300, 2)]:
                    tid += 1
                    n += 1
                    rec = full_stack_case(tid, writer, npre, ndeliver, nduring, nafter, cuts)
                    rec["origin"], rec["config"] = "family:full-stack", "full"
                    records.append(rec)
                    meta[tid] = {"schedule": [["full-stack", writer, npre, ndeliver, nduring, nafter, cuts]], "direction": writer,
                                 "real_l2": True, "late_listen": None}
            for writer in ("L", "F"):
                for nlate in (1, 2, 1, 2):
                    tid += 1
                    n += 1
                    rec = early_open_case(tid, writer, nlate)
                    rec["origin"], rec["config"] = "family:full-stack-early-open", "full"
                    records.append(rec)
                    meta[tid] = {"schedule": [["early-open", writer, nlate]], "direction": writer, "real_l2": True, "late_listen": None}
            cov["full_stack_cases"] = n
            n = 0
            for writer in ("L", "F"):
                for then in (("resume", "reconnect") if writer == "L" else ("resume",)):      # (ReconnectA: the writer is the Leader)
                    tid += 1
                    n += 1
                    rec = paused_burst_case(tid, writer, then)
                    rec["origin"], rec["config"] = "family:paused-burst", "real-l2"
                    records.append(rec)
                    meta[tid] = {"schedule": [["paused-burst", writer, then]], "direction": writer, "real_l2": True, "late_listen": None}
            cov["paused_burst_cases"] = n
        if prop == "C10":
            cov["echo"] = {"runs_with_answers": sum(1 for r_ in records if any(x["got"] for x in r_.get("echoes", []))),
                           "answers_received": sum(len(x["got"]) for r_ in records for x in r_.get("echoes", []))}
        verdicts = run_observer(wd, records)
    decides = {"C10": ["InOrderOnce", "Goal", "NoInternal"],
               "C13": ["OpensOnce", "NothingAfterLost", "DataInOrder", "IdsDisjoint", "UnexpectedRefused", "WriteAfterCloseErrors", "NoInternal", "CloseOnce"]}[prop]
    failing = 0
    distinct = set()
    for rec in records:
        distinct.add(json.dumps(meta[rec["tid"]]["schedule"]))
        bad = [n for n in decides if not verdicts[rec["tid"]][n]]
        if bad:
            failing += 1
            sig = {"clause": bad[0]}
            if rec.get("config"):
                sig["config"] = rec["config"]
            v.violation(sig, "%s fails on real Manager/Outbound/Inbound/SubChannel objects: %s" % (
                ",".join(bad), json.dumps({k: rec[k] for k in ("issued", "delivered", "goal", "ends", "pendingUnexpected", "internal")})[:700]),
                dict(meta[rec["tid"]], observation=rec))
    cov.update(states=states, transitions=transitions, traces_validated_against_impl=len(records), evaluations=len(records),
               distinct_nontrivial=len(distinct), failing_runs=failing, replay_drift_count=ndrift,
               rule="a run = one TLC behaviour executed on two real Managers over scripted L2 connections; distinct = distinct action "
                    "sequences; all contain cuts/reconnects or several subchannel operations")
    cov["samples"] = [{"schedule": meta[rec["tid"]]["schedule"][:40], "delivered": rec["delivered"], "ends": rec["ends"]} for rec in records[:2]]
    return v.finish(cov, assumptions=[
        "L2 connections are scripted (record granularity): byte-level framing is C12's, candidate selection is C11's",
        "TLC bounds as listed per configuration"])


def replay(prop, path):
    d = json.load(open(path))["replay"]
    print(json.dumps(d["schedule"]))
    print(json.dumps(d["observation"], indent=1)[:3000])
    return 0
