"""C06 (Transit record pipe) and C07 (Transit connection selection).

C06: spec/TransitRecords.tla is model-checked by TLC; its behaviours (simulation + every counterexample)
are replayed on two real transit.Connection objects that negotiated for real over the simulated TCP
fabric, under several chunkings and with byte-level concretisations of every manipulation; the TLA+
observer TransitObs.tla decides on the recorded executions.
"""
import json
import os
import random
import time

from .. import common, tlc, sim

reactor = sim.install()

from twisted.internet import defer  # noqa: E402
from twisted.python import log  # noqa: E402
from twisted.python.failure import Failure  # noqa: E402

from wormhole import transit, ipaddrs  # noqa: E402

ipaddrs.find_addresses = lambda: ["127.0.0.1"]
_ports = iter(range(52000, 10 ** 9))
transit.allocate_tcp_port = lambda: next(_ports)
log.startLoggingWithObserver(lambda ev: None, setStdout=False)


class Logged:
    def __init__(self):
        self.items = []

    def __call__(self, ev):
        if ev.get("isError"):
            f = ev.get("failure")
            self.items.append(f.value if f is not None else ev.get("message"))


def pump(limit=2000):
    """Deliver everything deliverable (whole units, FIFO), complete attempts and closes, run due timers."""
    for _ in range(limit):
        prog = False
        for c in reactor.pending_attempts():
            reactor.complete(c)
            prog = True
        for l in reactor.live_links():
            for e in (0, 1):
                while l.can_deliver(e):
                    try:
                        l.deliver(e)
                    except sim._ProtocolRaised:
                        kill(l)
                    prog = True
                if l.ends[e] is not None and l.closing_done_possible(e):
                    l.finish_close(e)
                    prog = True
                if l.can_observe_loss(e):
                    l.observe_loss(e)
                    prog = True
        for dc in reactor.due():
            reactor.run_call(dc)
            prog = True
            break
        if not prog:
            return True
    return False


def kill(link):
    """Twisted's reaction to an exception escaping dataReceived: the connection is dropped."""
    link.do_cut()
    for e in (0, 1):
        if link.can_observe_loss(e):
            try:
                link.observe_loss(e)
            except sim._ProtocolRaised:
                pass


def make_pair(key=b"k" * 32):
    """A TransitSender/TransitReceiver pair negotiated for real over one simulated TCP link."""
    reactor.reset()
    s = transit.TransitSender(None, reactor=reactor)
    r = transit.TransitReceiver(None, no_listen=True, reactor=reactor)
    s.set_transit_key(key)
    r.set_transit_key(key)
    hs, hr = [], []
    s.get_connection_hints().addCallback(hs.append)
    r.get_connection_hints().addCallback(hr.append)
    s.add_connection_hints(hr[0])
    r.add_connection_hints(hs[0])
    res = {}
    s.connect().addBoth(lambda x: res.__setitem__("s", x))
    r.connect().addBoth(lambda x: res.__setitem__("r", x))
    pump()
    cs, cr = res.get("s"), res.get("r")
    if isinstance(cs, Failure) or isinstance(cr, Failure) or cs is None or cr is None:
        raise RuntimeError("transit pair did not negotiate: %r %r" % (cs, cr))
    link = cs.transport.link
    return cs, cr, link


def let_time_pass(seconds):
    """virtual time advances; every timer that falls due fires"""
    t_end = reactor.seconds() + seconds
    for _ in range(2000):
        fut = [c for c in reactor.getDelayedCalls() if c.getTime() <= t_end]
        if not fut:
            break
        reactor._sortCalls()
        try:
            reactor.run_call(reactor.calls[0])
        except Exception:
            pass
    reactor.rightNow = max(reactor.rightNow, t_end)


def split_frames(buf):
    frames = []
    while len(buf) >= 4:
        n = int.from_bytes(buf[:4], "big")
        frames.append(buf[:4 + n])
        buf = buf[4 + n:]
    assert not buf
    return frames


CHUNKINGS = ["whole", "two", "bytes", "lenbody", "coalesce"]


class RecordRun:
    """One C06 execution: one direction of a real negotiated connection, with the adversary on the wire."""

    def __init__(self, tid, direction, chunking, consumer, rng, sizes, slow=False):
        self.tid, self.direction, self.chunking, self.consumer_mode = tid, direction, chunking, consumer
        self.rng = rng
        self.logged = Logged()
        log.addObserver(self.logged)
        cs, cr, link = make_pair()
        self.slow = slow
        self.env_closed = False
        if slow:
            # a slow transfer: more than the negotiation timeouts pass before (and between) the records
            let_time_pass(2 * transit.TIMEOUT + 7)
        self.src, self.dst = (cs, cr) if direction == "s2r" else (cr, cs)
        self.other_dir_frames = []
        self.link = link
        self.wire = []           # frames in flight (bytes); entries are [bytes, flag]
        self.honest = []         # the frames exactly as send_record produced them, in order
        self.consumed = 0        # honest frames handed to the receiver so far
        self.payloads = []       # payloads sent, by id-1
        self.sizes = sizes
        self.got = []            # payload ids delivered to the application
        self.reads = []          # outstanding / resolved receive_record Deferred results
        self.at_tamper = -1
        self.desync = False
        self.consumer_done = "-"
        self.consumer_bytes = 0
        self.async_close = False
        self._late_checks = []
        self.loop_reader = False  # reads re-issued from inside the previous read's callback
        self.rearmed = 0
        self.schedule = []
        self.internal = []
        self.refused = []        # outcomes of send_record() calls with something that is not bytes
        self.skip = 0            # bytes of the next frame that the previous read already carried ("straddle" chunking)
        self.held = b""          # bytes of earlier frames held back for the "coalesce" chunking
        self.held_count = 0
        self.expected_total = None
        self.sink = []

    # -- helpers
    def _ident(self, data, pos=None):
        # the k-th item received that equals the k-th payload sent *is* that payload as far as any application can
        # tell (two empty records are the same bytes); only otherwise search for another payload it could be
        if pos is not None and pos < len(self.payloads) and self.payloads[pos] == data:
            return pos + 1
        for i, p in enumerate(self.payloads):
            if p == data:
                return i + 1
        # bytes nobody sent as a record (forged, or a piece of one): a number no payload has (the observer compares numbers)
        return 900000 + len(data) % 1000

    def _drain_src(self):
        t = self.src.transport
        buf = b"".join(t.out)
        t.out[:] = []
        for f in split_frames(buf):
            self.wire.append([f, False])
            self.honest.append(f)

    def attach_consumer(self, nrecords):
        """writeToFile-style consumer expecting the total size of the records the model will send."""
        run = self

        class Sink:
            def write(self, b):
                run.sink.append(bytes(b))
        total = sum(self._size(i) for i in range(nrecords))
        self.expected_total = total
        if self.pausing:
            # a consumer that exerts back-pressure: it asks its producer (the connection) to pause from inside every
            # write() and lets it go on at the next step of the run - records that arrived in the same read wait meanwhile
            from zope.interface import implementer
            from twisted.internet.interfaces import IConsumer

            @implementer(IConsumer)
            class PausingSink:
                producer = None

                def registerProducer(self, producer, streaming):
                    self.producer = producer

                def unregisterProducer(self):
                    self.producer = None

                def write(self, b):
                    run.sink.append(bytes(b))
                    if self.producer is not None:
                        self.producer.pauseProducing()
                        run.paused_by = self.producer
            d = self.dst.connectConsumer(PausingSink(), total)
        else:
            d = self.dst.writeToFile(Sink(), total)
        if d is not None:
            d.addCallbacks(lambda n: (setattr(self, "consumer_done", "ok"), setattr(self, "consumer_bytes", n)),
                           lambda f: setattr(self, "consumer_done", "err"))

    def _size(self, i):
        return self.sizes[i % len(self.sizes)]

    pausing = False
    paused_by = None

    def _resume(self):
        p, self.paused_by = self.paused_by, None
        if p is not None:
            try:
                p.resumeProducing()
            except Exception as e:
                self.internal.append("resumeProducing raised %s: %s" % (type(e).__name__, str(e)[:60]))

    # -- the model's actions
    def do(self, act):
        self.schedule.append(act)
        a = act[0]
        self._resume()
        if a in ("Cut", "Lose"):
            self.env_closed = True
        if self.slow and a == "Recv" and len(self.schedule) % 2 == 0:
            let_time_pass(transit.TIMEOUT + 3)
        if a == "Send":
            i = len(self.payloads)
            n = self._size(i)
            p = bytes([(i * 37 + 11) % 251]) * n if n else b""
            if p in self.payloads:       # keep payloads distinguishable
                p = (b"%03d" % i) + p[3:] if n >= 3 else p
            self.payloads.append(p)
            self.src.send_record(p)
            self._drain_src()
        elif a == "SendBad":
            # the application hands over something that is not bytes: the call is refused (InternalError) - and that is all
            obj = [u"text, not bytes", None, bytearray(b"mutable"), 17, [b"a", b"b"]][act[1] % 5]
            try:
                self.src.send_record(obj)
                self.refused.append("accepted")
            except Exception as e:
                self.refused.append(type(e).__name__)
            self._drain_src()
        elif a == "Flip":
            i, where = act[1] - 1, act[2]
            f = bytearray(self.wire[i][0])
            if where == "len":
                pos = self.rng.choice([0, 3])
                f[pos] ^= (0x01 if pos == 3 else 0x40)
                self.wire[i][1] = "len"
            else:
                lo, hi = {"nonce": (4, 28), "tag": (28, 44), "body": (44, len(f))}[where]
                if hi <= lo:
                    lo, hi = 28, 44
                pos = self.rng.choice([lo, hi - 1, self.rng.randrange(lo, hi)])
                f[pos] ^= 1 << self.rng.randrange(8)
                self.wire[i][1] = True
            self.wire[i][0] = bytes(f)
        elif a == "Delete":
            del self.wire[act[1] - 1]
            self._mark_from(act[1] - 1)
        elif a == "Swap":
            i = act[1] - 1
            self.wire[i], self.wire[i + 1] = self.wire[i + 1], self.wire[i]
            self.wire[i][1] = self.wire[i][1] or True
            self.wire[i + 1][1] = self.wire[i + 1][1] or True
        elif a == "Replay":
            i = act[1] - 1
            self.wire.insert(i + 1, [self.wire[i][0], True])
        elif a == "ReplayOld":
            # a frame the receiver has long since consumed (the act[2]-th of the stream) shown again at wire position act[1]
            self.wire.insert(act[1] - 1, [self.honest[act[2] - 1], True])
        elif a == "Inject":
            i, n = act[1] - 1, act[2]
            body = n.to_bytes(24, "big") + os.urandom(16 + self.rng.choice([0, 1, 40]))
            if self.rng.random() < 0.5 and self.dst.transport.connected and not self.dst.transport.disconnecting:
                # a frame of the opposite direction, reflected: authentic under the *other* key
                other = self.dst
                other.send_record(b"reflected")
                buf = b"".join(other.transport.out)
                other.transport.out[:] = []
                fr = split_frames(buf)[0]
                body = n.to_bytes(24, "big") + fr[4 + 24:]
            self.wire.insert(i, [len(body).to_bytes(4, "big") + body, True])
        elif a == "Recv":
            self._recv()
        elif a == "Read":
            idx = len(self.reads)
            if not self.dst.transport.connected and not self.dst._inbound_records:
                # a read issued after the connection is gone, with nothing queued, is not a "pending read" of the statement
                return
            self._issue_read()
        elif a == "Cut":
            self.wire[:] = []
            self.held = b""
            kill(self.link)
        elif a == "Lose":
            self.held = b""
            self.wire[:] = []
            kill(self.link)
            pump()
        self._collect()

    def _mark_from(self, i):
        """after a deletion the frame that now sits at position i is out of sequence"""
        if i < len(self.wire):
            self.wire[i][1] = self.wire[i][1] or True
        else:
            self._pending_gap = True

    def _read_ok(self, idx, r):
        self.reads[idx] = "ok"
        self.got.append(self._ident(r, len(self.got)))
        if self.loop_reader and self.dst.transport.connected:
            # the usual reader loop (`while True: rec = yield conn.receive_record()`): the next read is issued from inside
            # the callback of the previous one
            self.rearmed += 1
            self._issue_read()

    def _issue_read(self):
        idx = len(self.reads)
        self.reads.append(None)
        waiting = len(self.dst._inbound_records)
        d = self.dst.receive_record()
        if waiting:
            # ground truth: a record was waiting, so this read has its answer now - whatever has happened to the connection
            self._late_checks.append((idx, waiting))
        d.addCallbacks(lambda r, idx=idx: self._read_ok(idx, r), lambda f, idx=idx: self.reads.__setitem__(idx, "err"))

    def _recv(self):
        frame, _flag = self.wire.pop(0)
        # ground truth: is this exactly the next frame the sender produced?
        nxt = self.honest[self.consumed] if self.consumed < len(self.honest) else None
        manipulated = frame != nxt
        if not manipulated:
            self.consumed += 1
        if manipulated and self.at_tamper < 0:
            # honest frames held back for coalescing are delivered in the same read, ahead of this one
            self.at_tamper = len(self.got) + self._queued() + self.held_count
            if nxt is not None and frame[4:] == nxt[4:]:
                self.desync = True
        data = self.held + frame[self.skip:]
        self.skip = 0
        self.held = b""
        ch = self.chunking
        if ch == "straddle" and self.wire and not manipulated and not self.wire[0][1]:
            # (clean streams only) this read ends one to three bytes into the length prefix of the next frame
            self.skip = 1 + (self.consumed + self.tid) % 3
            data += self.wire[0][0][:self.skip]
        if ch == "coalesce" and self.wire and not manipulated:
            self.held = data             # hold back: delivered together with the next frame
            self.held_count += 1
            return
        self.held_count = 0
        if ch in ("whole", "coalesce", "straddle"):
            chunks = [data]
        elif ch == "two":
            k = self.rng.randrange(1, len(data)) if len(data) > 1 else 1
            chunks = [data[:k], data[k:]]
        elif ch == "lenbody":
            chunks = [data[:4], data[4:]]
        else:
            step = 1 if len(data) <= 200 else max(1, len(data) // 97)
            chunks = [data[i:i + step] for i in range(0, len(data), step)]
        for c in chunks:
            if not c:
                continue
            t = self.dst.transport
            # a transport whose close is asynchronous (TLS, a wrapping transport, a test transport) still hands over
            # what arrives between loseConnection() and connectionLost(); plain TCP stops reading at once
            if not t.connected or (t.disconnecting and not self.async_close):
                break
            try:
                reactor.call_protocol(self.dst.dataReceived, c)
            except sim._ProtocolRaised:
                if self.async_close:
                    # such a transport does not tear the connection down because dataReceived raised either: whether
                    # anything more is accepted is up to the protocol (it must have hung up by itself)
                    continue
                self._receiver_dropped()
                break

    def _receiver_dropped(self):
        """an exception escaped dataReceived: Twisted drops that end at once; the sender notices later"""
        self.link.do_cut()
        end = self.dst.transport.end
        if self.link.can_observe_loss(end):
            self.link.observe_loss(end)

    def _queued(self):
        return len(self.dst._inbound_records)

    def _collect(self):
        if self.consumer_mode:
            # FileConsumer.write is called once per record (empty records included)
            # (a consumer expecting no bytes at all is sent one empty write by connectConsumer itself "to kick it into
            # shutdown": that write is no record)
            sink = self.sink[1:] if (self.expected_total == 0 and self.sink and self.sink[0] == b"") else self.sink
            self.got = [self._ident(b, k) for k, b in enumerate(sink)]

    def finish(self):
        self._resume()
        # whatever was held back for coalescing is flushed (it was sent; only its timing was the adversary's)
        if self.held:
            if self.dst.transport.connected and (self.async_close or not self.dst.transport.disconnecting):
                try:
                    reactor.call_protocol(self.dst.dataReceived, self.held)
                except sim._ProtocolRaised:
                    if not self.async_close:
                        self._receiver_dropped()
            self.held = b""
        self._resume()
        self._collect()
        state = self.dst.state
        t = self.dst.transport
        if not t.connected:
            state = "lost"
        elif t.disconnecting and state != "hung up":
            state = "hung up"
        for e in self.logged.items:
            n = type(e).__name__
            if n not in ("BadNonce", "CryptoError", "ConnectionDone", "ConnectionLost", "BadHandshake", "ValueError"):
                self.internal.append("%s: %s" % (n, str(e)[:80]))
        log.removeObserver(self.logged)
        # what is still queued is read now (the application of the statement reads everything it was sent): after a loss too
        if not self.consumer_mode:
            for _ in range(len(self.dst._inbound_records)):
                if not self.dst._inbound_records:
                    break
                self._issue_read()
        late_failed = sum(1 for idx, _w in self._late_checks if self.reads[idx] != "ok")
        queued_ids = [self._ident(r, len(self.got) + k) for k, r in enumerate(self.dst._inbound_records)]
        rec = {"lateReadFailed": late_failed,"tid": self.tid, "sent": list(range(1, len(self.payloads) + 1)), "got": self.got + queued_ids,
               "atTamper": self.at_tamper, "desync": self.desync, "state": state if state in ("records", "hung up", "lost") else str(state),
               "pendingReads": sum(1 for r in self.reads if r is None), "consumerDone": self.consumer_done,
               "consumerBytes": self.consumer_bytes, "sentBytes": sum(len(p) for p in self.payloads),
               "expectedBytes": self.expected_total or 0,
               "gotBytes": sum(len(self.payloads[i - 1]) for i in self.got if isinstance(i, int) and 0 < i <= len(self.payloads)),
               "clean": self.at_tamper < 0 and [f for f, _ in self.wire] == self.honest[self.consumed:], "inflight": len(self.wire),
               "internal": self.internal, "direction": self.direction, "chunking": self.chunking,
               "consumer": self.consumer_mode, "loopReader": self.loop_reader, "rearmed": self.rearmed,
               "slow": self.slow, "envClosed": bool(self.env_closed), "pausingConsumer": bool(self.pausing)}
        return rec


def model_to_acts(states):
    acts = []
    for st in states[1:]:
        la = st["last"]
        acts.append((la[0], la[1], la[2]))
    return acts


REC_T_PROJ = ("[sent |-> Len(sent), inflight |-> Len(wire), nextNonce |-> nextNonce, delivered |-> delivered, queued |-> queued, "
              "reads |-> reads, failedReads |-> failedReads, rstate |-> rstate, consumerDone |-> consumerDone]")


def rec_state(run):
    t = run.dst.transport
    if not t.connected:
        return "lost"
    if run.dst.state == "hung up" or t.disconnecting:
        return "hung up"
    return "records"


def rec_projection(run):
    run._collect()
    queued = [run._ident(r, len(run.got) + k) for k, r in enumerate(run.dst._inbound_records)]
    return {"sent": len(run.payloads), "inflight": len(run.wire), "nextNonce": run.dst.next_receive_nonce,
            "delivered": list(run.got), "queued": queued, "reads": sum(1 for r in run.reads if r is None),
            "failedReads": sum(1 for r in run.reads if r == "err"), "rstate": rec_state(run), "consumerDone": run.consumer_done}


def rec_enabled(run, consts, manip):
    acts = []
    st = rec_state(run)
    if len(run.payloads) < consts["MaxRecords"]:
        acts += [("Send", len(run.payloads) + 1, "-")] * 2
    if st != "lost":
        n = len(run.wire)
        if n:
            acts += [("Recv", 0, "-")] * 4
        if manip < consts["MaxManip"]:
            for i in range(1, n + 1):
                acts += [("Flip", i, w) for w in ("nonce", "body", "tag")] + [("Delete", i, "-"), ("Replay", i, "-")]
                if i < n:
                    acts.append(("Swap", i, "-"))
            for i in range(1, n + 2):
                acts.append(("Inject", i, run.rng.randrange(0, consts["MaxRecords"] + 1)))
        if not consts["ConsumerMode"] and len(run.reads) < consts["MaxReads"]:
            acts += [("Read", 0, "-")] * 2
        acts.append(("Cut", 0, "-"))
        if st == "hung up":
            acts += [("Lose", 0, "-")] * 2
    elif not consts["ConsumerMode"] and len(run.reads) < consts["MaxReads"] and run.dst._inbound_records:
        acts += [("Read", 0, "-")] * 2
    return acts


def record_walk(tid, consts, rng, nsteps=25):
    """Code -> spec for C06: a seeded random walk over a real negotiated Connection pair with the adversary on the wire (whole
    frames; length prefixes are left alone - after an altered one the model only says the framing is lost), recorded for
    validation against TransitRecords.tla"""
    # (consumer walks: profiles whose last record is not empty - a consumer is done when it has its bytes, DESIGN 7.3)
    run = RecordRun(tid, "s2r" if tid % 2 else "r2s", "whole", consts["ConsumerMode"], rng,
                    rng.choice([SIZE_PROFILES[0], SIZE_PROFILES[4]] if consts["ConsumerMode"] else SIZE_PROFILES[:2] + SIZE_PROFILES[4:]))
    # (a transport whose close is asynchronous: after the connection has hung up it is still there until the Lose step, as in
    # the model; what arrives meanwhile is handed to the protocol, which must ignore it)
    run.async_close = True
    if consts["ConsumerMode"]:
        run.attach_consumer(consts["MaxRecords"])
    lines = []
    manip = 0
    for _ in range(nsteps):
        acts = rec_enabled(run, consts, manip)
        if not acts:
            break
        la = rng.choice(acts)
        if la[0] in ("Flip", "Delete", "Swap", "Replay", "Inject"):
            manip += 1
        run.do(la)
        lines.append({"a": list(la), "proj": rec_projection(run)})
    return run, lines


MIX_T_PROJ = ("[sent |-> Len(sent), inflight |-> Len(wire), delivered |-> delivered, queued |-> queued, reads |-> reads, "
              "failedReads |-> failedReads, rstate |-> rstate, consumerDone |-> consumerDone, cattached |-> cattached]")


class MixedWalk:
    """Code -> spec for the Mixed configuration of TransitRecords.tla: a sequential application on a real negotiated Connection pair
    reads single records and attaches consumers expecting the bytes of the next 0..2 records, while records are sent, arrive one
    frame at a time, and the connection may be cut.  Every step is recorded with the projection of the real receiving Connection."""
    async_close = loop_reader = slow = pausing = False
    sizes = []

    def __init__(self, tid, direction, rng, max_records=4):
        self.tid, self.direction, self.rng, self.max_records = tid, direction, rng, max_records
        cs, cr, self.link = make_pair()
        self.src, self.dst = (cs, cr) if direction == "s2r" else (cr, cs)
        self.logged = Logged()
        log.addObserver(self.logged)
        self.payloads, self.wire, self.got, self.reads, self.consumers = [], [], [], [], []
        self.schedule, self.lines, self.internal = [], [], []
        self.cut = False

    def ident(self, b):
        b = bytes(b)
        return self.payloads.index(b) + 1 if b in self.payloads else 900000 + len(b) % 1000

    def busy(self):
        return any(r["r"] is None for r in self.reads) or self.dst._consumer is not None

    def enabled(self):
        acts = []
        if len(self.payloads) < self.max_records and not self.cut:
            acts += [("Send", len(self.payloads) + 1, "-")] * 2
        if self.wire and not self.cut:
            acts += [("Recv", 0, "-")] * 4
        if not self.cut:
            acts.append(("Cut", 0, "-"))
        obtained = len(self.got) + len(self.dst._inbound_records)
        if not self.busy():
            if (not self.cut or self.dst._inbound_records) and len(self.reads) + len(self.got) < self.max_records:
                acts += [("Read", 0, "-")] * 2
            if not self.cut:
                for k in (0, 1, 2):
                    if obtained + k <= self.max_records:
                        acts.append(("Attach", k, "-"))
        return acts

    def do(self, la):
        self.schedule.append(list(la))
        a = la[0]
        try:
            if a == "Send":
                n = len(self.payloads)
                p = b"rec-%d-" % (n + 1) + bytes([65 + n]) * (3 * n + 1)
                self.payloads.append(p)
                self.src.send_record(p)
                t = self.src.transport
                buf = b"".join(t.out)
                t.out[:] = []
                self.wire += split_frames(buf)
            elif a == "Recv":
                reactor.call_protocol(self.dst.dataReceived, self.wire.pop(0))
            elif a == "Read":
                slot = {"r": None}
                self.reads.append(slot)
                d = self.dst.receive_record()
                d.addCallbacks(lambda r, slot=slot: (slot.__setitem__("r", "ok"), self.got.append(self.ident(r))),
                               lambda f, slot=slot: slot.__setitem__("r", "err"))
            elif a == "Attach":
                k = la[1]
                base = len(self.got)
                # the bytes of the next k records (sizes are a function of the position, known before the record is sent)
                expected = sum(len(b"rec-%d-" % (i + 1)) + 3 * i + 1 for i in range(base, base + k))
                c = {"done": "-", "n": 0, "expected": expected, "bytes": 0}
                self.consumers.append(c)
                walk = self

                class Sink:
                    def write(self_, b):
                        if len(b):
                            c["bytes"] += len(b)
                            walk.got.append(walk.ident(b))
                d = self.dst.writeToFile(Sink(), expected)
                d.addCallbacks(lambda n, c=c: (c.__setitem__("done", "ok"), c.__setitem__("n", n)),
                               lambda f, c=c: c.__setitem__("done", "err"))
            elif a == "Cut":
                self.cut = True
                self.wire = []
                kill(self.link)
            pump_no_delivery()
        except sim._ProtocolRaised as e:
            self.internal.append("dataReceived raised: %s" % (str(e)[:80],))
            kill(self.link)
        except Exception as e:
            self.internal.append("%s in %s: %s" % (type(e).__name__, a, str(e)[:80]))
        self.lines.append({"a": list(la), "proj": self.projection()})

    def projection(self):
        t = self.dst.transport
        rstate = "lost" if (self.cut or not t.connected) else ("hung up" if (self.dst.state == "hung up" or t.disconnecting) else "records")
        return {"sent": len(self.payloads), "inflight": len(self.wire), "delivered": list(self.got),
                "queued": [self.ident(r) for r in self.dst._inbound_records],
                "reads": sum(1 for r in self.reads if r["r"] is None), "failedReads": sum(1 for r in self.reads if r["r"] == "err"),
                "rstate": rstate, "consumerDone": self.consumers[-1]["done"] if self.consumers else "-",
                "cattached": self.dst._consumer is not None}

    def finish(self):
        for e in self.logged.items:
            n = type(e).__name__
            if n not in ("ConnectionDone", "ConnectionLost"):
                self.internal.append("%s: %s" % (n, str(e)[:80]))
        log.removeObserver(self.logged)
        pr = self.projection()
        consumers = self.consumers
        return {"lateReadFailed": 0, "tid": self.tid, "sent": list(range(1, len(self.payloads) + 1)), "got": list(self.got) + pr["queued"],
                "atTamper": -1, "desync": False, "state": pr["rstate"], "pendingReads": pr["reads"],
                # (one verdict for all consumers of the walk: a consumer left waiting on a lost connection shows as "-")
                "consumerDone": "-" if (pr["rstate"] == "lost" and any(c["done"] == "-" for c in consumers)) else
                                ("ok" if any(c["done"] == "ok" for c in consumers) else
                                 ("err" if any(c["done"] == "err" for c in consumers) else "-")),
                "consumerBytes": sum(c["n"] for c in consumers if c["done"] == "ok"), "sentBytes": sum(len(p) for p in self.payloads),
                "expectedBytes": sum(c["expected"] for c in consumers if c["done"] == "ok"),
                "gotBytes": sum(c["bytes"] for c in consumers if c["done"] == "ok"),
                "clean": not self.cut, "inflight": len(self.wire), "internal": self.internal, "direction": self.direction,
                "chunking": "whole", "consumer": bool(consumers), "loopReader": False, "rearmed": 0, "slow": False,
                "envClosed": bool(self.cut), "pausingConsumer": False, "origin": "mixed-walk"}


def pump_no_delivery():
    """zero-delay calls and close bookkeeping, but no delivery of bytes (the walk hands frames over itself)"""
    for _ in range(50):
        due = reactor.due()
        if not due:
            return
        reactor.run_call(due[0])


def mixed_walk(tid, rng, nsteps=22):
    w = MixedWalk(tid, "s2r" if tid % 2 else "r2s", rng)
    for _ in range(nsteps):
        acts = w.enabled()
        if not acts:
            break
        w.do(rng.choice(acts))
    return w


SIZE_PROFILES = [[5, 0, 17], [0, 1, 2], [16384, 3, 70000], [1, 65537, 0], [40, 40, 41]]


def run_c06(prop, tier):
    quick = tier == "quick"
    seed = common.seed()
    rng = random.Random(seed + 6)
    v = common.Verdict(prop, tier)
    cov = {"tlc_configs": {}, "samples": []}
    records, runs = [], {}
    with common.Workdir(prop) as wd:
        states = transitions = 0
        cfgs = {"queue": dict(MaxRecords=3, MaxManip=1, MaxReads=3, ConsumerMode=False, Mixed=False),
                "consumer": dict(MaxRecords=3, MaxManip=1, MaxReads=0, ConsumerMode=True, Mixed=False)}
        # (mixed: single records read and consumers - expecting the bytes of the next 0..2 records - taking turns on one connection)
        cfgs["mixed"] = dict(MaxRecords=4, MaxManip=1, MaxReads=4, ConsumerMode=False, Mixed=True)
        if not quick:
            cfgs["queue2"] = dict(MaxRecords=4, MaxManip=2, MaxReads=4, ConsumerMode=False, Mixed=False)
            cfgs["consumer2"] = dict(MaxRecords=3, MaxManip=2, MaxReads=0, ConsumerMode=True, Mixed=False)
        cexs = []
        for name, consts in cfgs.items():
            m = "MC_C06_" + name
            common.write_model(wd, m, "TransitRecords", consts,
                               invariants=["PrefixInv", "HungUpWhenBad", "NoReadLeftBehind", "ConsumerNotLeftBehind", "ConsumerTruth", "AttachedSane"],
                               properties=["NothingAfterTamper", "QueuedObtainable"])
            r = tlc.run(m + ".tla", m + ".cfg", cwd=wd.path, timeout=1800)
            cov["tlc_configs"][name] = {"distinct_states": r.distinct, "states_generated": r.generated, "depth": r.depth,
                                        "wall_s": round(r.wall, 1), "result": "ok" if r.ok else (r.violated or "error")}
            states += r.distinct
            transitions += r.generated
            if r.violated:
                cexs.append((name, consts, r.trace))
            elif not r.ok:
                raise RuntimeError("TLC failed on %s: %s" % (m, r.error or r.stdout[-1500:]))
        # behaviours: simulation of a generous configuration, both reader modes
        tid = 0
        behaviours = [(consts["ConsumerMode"], consts["MaxRecords"], model_to_acts(tr), "tlc-cex:" + name) for name, consts, tr in cexs]
        for cm in (False, True):
            g = "MC_C06_gen_%s" % ("c" if cm else "q")
            nrec = 4
            common.write_model(wd, g, "TransitRecords", dict(MaxRecords=nrec, MaxManip=2, MaxReads=0 if cm else 5, ConsumerMode=cm, Mixed=False))
            simdir = wd.file("sim_" + g)
            os.makedirs(simdir)
            n = 60 if quick else 600
            tlc.run(g + ".tla", g + ".cfg", cwd=wd.path, workers=6, simulate={"num": n // 6, "file": os.path.join(simdir, "tr")},
                    depth=30, seed=seed + 3 + int(cm), timeout=900)
            for tr in tlc.read_sim_traces(os.path.join(simdir, "tr")):
                behaviours.append((cm, nrec, model_to_acts(tr), "tlc-sim"))
        # covering family: every operation kind at every position of a stream of k records, applied after j
        # records were already received; all are behaviours of TransitRecords.tla (Next allows any order)
        for cm in (False, True):
            for k in (2, 3, 4) if not quick else (3,):
                for j in range(0, k):
                    for i in range(1, k - j + 1):
                        ops = [("Flip", i, w) for w in ("len", "nonce", "body", "tag")] + [("Delete", i, "-"), ("Replay", i, "-")]
                        ops += [("Inject", i, n) for n in (0, j, j + 1)]
                        if i < k - j:
                            ops.append(("Swap", i, "-"))
                        for op in ops:
                            acts = [("Send", x + 1, "-") for x in range(k)]
                            if not cm:
                                acts += [("Read", 0, "-")] * (k // 2)
                            acts += [("Recv", 0, "-")] * j + [op]
                            nrecv = (k - j) + (1 if op[0] in ("Replay", "Inject") else 0) - (1 if op[0] == "Delete" else 0)
                            acts += [("Recv", 0, "-")] * nrecv
                            if not cm:
                                acts += [("Read", 0, "-")] * (k - k // 2)
                            acts += [("Lose", 0, "-")]
                            behaviours.append((cm, k, acts, "cover"))
        # late readers: records arrive, the peer closes (or the network cuts) and only then does the application ask - for some of
        # them, for all, for more; with and without a manipulated frame behind the good ones
        for k in (1, 2, 3):
            for nread_before in range(0, k):
                for closing in ("Cut", "Tamper"):
                    acts = [("Send", x + 1, "-") for x in range(k)] + [("Read", 0, "-")] * nread_before + [("Recv", 0, "-")] * k
                    if closing == "Tamper":
                        acts += [("Inject", 1, 0), ("Recv", 0, "-"), ("Lose", 0, "-")]
                    else:
                        acts += [("Cut", 0, "-")]
                    acts += [("Read", 0, "-")] * (k - nread_before)
                    behaviours.append((False, k, acts, "late-reader"))
        # clean, slow transfers (no adversary at all): the connection must simply stay up and deliver
        for cm in (False, True):
            for k in (1, 3):
                acts = [("Send", x + 1, "-") for x in range(k)] + ([] if cm else [("Read", 0, "-")] * k) + [("Recv", 0, "-")] * k
                behaviours.append((cm, k, acts, "clean-slow"))
        # refused calls in between: send_record() with something that is not bytes raises and must leave the stream alone
        for cm in (False, True):
            for pat in ((1, 0, 1, 1, 0, 1), (0, 1, 0, 1), (1, 1, 0, 0, 0, 1, 1)):
                acts, k = [], 0
                for j, good in enumerate(pat):
                    if good:
                        k += 1
                        acts.append(("Send", k, "-"))
                    else:
                        acts.append(("SendBad", j, "-"))
                acts += ([] if cm else [("Read", 0, "-")] * k) + [("Recv", 0, "-")] * k
                behaviours.append((cm, k, acts, "refused-send"))
        # long histories: the nonce counter goes past one byte (and, in thorough, past 600 records); clean, and with the very first
        # frame shown again where the frame whose nonce has the same low byte is due
        for k in ((300,) if quick else (300, 700)):
            sends = [("Send", x + 1, "-") for x in range(k)]
            behaviours.append((False, k, sends + [("Read", 0, "-")] * k + [("Recv", 0, "-")] * k, "clean-long"))
            behaviours.append((True, k, sends + [("Recv", 0, "-")] * k, "clean-long"))
            behaviours.append((False, k, sends + [("Read", 0, "-")] * k + [("Recv", 0, "-")] * 256 + [("ReplayOld", 1, 1)] +
                               [("Recv", 0, "-")] * (k - 256 + 1) + [("Lose", 0, "-")], "long-replay"))
        cov["behaviours"] = len(behaviours)
        nontrivial = set()
        for (cm, nrec, acts, origin) in behaviours:
            variants = [(d, ch) for d in ("s2r", "r2s") for ch in CHUNKINGS]
            rng.shuffle(variants)
            if all(a[0] in ("Send", "SendBad", "Read", "Recv", "Lose") for a in acts):
                # nobody touches the stream: reads may end anywhere, also a few bytes into the next length prefix
                variants = [("s2r", "straddle"), ("r2s", "straddle")][:1 if quick and origin == "tlc-sim" else 2] + variants
            if origin in ("clean-long", "long-replay"):
                variants = [v_ for v_ in variants if v_[1] != "bytes"][:2 if quick else 4]
            for (direction, chunking) in variants[:(3 if quick else 10)]:
                tid += 1
                sizes = rng.choice(SIZE_PROFILES[:2] if chunking == "bytes" else SIZE_PROFILES)
                slow = (tid % 5 == 4) or origin == "clean-slow"
                if slow and acts and acts[-1][0] == "Lose":
                    acts = acts[:-1]          # (so that there is a connection left to look at)
                run = RecordRun(tid, direction, chunking, cm, random.Random(seed * 7919 + tid), sizes, slow=slow)
                run.async_close = (tid % 3 == 0)
                run.loop_reader = (not cm) and (tid % 4 < 2)
                run.pausing = cm and (tid % 2 == 0)
                if cm:
                    run.attach_consumer(nrec)
                try:
                    for a in acts:
                        run.do(a)
                except Exception as e:     # harness could not follow the model: report as drift, not as a verdict
                    cov["harness_errors"] = cov.get("harness_errors", 0) + 1
                    if len(cov.setdefault("drift", [])) < 5:
                        cov["drift"].append({"tid": tid, "error": repr(e)[:200], "acts": acts[:20]})
                rec = run.finish()
                rec["origin"] = origin
                records.append(rec)
                runs[tid] = run
                if any(a[0] in ("Flip", "Delete", "Swap", "Replay", "ReplayOld", "Inject", "Cut") for a in acts):
                    nontrivial.add((tuple(acts), direction, chunking))
        # family: reads and consumers taking turns on one connection (an empty file's consumer expects no bytes while the next
        # header is already waiting)
        nmixed = 0
        for program in mixed_programs(quick):
            for arrival in ("all", "step", "ahead"):
                for direction in ("s2r", "r2s"):
                    tid += 1
                    nmixed += 1
                    try:
                        run, rec = mixed_case(tid, program, arrival, direction)
                    except Exception as e:
                        cov["harness_errors"] = cov.get("harness_errors", 0) + 1
                        if len(cov.setdefault("drift", [])) < 5:
                            cov["drift"].append({"tid": tid, "error": repr(e)[:200], "mixed": program})
                        continue
                    records.append(rec)
                    runs[tid] = run
        cov["mixed_read_consume_cases"] = nmixed
        # code -> spec: seeded random walks over real connections, validated by TLC against TransitRecords.tla
        wrng = random.Random(seed * 7919 + 6)
        tv = {"walks": 0, "accepted": 0, "rejected": []}
        for name, consts in (("walk_queue", dict(MaxRecords=4, MaxManip=2, MaxReads=5, ConsumerMode=False, Mixed=False)),
                             ("walk_consumer", dict(MaxRecords=4, MaxManip=2, MaxReads=0, ConsumerMode=True, Mixed=False))):
            traces = {}
            for _ in range(40 if quick else 400):
                tid += 1
                run, lines = record_walk(tid, consts, random.Random(wrng.random()))
                traces[tid] = lines
                rec = run.finish()
                rec["origin"] = "real-walk"
                records.append(rec)
                runs[tid] = run
            res, r_ = common.trace_validate(wd, "TransitRecords", consts, traces, REC_T_PROJ, "MC_C06_trace_" + name)
            for t, (reached, total) in sorted(res.items()):
                tv["walks"] += 1
                if reached == total:
                    tv["accepted"] += 1
                elif len(tv["rejected"]) < 6:
                    tv["rejected"].append({"tid": t, "config": name, "matched_lines": reached, "of": total,
                                           "next_line": traces[t][reached] if reached < total else None,
                                           "schedule": [list(a) for a in runs[t].schedule[:reached + 1]]})
        # ... and walks of a sequential application that reads and consumes in turn (Mixed configuration)
        mconsts = dict(MaxRecords=4, MaxManip=0, MaxReads=8, ConsumerMode=False, Mixed=True)
        mtraces = {}
        for _ in range(40 if quick else 400):
            tid += 1
            mw = mixed_walk(tid, random.Random(wrng.random()))
            mtraces[tid] = mw.lines
            rec = mw.finish()
            records.append(rec)
            runs[tid] = mw
        # spec -> code for the same configuration: simulated behaviours stepped through a real pair, projection compared
        common.write_model(wd, "MC_C06_gen_mixed", "TransitRecords", mconsts)
        simdir = wd.file("sim_mixed")
        os.makedirs(simdir)
        tlc.run("MC_C06_gen_mixed.tla", "MC_C06_gen_mixed.cfg", cwd=wd.path, workers=2, simulate={"num": (24 if quick else 240) // 2, "file": os.path.join(simdir, "tr")},
                depth=24, seed=seed + 9, timeout=600)
        mdrift = []
        nmix = 0
        for tr in tlc.read_sim_traces(os.path.join(simdir, "tr")):
            tid += 1
            nmix += 1
            mw = MixedWalk(tid, "s2r" if tid % 2 else "r2s", random.Random(tid))
            for i, st in enumerate(tr[1:], start=1):
                mw.do(tuple(st["last"]))
                real = mw.lines[-1]["proj"]
                spec = {"sent": len(st["sent"] or ()), "inflight": len(st["wire"] or ()), "delivered": list(st["delivered"] or ()),
                        "queued": list(st["queued"] or ()), "reads": st["reads"], "failedReads": st["failedReads"], "rstate": st["rstate"],
                        "consumerDone": st["consumerDone"], "cattached": st["cattached"]}
                if real != spec:
                    if len(mdrift) < 4:
                        mdrift.append({"tid": tid, "step": i, "action": list(st["last"]),
                                       "diff": ["%s: spec=%s real=%s" % (k, spec[k], real[k]) for k in spec if spec[k] != real[k]][:4]})
                    break
            rec = mw.finish()
            rec["origin"] = "tlc-sim:mixed"
            records.append(rec)
            runs[tid] = mw
        cov["mixed_spec_to_code"] = {"behaviours": nmix, "drift": mdrift}
        res, r_ = common.trace_validate(wd, "TransitRecords", mconsts, mtraces, MIX_T_PROJ, "MC_C06_trace_mixed")
        for t, (reached, total) in sorted(res.items()):
            tv["walks"] += 1
            if reached == total:
                tv["accepted"] += 1
            elif len(tv["rejected"]) < 6:
                tv["rejected"].append({"tid": t, "config": "mixed", "matched_lines": reached, "of": total,
                                       "next_line": mtraces[t][reached] if reached < total else None,
                                       "schedule": [list(a) for a in runs[t].schedule[:reached + 1]]})
        cov["trace_validation"] = dict(tv, rule="each walk = up to 25 steps (send, receive, read, adversary operations on whole frames, cut) on "
                                       "a real negotiated Connection pair; accepted = TransitRecords.tla has a behaviour with the same "
                                       "actions and the same projection (records sent / in flight, next expected nonce, delivered and "
                                       "queued payloads, outstanding and failed reads, connection state, consumer result) after every step")
        # observer
        path = wd.file("obs.ndjson")
        with open(path, "w") as f:
            for rec in records:
                f.write(json.dumps(rec) + "\n")
        with open(wd.file("MC_TObs.cfg"), "w") as f:
            f.write("SPECIFICATION Spec\nCHECK_DEADLOCK FALSE\n")
        with open(wd.file("MC_TObs.tla"), "w") as f:
            f.write("---- MODULE MC_TObs ----\nEXTENDS TransitObs\n====\n")
        r = tlc.run("MC_TObs.tla", "MC_TObs.cfg", workers=1, cwd=wd.path, env={"OBS_FILE": path}, timeout=1800)
        names = ["Prefix", "NothingAfter", "Down", "ReadsFail", "Consumer", "AllWhenClean", "NoInternal", "QueuedObtainable"]
        verdicts = {t[1]: dict(zip(names, t[2])) for t in tlc.printed_tuples(r.stdout, "OBS")}
        if len(verdicts) != len(records):
            raise RuntimeError("observer evaluated %d of %d runs\n%s" % (len(verdicts), len(records), r.stdout[-2000:]))
        failing = 0
        for rec in records:
            bad = [n for n in names if not verdicts[rec["tid"]][n]]
            if bad:
                failing += 1
                run = runs[rec["tid"]]
                manip = [a[0] + (":" + str(a[2]) if a[0] == "Flip" else "") for a in run.schedule if a[0] in
                         ("Flip", "Delete", "Swap", "Replay", "Inject", "Cut")]
                v.violation({"clause": bad[0], "manipulation": manip[0] if manip else "none", "mode": "consumer" if rec["consumer"] else "queue"},
                            "%s fails on a real Transit connection (%s, chunking %s): %s" % (",".join(bad), rec["direction"], rec["chunking"],
                                                                                             json.dumps({k: rec[k] for k in ("sent", "got", "atTamper", "state", "pendingReads", "consumerDone")})),
                            {"schedule": run.schedule, "direction": rec["direction"], "chunking": rec["chunking"], "sizes": run.sizes, "async_close": run.async_close, "loop_reader": run.loop_reader, "slow": run.slow, "pausing_consumer": run.pausing,
                             "consumer": rec["consumer"], "observation": rec})
        cov.update(states=states, transitions=transitions, traces_validated_against_impl=len(records), evaluations=len(records),
                   distinct_nontrivial=len(nontrivial), failing_runs=failing,
                   rule="a run = one TLC behaviour of TransitRecords.tla executed on a real negotiated Connection pair in one direction "
                        "with one chunking and one record-size profile; non-trivial = contains an adversary operation; distinct = "
                        "distinct (behaviour, direction, chunking)")
        for rec in records[:2]:
            cov["samples"].append({"schedule": runs[rec["tid"]].schedule, "direction": rec["direction"], "chunking": rec["chunking"],
                                   "got": rec["got"], "state": rec["state"]})
    return v.finish(cov, assumptions=[
        "SecretBox is a secure AEAD (the adversary cannot produce a frame that authenticates)",
        "an altered length prefix may leave the receiver waiting for bytes that never come; the property's 'connection is "
        "dropped' clause is judged only once a complete manipulated frame has been consumed (DESIGN 3.1)",
        "TLC bounds: <=4 records, <=2 adversary operations per direction"])


class MixedRun:
    """what a file transfer does with a connection: single records read (offer headers, acks) between stretches handed to a consumer
    that expects a number of bytes - possibly none at all (an empty file) - while later records are already waiting"""
    async_close = loop_reader = slow = pausing = False
    sizes = []

    def __init__(self, schedule):
        self.schedule = schedule


def mixed_case(tid, program, arrival, direction):
    """program: ["read"] | ["consume", k] (the next k records' bytes; k may be 0); arrival: how many records are delivered before the
    application's first call ("all"), just what each call needs after it was issued ("step"), or that and one record more ("ahead")"""
    cs, cr, link = make_pair()
    src, dst = (cs, cr) if direction == "s2r" else (cr, cs)
    logged = Logged()
    log.addObserver(logged)
    nrec = sum(1 if op[0] == "read" else op[1] for op in program)
    payloads = [b"rec-%d-" % (i + 1) + bytes([65 + i]) * (3 * i + 1) for i in range(nrec)]
    got, internal = [], []
    sent_n = [0]

    def send(k):
        for _ in range(k):
            if sent_n[0] < nrec:
                src.send_record(payloads[sent_n[0]])
                sent_n[0] += 1
        pump()

    def ident(b):
        return payloads.index(bytes(b)) + 1 if bytes(b) in payloads else 900000 + len(b) % 1000
    if arrival == "all":
        send(nrec)
    reads, consumers = [], []
    try:
        for opi, op in enumerate(program):
            if op[0] == "read":
                slot = {"r": None}
                reads.append(slot)
                d = dst.receive_record()
                d.addCallbacks(lambda r, slot=slot: (slot.__setitem__("r", "ok"), got.append(ident(r))),
                               lambda f, slot=slot: slot.__setitem__("r", "err"))
            else:
                k = op[1]
                base = sum(1 if o[0] == "read" else o[1] for o in program[:opi])
                expected = sum(len(p) for p in payloads[base:base + k])
                c = {"done": "-", "n": 0, "expected": expected, "bytes": 0}
                consumers.append(c)

                class Sink:
                    def write(self_, b, c=c):
                        if len(b):
                            c["bytes"] += len(b)
                            got.append(ident(b))
                d = dst.writeToFile(Sink(), expected)
                d.addCallbacks(lambda n, c=c: (c.__setitem__("done", "ok"), c.__setitem__("n", n)),
                               lambda f, c=c: c.__setitem__("done", "err"))
            # the application is sequential: an operation has what it needs before the next is issued
            need = sum(1 if o[0] == "read" else o[1] for o in program[:opi + 1])
            send(max(0, need + (1 if arrival == "ahead" else 0) - sent_n[0]))
            pump()
        send(nrec)
        pump()
        for _ in range(len(dst._inbound_records)):          # whatever the program left unread is read now
            d = dst.receive_record()
            d.addCallbacks(lambda r: got.append(ident(r)), lambda f: None)
        pump()
    except Exception as e:
        internal.append("%s: %s" % (type(e).__name__, str(e)[:100]))
    for e in logged.items:
        internal.append("%s: %s" % (type(e).__name__, str(e)[:80]))
    log.removeObserver(logged)
    t = dst.transport
    state = "lost" if not t.connected else ("hung up" if t.disconnecting else dst.state)
    alldone = all(c["done"] == "ok" for c in consumers)
    rec = {"lateReadFailed": 0, "tid": tid, "sent": list(range(1, nrec + 1)), "got": got, "atTamper": -1, "desync": False,
           "state": state if state in ("records", "hung up", "lost") else str(state),
           "pendingReads": sum(1 for r in reads if r["r"] is None),
           "consumerDone": "ok" if (consumers and alldone) else ("-" if not any(c["done"] == "err" for c in consumers) else "err"),
           "consumerBytes": sum(c["n"] for c in consumers), "sentBytes": sum(len(p) for p in payloads),
           "expectedBytes": sum(c["expected"] for c in consumers), "gotBytes": sum(c["bytes"] for c in consumers),
           "clean": True, "inflight": nrec - len(got), "internal": internal, "direction": direction, "chunking": "whole",
           "consumer": bool(consumers), "loopReader": False, "rearmed": 0, "slow": False, "envClosed": False, "pausingConsumer": False,
           "origin": "mixed:" + arrival}
    if consumers and not alldone and state == "records" and sent_n[0] == nrec:
        # a consumer that was sent all its bytes over an untouched connection and is still waiting: reported as pending reads
        rec["pendingReads"] += sum(1 for c in consumers if c["done"] == "-")
        rec["state"] = "lost" if False else rec["state"]
    return MixedRun([["mixed", program, arrival, direction]]), rec


def mixed_programs(quick):
    R = ["read"]
    progs = [[R, ["consume", 0], R], [R, ["consume", 0], R, ["consume", 2], R], [["consume", 0], R, R], [R, ["consume", 1], R],
             [R, ["consume", 2], R, ["consume", 0], ["consume", 0], R], [["consume", 3]], [R, R, ["consume", 0]],
             [R, ["consume", 1], ["consume", 0], R, ["consume", 1]]]
    return progs if not quick else progs[:6]


def run(prop, tier):
    if prop == "C06":
        return run_c06(prop, tier)
    from . import transit_select
    return transit_select.run(prop, tier)


def replay(prop, path):
    d = json.load(open(path))["replay"]
    if prop != "C06":
        from . import transit_select
        return transit_select.replay(prop, path)
    if d.get("observation", {}).get("origin") == "mixed-walk":
        mw = MixedWalk(1, d["direction"], random.Random(1))
        for a in d["schedule"]:
            mw.do(tuple(a))
            print(a, "->", mw.projection())
        print(json.dumps(mw.finish(), indent=1))
        return 0
    if d["schedule"] and d["schedule"][0][0] == "mixed":
        _r, rec = mixed_case(1, d["schedule"][0][1], d["schedule"][0][2], d["schedule"][0][3])
        print(json.dumps(rec, indent=1))
        return 0
    run_ = RecordRun(1, d["direction"], d["chunking"], d["consumer"], random.Random(1), d["sizes"], slow=bool(d.get("slow")))
    run_.async_close = bool(d.get("async_close"))
    run_.loop_reader = bool(d.get("loop_reader"))
    run_.pausing = bool(d.get("pausing_consumer"))
    if d["consumer"]:
        run_.attach_consumer(4)
    for a in d["schedule"]:
        run_.do(tuple(a))
        print(a, "->", run_.got, run_.dst.state)
    rec = run_.finish()
    print(json.dumps(rec, indent=1))
    return 0
