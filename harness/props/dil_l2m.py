"""Supplementary to C12 / C11: one Dilation L2 connection at the level of its three machines on both ends
(spec/DilationL2M.tla over the extracted _Framer / _Record / DilatedConnectionProtocol tables).

TLC checks the module (with and without a relay); seeded random walks over what two real DilatedConnectionProtocol objects
and the network between them offer - connectionMade on either end, the relay pairing the two, the oldest unit arriving (or
two joined in one read), the Connector's selection turn on either end, a Manager writing a record, a cut - are recorded
with the state of the six machines, the candidates, the inbound queues and what each Manager was handed after every step,
and validated by TLC against the specification (code -> spec).  Nothing here produces a VIOLATION line."""
import copy
import json
import random
import sys
from unittest import mock

from twisted.internet.address import IPv4Address
from twisted.python import log
from zope.interface import alsoProvides

from .. import common, tlc, sim
from .dil_l2 import reactor, KEY, Logged, C, LEADER, FOLLOWER, build_noise, PROLOGUE_LEADER, PROLOGUE_FOLLOWER, EventualQueue
from automat._methodical import _transitionerFromInstance


def machine_state(obj):
    """the Automat state of obj (its class keeps the machine in `m` or, for _Record, in `n`)"""
    cls = type(obj)
    mm = getattr(cls, "m", None) or getattr(cls, "n")
    return _transitionerFromInstance(obj, mm._symbol, mm._automaton)._state._name()
from wormhole._interfaces import IDilationConnector, IDilationManager
from wormhole._dilation.connector import build_sided_relay_handshake

INVARIANTS = ["NoInternal", "ManagerOnlySelected", "InOrderOnce", "QueueOnlySelecting", "FollowerFollowsLeader",
              "CandidateNeedsHandshake", "WriteOnlySelected"]
PROPERTIES = ["NoDropWithoutCut", "Converges"]
T_PROJ = ("[fr |-> fr, rec |-> rec, dcp |-> dcp, made |-> made, cand |-> cand, canRec |-> canRec, inq |-> inq, toMgr |-> toMgr, "
          "nsent |-> nsent, up |-> up, wirelen |-> [e \\in E |-> Len(wire[e])], ninternal |-> Len(internal)]")
GOALS = {
    "record_waits_for_follower_turn": 'inq["F"] # <<>>',
    "two_records_wait": 'Len(inq["F"]) >= 2',
    "queue_handed_over": 'last = <<"Select", "F">> /\\ Len(toMgr["F"]) >= 1',
    "both_selected_all_arrived": 'dcp["L"] = "selected" /\\ dcp["F"] = "selected" /\\ Len(toMgr["L"]) = MaxRecords /\\ Len(toMgr["F"]) = MaxRecords',
}


class End:
    def __init__(self, side, eq, relay):
        self.side = side
        self.records = []
        self.cand = False
        self.nsent = 0
        connector = mock.Mock()
        alsoProvides(connector, IDilationConnector)
        connector.add_candidate = lambda p: setattr(self, "cand", True)
        self.manager = mock.Mock()
        alsoProvides(self.manager, IDilationManager)
        self.manager.got_record = self.records.append
        noise = build_noise()
        noise.set_psks(KEY)
        role = LEADER if side == "L" else FOLLOWER
        if role is LEADER:
            noise.set_as_initiator()
            out, inn = PROLOGUE_LEADER, PROLOGUE_FOLLOWER
        else:
            noise.set_as_responder()
            out, inn = PROLOGUE_FOLLOWER, PROLOGUE_LEADER
        self.p = C.DilatedConnectionProtocol(eq, role, "l2m-" + side, connector, noise, out, inn)
        if relay:
            self.p.use_relay(build_sided_relay_handshake(KEY, ("a" if side == "L" else "b") * 16))


class World:
    IDX = {"L": 0, "F": 1}

    def __init__(self, relay, maxrec):
        reactor.reset()
        self.relay, self.maxrec = relay, maxrec
        self.eq = EventualQueue(reactor)
        self.ends = {n: End(n, self.eq, relay) for n in ("L", "F")}
        self.made = {"L": False, "F": False}
        self.at_relay = {"L": False, "F": False}
        self.logged = Logged()
        log.addObserver(self.logged)
        reactor._nextid += 1
        link = sim.SimLink(reactor, reactor._nextid, 4001)
        a0, a1 = IPv4Address("TCP", "127.0.0.1", 50001), IPv4Address("TCP", "127.0.0.1", 4001)
        link.ends[0] = sim.SimTransport(link, 0, self.ends["L"].p, a0, a1)
        link.ends[1] = sim.SimTransport(link, 1, self.ends["F"].p, a1, a0)
        reactor.links.append(link)
        self.link = link
        self.cut = False

    def close(self):
        try:
            log.removeObserver(self.logged)
        except ValueError:
            pass

    def peer(self, n):
        return "F" if n == "L" else "L"

    def t(self, n):
        return self.link.ends[self.IDX[n]]

    def up(self):
        return not self.cut and not self.link.cut and all(not self.t(n).disconnecting and self.t(n).connected for n in ("L", "F"))

    def settle(self):
        for _ in range(50):
            due = reactor.due()
            if not due:
                return
            reactor.run_call(due[0])

    # ---- what is enabled, as the real objects show it
    def enabled(self):
        acts = []
        if not self.up():
            return acts
        for n in ("L", "F"):
            if not self.made[n]:
                acts.append(("Made", n))
        if self.relay and all(self.at_relay.values()):
            acts.append(("RelayPair", "-"))
        for n in ("L", "F"):
            if self.made[n] and self.t(self.peer(n)).out:
                acts.append(("Deliver", n))
            e = self.ends[n]
            if e.cand and machine_state(e.p) == "selecting":
                acts.append(("Select", n))
            if e.p._can_send_records and e.nsent < self.maxrec:
                acts.append(("Write", n))
        acts.append(("Cut", "-"))
        return acts

    def do(self, act, join=False):
        a, n = act
        if a == "Made":
            self.made[n] = True
            t = self.t(n)
            try:
                reactor.call_protocol(t.protocol.makeConnection, t)
            except sim._ProtocolRaised:
                t.loseConnection()
            if self.relay and t.out and t.out[0].startswith(b"please relay"):
                t.out.pop(0)                    # the relay has it
                self.at_relay[n] = True
        elif a == "RelayPair":
            self.at_relay = {"L": False, "F": False}
            for x in ("L", "F"):
                self.t(self.peer(x)).out.append(b"ok\n")      # (what the relay writes to x travels on the peer's side of the link)
        elif a == "Deliver":
            src = self.t(self.peer(n))
            if join and len(src.out) >= 2:
                src.out[0:2] = [src.out[0] + src.out[1]]
            try:
                self.link.deliver(self.IDX[self.peer(n)])
            except sim._ProtocolRaised:
                self.t(n).loseConnection()
        elif a == "Select":
            e = self.ends[n]
            e.p.select(e.manager)
            if n == "L":
                e.p.send_record(C.KCM())
        elif a == "Write":
            e = self.ends[n]
            e.nsent += 1
            e.p.send_record(C.Data(e.nsent, 1, b"payload %d" % e.nsent))
        elif a == "Cut":
            self.cut = True
            self.link.do_cut()
        self.settle()

    def proj(self):
        def st(n, which):
            p = self.ends[n].p
            if not self.made[n] or not hasattr(p, "_record"):
                return {"fr": "want_relay" if self.relay else "want_prologue", "rec": "no_role_set"}[which]
            return machine_state(p._record._framer if which == "fr" else p._record)
        up = self.up()
        out = {"fr": {}, "rec": {}, "dcp": {}, "made": dict(self.made), "cand": {}, "canRec": {}, "inq": {}, "toMgr": {}, "nsent": {},
               "up": up, "wirelen": {}, "ninternal": len(self.logged.items)}
        for n in ("L", "F"):
            e = self.ends[n]
            out["fr"][n], out["rec"][n], out["dcp"][n] = st(n, "fr"), st(n, "rec"), machine_state(e.p)
            out["cand"][n] = bool(e.cand)
            out["canRec"][n] = bool(e.p._can_send_records)
            out["inq"][n] = [getattr(r, "seqnum", -1) for r in e.p._inbound_record_queue]
            out["toMgr"][n] = [getattr(r, "seqnum", -1) for r in e.records]
            out["nsent"][n] = e.nsent
            out["wirelen"][n] = len(self.t(self.peer(n)).out) if up else 0
        return out


def walk(tid, relay, maxrec, rng, nsteps=40, policy=None):
    w = World(relay, maxrec)
    lines = []
    try:
        for i in range(nsteps):
            acts = w.enabled()
            if not acts:
                break
            if policy is not None:
                act = policy(w, acts, i)
                if act is None:
                    break
            else:
                real = [a for a in acts if a[0] != "Cut"]
                act = ("Cut", "-") if (rng.random() < 0.04 or not real) else rng.choice(real)
            join = act[0] == "Deliver" and len(w.t(w.peer(act[1])).out) >= 2 and rng.random() < 0.35
            w.do(act, join=join)
            if join:
                # two units in one read: two steps of the model, the state between them cannot be observed
                lines.append({"a": list(act), "proj": {}, "chk": False})
            lines.append({"a": list(act), "proj": w.proj()})
            if act[0] == "Cut":
                break
        info = {"relay": relay, "final": w.proj(), "logged": [repr(x)[:100] for x in w.logged.items][:3]}
        return lines, info
    finally:
        w.close()


def follower_late_policy(w, acts, i):
    """everything else first; the Follower's selection turn last (records pile up in its inbound queue)"""
    for a in acts:
        if a[0] not in ("Cut",) and a != ("Select", "F"):
            return a
    for a in acts:
        if a == ("Select", "F"):
            return a
    return None


def run_family(wd, quick, seed):
    cov = {"tlc_configs": {}}
    for name, relay in (("direct", False), ("relay", True)):
        m = "MC_L2M_" + name
        consts = dict(UseRelay=relay, MaxRecords=2 if quick else 3)
        common.write_model(wd, m, "DilationL2M", consts, invariants=INVARIANTS, properties=PROPERTIES)
        r = tlc.run(m + ".tla", m + ".cfg", cwd=wd.path, timeout=900)
        cov["tlc_configs"][name] = {"distinct_states": r.distinct, "states_generated": r.generated, "depth": r.depth, "wall_s": round(r.wall, 1),
                                    "result": "ok" if r.ok else (r.violated or "error"), "constants": {k: str(v) for k, v in consts.items()}}
        wit, unreached = common.witnesses(wd, "DilationL2M", consts, GOALS, "MC_L2M_goal_" + name)
        cov["tlc_configs"][name]["goals"] = {"reached": [g for g, _ in wit], "unreached": unreached}
    rng = random.Random(seed * 104729 + 7)
    res_all = {"walks": 0, "accepted": 0, "rejected": [], "lines": 0, "joined_reads": 0, "records_waited_for_the_turn": 0}
    for name, relay in (("direct", False), ("relay", True)):
        maxrec = 3
        traces, infos = {}, {}
        n = 30 if quick else 200
        for k in range(n):
            tid = (1 if relay else 0) * 10000 + k + 1
            pol = follower_late_policy if k % 5 == 0 else None
            lines, info = walk(tid, relay, maxrec, random.Random(rng.random()), policy=pol)
            traces[tid], infos[tid] = lines, info
        # binding demonstration: a machine state, a queue, a hand-over altered in a recorded walk
        demo = {}
        for t in sorted(traces, key=lambda t: (-len(traces[t]), t))[:10]:
            for how in ("state", "queue", "drop"):
                lines = copy.deepcopy(traces[t])
                idx = [i for i, l in enumerate(lines) if l.get("chk", True)]
                if len(idx) < 4:
                    continue
                i = idx[len(idx) // 2]
                if how == "state":
                    lines[i]["proj"]["rec"]["L"] = "want_handshake_leader" if lines[i]["proj"]["rec"]["L"] != "want_handshake_leader" else "want_message"
                elif how == "queue":
                    lines[-1]["proj"]["toMgr"]["F"] = lines[-1]["proj"]["toMgr"]["F"] + [9]
                else:
                    del lines[i]
                demo[900000 + len(demo) + (1000 if relay else 0)] = lines
        alltr = dict(traces)
        alltr.update(demo)
        res, _r = common.trace_validate(wd, "DilationL2M", dict(UseRelay=relay, MaxRecords=maxrec), alltr, T_PROJ, "MC_L2M_trace_" + name)
        cov.setdefault("binding_demo", {})[name] = {"altered_walks": len(demo), "rejected": sum(1 for t in demo if res[t][0] < res[t][1])}
        for t in sorted(traces):
            reached, total = res[t]
            res_all["walks"] += 1
            res_all["lines"] += total
            res_all["joined_reads"] += sum(1 for l in traces[t] if not l.get("chk", True))
            res_all["records_waited_for_the_turn"] += int(any(l.get("chk", True) and l["proj"]["inq"]["F"] for l in traces[t]))
            if reached == total:
                res_all["accepted"] += 1
            elif len(res_all["rejected"]) < 5:
                res_all["rejected"].append({"tid": t, "relay": relay, "matched_lines": reached, "of": total,
                                            "next_line": traces[t][reached] if reached < total else None,
                                            "before": traces[t][reached - 1]["proj"] if reached >= 1 else None,
                                            "logged": infos[t]["logged"]})
    cov["walks"] = res_all
    cov["rule"] = ("a walk = seeded random choices among what two real DilatedConnectionProtocol objects and the link between them offer "
                   "(connectionMade, relay pairing, a unit or two joined units arriving, the selection turn, a record written, a cut); "
                   "every step is a recorded line with the states of _Framer / _Record / DilatedConnectionProtocol on both ends, candidates, "
                   "inbound queues, what each Manager was handed, units in flight; accepted = DilationL2M.tla (tables extracted from the "
                   "tree) has a behaviour with the same actions and the same projection after every step")
    return cov


if __name__ == "__main__":
    with common.Workdir("l2m") as wd:
        wd.gen_tables()
        print(json.dumps(run_family(wd, "--thorough" not in sys.argv, common.seed()), indent=1, default=str))
