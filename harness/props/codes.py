"""C19 - codes are well-formed with the promised entropy; code entry is consistent.

spec/Codes.tla (over the frozen word lists PGPWords.tla) is model-checked by TLC, which also prints the
expected answer for every case of the enumerated spaces (all typed prefixes, all short code strings,
the byte->word tables); the real functions are run on every printed case ("one implementation test per
case of the model").  The code-entry protocol part (only one of allocate/set/input, helper call orders,
nothing sent for a malformed code) is checked on spec/Wormhole.tla and through replays, as for the other
mailbox properties.
"""
import itertools
import json
import os
import random
import time
import types

from .. import common, tlc
from . import mailbox
from ..mbworld import MailboxWorld, pinned_urandom


def run_codes_model(wd, numwords, codes_len):
    name = "MC_Codes%d" % numwords
    with open(wd.file(name + ".tla"), "w") as f:
        f.write("---- MODULE %s ----\nEXTENDS Codes\nASSUME ReportCodes(%d)\nASSUME ReportLists\n====\n" % (name, codes_len))
    with open(wd.file(name + ".cfg"), "w") as f:
        f.write("SPECIFICATION Spec\nCONSTANT NumWords = %d\nINVARIANT CompletionsExtend\nINVARIANT CompletionsAllocatable\n"
                "CONSTRAINT Report\nCHECK_DEADLOCK FALSE\n" % numwords)
    r = tlc.run(name + ".tla", name + ".cfg", cwd=wd.path, workers=8, timeout=1800)
    if not r.ok:
        raise RuntimeError("TLC failed on Codes.tla: %s" % (r.violated or r.error or r.stdout[-1500:]))
    cmps = tlc.printed_tuples(r.stdout, "CMP")
    codes = tlc.printed_tuples(r.stdout, "CODE")
    lists = tlc.printed_tuples(r.stdout, "LISTS")
    return r, cmps, codes, lists[0]


def nameplate_completion_cases(wd, quick):
    """NameplateInput.tla enumerated by TLC: -> (TlcResult, {history (tuple of frozensets of str): {prefix: set of completions}})"""
    uni = ["1", "12", "3"] if quick else ["1", "12", "3", "31"]
    consts = "Universe <- c_U\n  Typed <- c_P\n  MaxHistory = %d" % (2 if quick else 3)

    def seq(s_):
        return "<<" + ", ".join('"%s"' % ch for ch in s_) + ">>"
    with open(wd.file("MC_NPC.tla"), "w") as f:
        f.write("---- MODULE MC_NPC ----\nEXTENDS NameplateInput\nc_U == {%s}\nc_P == {%s}\n"
                "ASSUME OfferedAreListed\nASSUME ListedAreOffered\nASSUME StaleNeverOffered\nASSUME ReportCases\n"
                "ASSUME AcceptedIsTyped\nASSUME ClaimIsFinal\nASSUME ReportSessions\n====\n"
                % (", ".join(seq(u) for u in uni), ", ".join(seq(p_) for p_ in ["", "1", "12", "3", "4"])))
    with open(wd.file("MC_NPC.cfg"), "w") as f:
        f.write("SPECIFICATION Spec\nCONSTANTS\n  %s\nCHECK_DEADLOCK FALSE\n" % consts)
    r = tlc.run("MC_NPC.tla", "MC_NPC.cfg", cwd=wd.path, workers=4, timeout=1800)
    if not r.ok:
        raise RuntimeError("TLC failed on NameplateInput.tla: %s" % (r.violated or r.error or r.stdout[-1500:]))
    cases = {}
    for (_, h, p_, comps) in tlc.printed_tuples(r.stdout, "NPC"):
        hist = tuple(frozenset("".join(n) for n in listing) for listing in h)
        cases.setdefault(hist, {})["".join(p_)] = {"".join(c) for c in comps}
    sessions = []
    for (_, sess, outcome) in tlc.printed_tuples(r.stdout, "RLC"):
        evs = [{"t": e["t"], "np": "".join(e["np"]), "dash": bool(e.get("dash", True))} for e in sess]
        sessions.append((evs, [outcome[0], "".join(outcome[1]) if outcome[0] == "code" else outcome[1]]))
    return r, cases, sessions


def run_readline_session(events, words="purple-sausages"):
    """one session at the readline prompt on a real wormhole doing input_code(): the real CodeInputter (its blocking call into
    the reactor thread replaced by a direct call), Tab = _commit_and_build_completions(line), Return = finish(line).
    -> ["refused", k] or ["code", nameplate of the code the wormhole ended up with] (or ["error", repr])"""
    from ..mbworld import MailboxWorld
    from wormhole._rlcompleter import CodeInputter
    from wormhole.errors import AlreadyInputNameplateError
    w = MailboxWorld(seed=0, clients=(("A", "deferred"),))
    w.apply({"a": "ConnOpen", "c": "A"})
    w.apply({"a": "AppInput", "c": "A"})
    cl = w.clients["A"]
    ci = CodeInputter(cl.helper, None)
    ci.bcft = lambda f, *a, **kw: f(*a, **kw)
    out = None
    try:
        for k, e in enumerate(events, start=1):
            line = e["np"] + ("-" + words if e["dash"] else "") if e["t"] == "tab" else e["np"] + "-" + words
            try:
                if e["t"] == "tab":
                    cl.world._call_entry(cl, "tab", ci._commit_and_build_completions, line, api=True)
                else:
                    cl.world._call_entry(cl, "return", ci.finish, line, api=True)
            except AlreadyInputNameplateError:
                out = ["refused", k]
                break
            w.drain()
        if out is None:
            w.drain()
            codes = [v for kk, v in cl.events if kk == "code"]
            out = ["code", codes[0].split("-")[0]] if codes else ["error", "no code although Return was accepted"]
            if codes and codes[0] != events[-1]["np"] + "-" + words:
                out = ["code-differs", codes[0]]
    except Exception as ex:
        out = ["error", repr(ex)[:120]]
    internal = ["%s:%s:%r" % x for x in w.internal]
    w.shutdown()
    return out, internal


def run_nameplate_history(hist, prefixes):
    """one history of server listings on a real wormhole doing input_code(): -> [{prefix: completions or exception}] per listing"""
    from ..mbworld import MailboxWorld
    w = MailboxWorld(seed=0, clients=(("A", "deferred"),))
    w.apply({"a": "ConnOpen", "c": "A"})
    w.apply({"a": "AppInput", "c": "A"})
    out = []
    cl = w.clients["A"]
    for listing in hist:
        app = w.server.app(cl.appid)
        app["nameplates"] = {n: {"mailbox": "mbx" + n, "sides": {"0f0f0f0f0f": True}} for n in sorted(listing)}
        w.apply({"a": "AppHelper", "c": "A", "m": "refresh_nameplates"})
        w.drain()
        got = {}
        for p_ in prefixes:
            try:
                got[p_] = set(cl.helper.get_nameplate_completions(p_))
            except Exception as e:
                got[p_] = e
        out.append(got)
    internal = ["%s:%s:%r" % x for x in w.internal]
    w.shutdown()
    return out, internal


def helper_word_completions(prefixes, nameplate="4"):
    """word completions as an application gets them: a real wormhole doing input_code(), the nameplate chosen and claimed,
    the word list delivered, then helper.get_word_completions(prefix) for every prefix -> {prefix: set or exception}"""
    from ..mbworld import MailboxWorld
    w = MailboxWorld(seed=0, clients=(("A", "deferred"),))
    w.apply({"a": "ConnOpen", "c": "A"})
    w.apply({"a": "AppInput", "c": "A"})
    cl = w.clients["A"]
    app = w.server.app(cl.appid)
    app["nameplates"] = {nameplate: {"mailbox": "mbx" + nameplate, "sides": {"0f0f0f0f0f": True}}}
    w.apply({"a": "AppHelper", "c": "A", "m": "refresh_nameplates"})
    w.drain()
    cl.helper.choose_nameplate(nameplate)
    w.drain()
    got = {}
    for p_ in prefixes:
        try:
            got[p_] = set(cl.helper.get_word_completions(p_))
        except Exception as e:
            got[p_] = e
    internal = ["%s:%s:%r" % x for x in w.internal]
    w.shutdown()
    return got, internal


def run(prop, tier):
    assert prop == "C19"
    quick = tier == "quick"
    seed = common.seed()
    rng = random.Random(seed + 19)
    v = common.Verdict(prop, tier)
    cov = {"samples": [], "tlc_configs": {}}
    evaluations = 0
    distinct = set()
    from wormhole._wordlist import PGPWordList
    import wormhole._wordlist as wlmod
    from wormhole.errors import KeyFormatError
    with common.Workdir(prop) as wd:
        # ---------------- 1. Codes.tla
        r, cmps, codes, lists = run_codes_model(wd, 2, 4 if quick else 5)
        states, transitions = r.distinct, r.generated
        cov["tlc_configs"]["Codes_NumWords2"] = {"distinct_states": r.distinct, "states_generated": r.generated,
                                                 "wall_s": round(r.wall, 1), "completion_cases": len(cmps), "code_cases": len(codes)}
        more = {}
        for nw in ((3,) if quick else (3, 4, 5)):
            r3, cmps3, _, _ = run_codes_model(wd, nw, 1)
            states += r3.distinct
            transitions += r3.generated
            more[nw] = cmps3
            cov["tlc_configs"]["Codes_NumWords%d" % nw] = {"distinct_states": r3.distinct, "states_generated": r3.generated,
                                                           "wall_s": round(r3.wall, 1), "completion_cases": len(cmps3)}
        odd, even = lists[1], lists[2]
        wl = PGPWordList()
        # ---------------- 2a. completions: one implementation test per enumerated prefix
        def check_completions(cases, numwords):
            nonlocal evaluations
            for (_, count, last, words, suffix) in cases:
                for variant in range(2 if quick else 4):
                    done = []
                    for i in range(count):
                        lst = odd if i % 2 == 0 else even
                        done.append(lst[rng.randrange(256)] if variant else lst[0])
                    if variant == 3:
                        done = ["zzz"] * count            # junk earlier words are kept as typed
                    prefix = "-".join(done + [last])
                    head = "-".join(done) + ("-" if done else "")
                    expected = {head + w + suffix for w in words}
                    evaluations += 1
                    distinct.add(("cmp", numwords, count, last))
                    try:
                        got = wl.get_completions(prefix, numwords)
                    except Exception as e:
                        got = e
                    if got != expected:
                        bad = [c for c in (got if isinstance(got, set) else [])
                               if not c.startswith(prefix)]
                        v.violation({"clause": "completions", "count": count, "prefix_class": "typed" if last else "empty"},
                                    "get_completions(%r, %d) = %r..., spec says %r..." % (
                                        prefix, numwords, sorted(got)[:3] if isinstance(got, set) else got, sorted(expected)[:3]),
                                    {"call": "get_completions", "prefix": prefix, "num_words": numwords,
                                     "expected": sorted(expected), "not_extending": bad})
                        return
        check_completions(cmps, 2)
        for nw, cs in more.items():
            # (the cases with fewer complete words than NumWords-1 repeat those of the shorter codes but for the suffix)
            check_completions(cs if nw == 3 or not quick else [c for c in cs if c[1] >= nw - 2], nw)
        # ---------------- 2a'. the same question asked where an application asks it: the input helper of a real wormhole
        # (two-word codes: the helper has no length argument).  Every enumerated prefix class of the model is sampled, and typed
        # text of any shape is added - stray hyphens, empty words, more words than the code has: whatever is offered for it
        # must extend it, and must be what the word list itself offers
        hp = {}
        for (_, count, last, words, suffix) in cmps:
            if rng.random() < (0.15 if quick else 1.0) or len(last) <= 1:
                done = [(odd if i % 2 == 0 else even)[rng.randrange(256)] for i in range(count)]
                hp["-".join(done + [last])] = {"-".join(done) + ("-" if done else "") + w_ + suffix for w_ in words}
        stray = ["-", "--", "-a", "-tol", "--a", "a-", "a--", "a--b", "-a-", "tol-", "-tolerance", "tolerance--", "a-b-c", "a-b-", "---",
                 "aardvark-adroitness-a", "-aardvark-a", "zzz-a", "-zzz"]
        for p_ in stray:
            hp.setdefault(p_, None)
        got_h, internal_h = helper_word_completions(sorted(hp))
        for p_ in sorted(hp):
            evaluations += 1
            distinct.add(("helper-cmp", p_))
            g = got_h[p_]
            ref = wl.get_completions(p_)
            not_ext = [c for c in g if not c.startswith(p_)] if isinstance(g, set) else []
            want = hp[p_] if hp[p_] is not None else ref
            if not isinstance(g, set) or not_ext or g != want:
                v.violation({"clause": "helper-completions", "prefix_class": "stray-hyphens" if hp[p_] is None else "enumerated",
                             "not_extending": bool(not_ext)},
                            "input helper get_word_completions(%r) = %r..., expected %r...%s" % (
                                p_, sorted(g)[:3] if isinstance(g, set) else g, sorted(want)[:3],
                                " (offers text that does not extend what was typed: %r)" % not_ext[:2] if not_ext else ""),
                            {"call": "helper.get_word_completions", "prefix": p_})
                break
        if internal_h:
            v.violation({"clause": "helper-completions", "internal": True}, "internal error while completing: %r" % internal_h[:2],
                        {"call": "helper.get_word_completions", "prefixes": sorted(hp)})
        cov["helper_completion_cases"] = len(hp)
        cov["samples"].append({"case": "get_completions", "prefix": cmps[5][2], "count": cmps[5][1],
                               "expected_words": sorted(cmps[5][3])[:5]})
        # ---------------- 2b. choose_words as a function of the random bytes
        def choose(bytes_):
            # (an implementation that draws more random bytes than one per word gets them - from a fixed continuation - and
            # shows the difference in its result; it does not crash the harness)
            it = itertools.chain(iter(bytes_), itertools.cycle([0x5a, 0xa5, 0x3c, 0xc3, 0x0f]))
            orig = wlmod.os
            wlmod.os = types.SimpleNamespace(urandom=lambda n: bytes([next(it) for _ in range(n)]))
            try:
                return wl.choose_words(len(bytes_))
            finally:
                wlmod.os = orig

        def expect(bytes_):
            return "-".join((odd if i % 2 == 0 else even)[b] for i, b in enumerate(bytes_))
        cases = [[b] for b in range(256)] + [[0, b] for b in range(256)] + [[b, 255] for b in range(256)]
        cases += [[rng.randrange(256) for _ in range(n)] for n in (3, 4, 5, 8) for _ in range(40 if quick else 400)]
        # the words are independent draws: the same byte at two positions gives the same word of that list twice
        cases += [[b, (b * 7 + 1) % 256, b] for b in range(256)] + [[(b * 5 + 3) % 256, b, (b * 11) % 256, b] for b in range(256)]
        cases += [[b, b, b, b, b] for b in range(0, 256, 5)] + [[1, 2, 3, 4, 1], [9, 8, 7, 8, 9, 8], [0, 0, 0], [255, 255, 255, 255]]
        if not quick:
            cases += [[a, b] for a in range(256) for b in range(256)]
        for bs in cases:
            evaluations += 1
            distinct.add(("choose", tuple(bs)))
            got = choose(bs)
            if got != expect(bs):
                v.violation({"clause": "choose_words", "length": min(len(bs), 3)},
                            "choose_words with random bytes %r gave %r, spec Choose gives %r" % (bs, got, expect(bs)),
                            {"call": "choose_words", "bytes": bs, "expected": expect(bs), "got": got})
                break
        cov["samples"].append({"case": "choose_words", "bytes": [7, 200, 31], "expected": expect([7, 200, 31])})
        # ---------------- 2d. nameplate completion over histories of server listings (NameplateInput.tla)
        rn, npcases, sessions = nameplate_completion_cases(wd, quick)
        cov_sessions = 0
        for evs, expected in sessions:
            got, internal = run_readline_session(evs)
            evaluations += 1
            cov_sessions += 1
            distinct.add(("rlc", json.dumps(evs)))
            if got != expected or internal:
                v.violation({"clause": "readline-commitment", "events": len(evs)},
                            "readline session %s: spec (NameplateInput.Outcome) %s, real CodeInputter + wormhole %s %s" % (
                                json.dumps(evs), expected, got, internal[:2]),
                            {"call": "readline-session", "events": evs, "expected": expected})
                break
        cov["readline_sessions"] = cov_sessions
        states += rn.distinct
        transitions += rn.generated
        cov["tlc_configs"]["NameplateInput"] = {"distinct_states": rn.distinct, "wall_s": round(rn.wall, 1), "histories": len(npcases),
                                                "cases": sum(len(x) for x in npcases.values())}
        stop = False
        for hist, by_prefix in sorted(npcases.items(), key=lambda kv: (len(kv[0]), sorted(map(sorted, kv[0])))):
            if stop:
                break
            prefixes = sorted(by_prefix)
            try:
                got, internal = run_nameplate_history(hist, prefixes)
            except Exception as e:
                got, internal = [], ["harness: %r" % (e,)]
            evaluations += len(prefixes)
            distinct.add(("npc", tuple(tuple(sorted(x)) for x in hist)))
            final = got[-1] if got else {}
            for p_ in prefixes:
                if internal or final.get(p_) != by_prefix[p_]:
                    v.violation({"clause": "nameplate-completions", "history_length": len(hist)},
                                "after the listings %s, get_nameplate_completions(%r) = %r, spec (NameplateInput.Completions): %r %s" % (
                                    [sorted(x) for x in hist], p_, sorted(final[p_]) if isinstance(final.get(p_), set) else final.get(p_),
                                    sorted(by_prefix[p_]), internal[:2]),
                                {"call": "get_nameplate_completions", "history": [sorted(x) for x in hist], "prefix": p_,
                                 "expected": sorted(by_prefix[p_])})
                    stop = True
                    break
        # ---------------- 2c. allocation end to end: nameplate + "-" + words, exactly the requested number
        for n in range(1, 5):
            for np in ("4", "17", "512"):
                bs = [rng.randrange(256) for _ in range(n)]
                it = iter(bs)
                w = MailboxWorld(seed=n, clients=(("A", "delegated"),))
                w.server.alloc_nameplate = np
                orig = wlmod.os
                wlmod.os = types.SimpleNamespace(urandom=lambda k: bytes([next(it) for _ in range(k)]))
                try:
                    w.apply({"a": "ConnOpen", "c": "A"})
                    w.apply({"a": "AppAllocate", "c": "A", "n": n})
                    w.drain()
                finally:
                    wlmod.os = orig
                    w.shutdown()
                got = [val for k, val in w.clients["A"].events if k == "code"]
                evaluations += 1
                distinct.add(("alloc", n, np))
                if got != [np + "-" + expect(bs)]:
                    v.violation({"clause": "allocated_code", "length": n},
                                "allocate_code(%d) with nameplate %s and bytes %r reported %r, spec: %r" % (n, np, bs, got, np + "-" + expect(bs)),
                                {"call": "allocate_code", "n": n, "nameplate": np, "bytes": bs})
        # ---------------- 2d. well-formedness: one test per enumerated code string
        for (_, code, valid) in codes:
            w = MailboxWorld(seed=1, clients=(("A", "delegated"),))
            try:
                w.apply({"a": "ConnOpen", "c": "A"})
                conn = w.live_conn(w.clients["A"])
                before = len(conn.c2s)
                w.apply({"a": "AppSetCode", "c": "A", "code": code})
                after = len(conn.c2s)
                errs = [type(e).__name__ for _, e in w.clients["A"].api_errors]
            finally:
                w.shutdown()
            evaluations += 1
            distinct.add(("code", code))
            rejected = errs == ["KeyFormatError"]
            ok = (valid and not errs and after > before) or (not valid and rejected and after == before)
            if not ok:
                cls = "space" if " " in code else ("nameplate" if not valid else "valid")
                v.violation({"clause": "validate_code", "class": cls},
                            "set_code(%r): spec ValidCode=%s; real raised %s and sent %d frames" % (code, valid, errs, after - before),
                            {"call": "set_code", "code": code, "spec_valid": valid})
        cov["samples"].append({"case": "set_code", "code": "4 -a", "spec_valid": False})
        cov["codes_model"] = {"evaluations": evaluations, "distinct": len(distinct)}
    # ---------------- 3. code-entry protocol on Wormhole.tla + replays (shared mailbox machinery)
    sub = mailbox.run_pipeline(prop, tier, v, quick)
    cov["code_entry"] = sub
    cov.update(states=states + sub.get("states", 0), transitions=transitions + sub.get("transitions", 0),
               traces_validated_against_impl=sub.get("traces_validated_against_impl", 0),
               evaluations=evaluations + sub.get("evaluations", 0),
               distinct_nontrivial=len(distinct) + sub.get("distinct_nontrivial", 0),
               rule="function cases: every typed prefix / code string / byte string enumerated by TLC on Codes.tla is one case "
                    "(all are non-trivial: each exercises a different list position or character class); plus the mailbox-run "
                    "rule for the code-entry schedules")
    cov["samples"] += sub.get("samples", [])[:2]
    # supplementary (no VIOLATION line comes from it): how the commands come by their code as a function of the command line,
    # CliArgs.tla, every case on the real click parser and the real prologue of the commands
    try:
        from . import cliargs
        with common.Workdir(prop + "cli") as wd3:
            cov["supplementary"] = {"cli_args": cliargs.run_family(wd3, quick, seed)}
    except Exception as e:
        cov["supplementary"] = {"cli_args": {"error": repr(e)[:300]}}
    return v.finish(cov, assumptions=mailbox.ASSUMPTIONS + [
        "os.urandom is uniform (uniformity of words is decided structurally: one fresh byte per word through a bijection)",
        "nameplates such as '4\\n' or non-ASCII digits are executed but not judged (DESIGN 3.1)"])
