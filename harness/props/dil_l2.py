"""C12 - Dilation L2 framing / encryption / encoding is lossless and rejects unkeyed input.

spec/DilationL2.tla is model-checked by TLC (token stream with one adversarial replacement at every
position; record classes enumerated).  Conformance: pairs of real DilatedConnectionProtocol objects
(real _Framer, _Record, encode/parse_record; Noise stand-in) are connected through the simulated TCP
fabric; (a) every record class is round-tripped under several fragmentations, (b) every behaviour of
the model (fault kind x position) is executed with byte-level concretisations of the fault.
DilationL2Obs.tla decides.
"""
import json
import os
import random
import struct

from .. import common, tlc, sim

reactor = sim.install()

from unittest import mock  # noqa: E402
from twisted.internet import protocol  # noqa: E402
from twisted.python import log  # noqa: E402
from zope.interface import alsoProvides  # noqa: E402

from wormhole._interfaces import IDilationConnector, IDilationManager  # noqa: E402
from wormhole._dilation import connection as C  # noqa: E402
from wormhole._dilation.connector import (build_noise, PROLOGUE_LEADER, PROLOGUE_FOLLOWER,  # noqa: E402
                                          build_sided_relay_handshake)
from wormhole._dilation.roles import LEADER, FOLLOWER  # noqa: E402
from wormhole.eventual import EventualQueue  # noqa: E402

log.startLoggingWithObserver(lambda ev: None, setStdout=False)
KEY = b"d" * 32
OBS_NAMES = ["Identity", "NothingAfterFault", "FaultDrops", "OnlyAfterKCM", "NoInternal"]


class Logged:
    def __init__(self):
        self.items = []

    def __call__(self, ev):
        if ev.get("isError"):
            f = ev.get("failure")
            self.items.append(f.value if f is not None else ev.get("message"))


class End:
    """One real DilatedConnectionProtocol with a recording connector and manager."""

    def __init__(self, role, key, eq, relay=False):
        self.role = role
        self.records = []          # what reached the manager
        self.candidate = 0
        self.connector = mock.Mock()
        alsoProvides(self.connector, IDilationConnector)
        self.connector.add_candidate = self._add_candidate
        self.manager = mock.Mock()
        alsoProvides(self.manager, IDilationManager)
        self.manager.got_record = self.records.append
        noise = build_noise()
        noise.set_psks(key)
        if role is LEADER:
            noise.set_as_initiator()
            out, inn = PROLOGUE_LEADER, PROLOGUE_FOLLOWER
        else:
            noise.set_as_responder()
            out, inn = PROLOGUE_FOLLOWER, PROLOGUE_LEADER
        self.p = C.DilatedConnectionProtocol(eq, role, "desc", self.connector, noise, out, inn)
        if relay:
            self.p.use_relay(build_sided_relay_handshake(key, "a" * 16))

    late_select = False      # the Connector's accept() runs in a later eventual-queue turn: records that arrive in between
    selected = False         # wait in the connection's inbound queue

    def _add_candidate(self, p):
        self.candidate += 1
        if self.late_select:
            return
        self.select_now()

    def select_now(self):
        # the Leader selects at once here; the Follower selects when the Leader's KCM arrives (same call)
        if self.selected:
            return
        self.selected = True
        self.p.select(self.manager)
        if self.role is LEADER:
            self.p.send_record(C.KCM())


class Holder(protocol.Factory):
    def __init__(self, p):
        self.p = p

    def buildProtocol(self, addr):
        return self.p


class Pair:
    def __init__(self, relay=False, key_l=KEY, key_f=KEY, reset=True):
        if reset:
            reactor.reset()
        self.eq = EventualQueue(reactor)
        self.L = End(LEADER, key_l, self.eq, relay)
        self.F = End(FOLLOWER, key_f, self.eq, relay)
        self.relay = relay
        port = reactor.listenTCP(0, Holder(self.F.p)).getHost().port

        class CF(protocol.ClientFactory):
            def buildProtocol(s, addr):
                return self.L.p
        c = reactor.connectTCP("127.0.0.1", port, CF())
        self.link = reactor.complete(c)          # ends[0] = Leader, ends[1] = Follower

    def end_index(self, end):
        return 0 if end is self.L else 1


def tokens_of(buf, relay_expected):
    """split a byte stream as a genuine peer produced it into tokens: relay handshake line / ok, prologue, frames"""
    toks = []
    if relay_expected and buf.startswith(b"please relay"):
        i = buf.index(b"\n") + 1
        toks.append(("relayhs", buf[:i]))
        buf = buf[i:]
    for pro in (PROLOGUE_LEADER, PROLOGUE_FOLLOWER):
        if buf.startswith(pro):
            toks.append(("prologue", pro))
            buf = buf[len(pro):]
    while len(buf) >= 4:
        n = struct.unpack(">L", buf[:4])[0]
        toks.append(("frame", buf[:4 + n]))
        buf = buf[4 + n:]
    assert not buf, buf[:20]
    return toks


def concretise_record(rc, rng):
    ids = {"0": 0, "1": 1, "max32": 2 ** 32 - 1}
    t = rc["t"]
    if t == "KCM":
        return C.KCM()
    if t in ("Ping", "Pong"):
        pid = b"\x00\x00\x00\x00" if rc["x"] == "zero" else rng.randbytes(4)
        return (C.Ping if t == "Ping" else C.Pong)(pid)
    if t == "Open":
        name = {"ascii": "proto-1", "nonascii": "прото ☃ ünï / not NFC as given: u\u0308 \u212b \u1100\u1161 \ufb01", "long": "n" * 300}[rc["x"]]
        return C.Open(ids[rc["seq"]], ids[rc["id"]], name)
    if t == "Data":
        return C.Data(ids[rc["seq"]], ids[rc["id"]], rng.randbytes(int(rc["x"])))
    if t == "Close":
        return C.Close(ids[rc["seq"]], ids[rc["id"]])
    return C.Ack(ids[rc["seq"]])


def feed(pair, dst, data, chunking, rng):
    """hand bytes to a real protocol end the way TCP might: whole, split in two, or in small pieces"""
    if chunking in ("whole", "joined"):
        chunks = [data]
    elif chunking == "two":
        k = rng.randrange(1, len(data)) if len(data) > 1 else 1
        chunks = [data[:k], data[k:]]
    elif chunking == "head":
        chunks = [data[:3], data[3:5], data[5:]]
    else:
        step = 1 if len(data) < 300 else max(1, len(data) // 61)
        chunks = [data[i:i + step] for i in range(0, len(data), step)]
    t = dst.p.transport
    for c in chunks:
        if not c or not t.connected or t.disconnecting:
            break
        try:
            reactor.call_protocol(dst.p.dataReceived, c)
        except sim._ProtocolRaised:
            t.loseConnection()
            break


def drain_writes(pair, src):
    t = src.p.transport
    buf = b"".join(t.out)
    t.out[:] = []
    return buf


def settle(pair, relay_ok=True, chunking="whole", rng=None, stop_before=None):
    """run the genuine exchange (relay reply, prologues, handshakes, KCMs) to completion"""
    rng = rng or random.Random(0)
    # "joined": TCP hands over several writes in one read - the Follower's direction is served first, so that the
    # Leader's prologue and its handshake message (written once it has seen the Follower's prologue) arrive together
    order = ((pair.F, pair.L), (pair.L, pair.F)) if chunking == "joined" else ((pair.L, pair.F), (pair.F, pair.L))
    for _ in range(20):
        moved = False
        for src, dst in order:
            buf = drain_writes(pair, src)
            if not buf:
                continue
            moved = True
            rest = b""
            for kind, tok in tokens_of(buf, pair.relay):
                if kind == "relayhs":
                    # the relay answers ok to the one who asked
                    feed(pair, src, b"ok\n", chunking, rng)
                    continue
                if chunking == "joined":
                    rest += tok
                else:
                    feed(pair, dst, tok, chunking, rng)
            if rest:
                feed(pair, dst, rest, "whole", rng)
        for dc in reactor.due():
            reactor.run_call(dc)
        if not moved:
            break


def run_roundtrip(tid, rc, chunking, direction, relay, rng, late=False, backpressure=False):
    logged = Logged()
    log.addObserver(logged)
    try:
        pair = Pair(relay=relay)
        # late: the receiving Follower is a candidate but its Connector has not accepted it yet when the records arrive
        pair.F.late_select = bool(late and direction == "l2f")
        # the relay reply, the prologues, the handshake messages and the KCMs arrive under the same fragmentation
        settle(pair, chunking=chunking, rng=rng)
        src, dst = (pair.L, pair.F) if direction == "l2f" else (pair.F, pair.L)
        before = len(dst.records)
        rec = concretise_record(rc, rng)
        sent = [rec, C.Ack(7)] + ([C.Close(3, 9), C.Ack(8)] if pair.F.late_select else [])
        ok_ready = src.p._can_send_records and dst.candidate > 0
        raised = []
        if backpressure and not pair.F.late_select:
            # the receiving application exerts back-pressure while the first of these records is being handed over (Inbound
            # calls connection.pauseProducing()) and lets go again afterwards: what arrived in the same read must still come out
            sent = sent + [C.Close(3, 9), C.Ack(8)]
            seen = len(dst.records)
            orig_append = dst.manager.got_record

            def got_record(r, dst=dst, seen=seen):
                orig_append(r)
                if len(dst.records) == seen + 1:
                    dst.p.pauseProducing()
            dst.manager.got_record = got_record
        if ok_ready:
            for r in sent:
                try:
                    src.p.send_record(r)
                except Exception as e:          # send_record() of a legal record must not raise
                    raised.append("send_record: %r" % (e,))
            feed(pair, dst, drain_writes(pair, src), chunking, rng)
            if backpressure and not pair.F.late_select:
                try:
                    dst.p.resumeProducing()
                except Exception as e:
                    raised.append("resumeProducing: %r" % (e,))
                for dc in reactor.due():
                    reactor.run_call(dc)
            if pair.F.late_select:
                queued_before_select = len(dst.records) - before
                pair.F.select_now()
                if queued_before_select:
                    raised.append("%d records reached the manager before the connection was selected" % queued_before_select)
        got = dst.records[before:]
        internal = [repr(e)[:100] for e in logged.items] + [x[:100] for x in raised]
        return {"tid": tid, "kind": "roundtrip", "identical": ok_ready and got == sent, "got": len(got), "sent": len(sent),
                "atFault": -1, "dropped": not dst.p.transport.connected or dst.p.transport.disconnecting, "stalled": False,
                "candidate": dst.candidate > 0, "faultKind": "-", "internal": internal, "rc": rc, "chunking": chunking,
                "direction": direction, "relay": relay, "late": bool(pair.F.late_select), "backpressure": bool(backpressure)}
    finally:
        log.removeObserver(logged)


def run_two_sessions(tid, rc, chunking, rng, order):
    """Two dilated sessions in one process at the same time (two wormholes of one application, or one process serving several
    peers): on both, records reach the Follower while it is still a candidate; then the two Connectors accept in `order`.
    Each Manager must get exactly the records of its own connection - nothing of one L2 connection may end up in another."""
    logged = Logged()
    log.addObserver(logged)
    try:
        a = Pair(relay=False)
        b = Pair(relay=False, key_l=b"K" * 32, key_f=b"K" * 32, reset=False)
        for pr in (a, b):
            pr.F.late_select = True
            settle(pr, chunking=chunking, rng=rng)
        sent = {}
        raised = []
        for name, pr, scid in (("a", a, 3), ("b", b, 5)):
            rec = concretise_record(rc, rng)
            sent[name] = [rec, C.Ack(7 + scid), C.Close(scid, 9), C.Ack(8 + scid)]
            if not (pr.L.p._can_send_records and pr.F.candidate > 0):
                raised.append("session %s is not ready" % name)
                continue
            for r in sent[name]:
                try:
                    pr.L.p.send_record(r)
                except Exception as e:
                    raised.append("send_record: %r" % (e,))
        for pr in (a, b):
            feed(pr, pr.F, drain_writes(pr, pr.L), chunking, rng)
        for name in order:
            pr = a if name == "a" else b
            if pr.F.records:
                raised.append("records reached the manager of session %s before its connection was selected" % name)
            pr.F.select_now()
        got = {"a": list(a.F.records), "b": list(b.F.records)}
        internal = [repr(e)[:100] for e in logged.items] + [x[:100] for x in raised]
        ok = not raised and got["a"] == sent["a"] and got["b"] == sent["b"]
        return {"tid": tid, "kind": "roundtrip", "identical": bool(ok), "got": len(got["a"]) + len(got["b"]), "sent": len(sent.get("a", ())) + len(sent.get("b", ())),
                "atFault": -1, "dropped": False, "stalled": False, "candidate": a.F.candidate > 0 and b.F.candidate > 0, "faultKind": "-",
                "internal": internal, "rc": rc, "chunking": chunking, "direction": "l2f", "relay": False, "late": True, "sessions": 2}
    finally:
        log.removeObserver(logged)


def run_fault(tid, kind, at, nrecords, chunking, direction, relay, rng, variant):
    """the model's behaviour: genuine tokens up to position `at`, the token at `at` replaced according to `kind`"""
    logged = Logged()
    log.addObserver(logged)
    try:
        wrong = kind in ("wrong-key-handshake", "wrong-key-frame")
        pair = Pair(relay=relay)
        # an impostor who does not hold the key speaks on the sending side from position `at` on
        src, dst = (pair.L, pair.F) if direction == "l2f" else (pair.F, pair.L)
        genuine = (["relayok"] if relay else []) + ["prologue", "handshake", "kcm"] + ["record"] * nrecords
        # produce the genuine stream of src by running the real exchange, but hold back what goes to dst
        stream = []          # (tokenkind, bytes) towards dst, in order
        payloads = [C.Data(i, 3, rng.randbytes(rng.choice([0, 5, 70000]))) for i in range(nrecords)]

        def pump_other_way():
            for _ in range(6):
                buf = drain_writes(pair, dst)
                if not buf:
                    break
                for k2, tok in tokens_of(buf, pair.relay):
                    if k2 == "relayhs":
                        continue         # dst's own relay reply is position 1 of the stream under test
                    feed(pair, src, tok, "whole", rng)

        def collect_from_src():
            buf = drain_writes(pair, src)
            for k2, tok in tokens_of(buf, pair.relay):
                if k2 == "relayhs":
                    feed(pair, src, b"ok\n", "whole", rng)
                    collect_from_src()
                else:
                    stream.append(tok)
        if relay:
            stream.append(b"ok\n")          # dst's relay says ok (position 1 of the model)
        sent_records = 0
        delivered_tokens = 0
        at_fault_records = None
        pos = 0
        dropped_at = None
        guard = 0
        while pos < len(genuine) and guard < 200:
            guard += 1
            collect_from_src()
            pump_other_way()
            collect_from_src()
            if delivered_tokens >= len(stream):
                # need src to produce more: records are sent once src can send
                if genuine[pos] == "record" and src.p._can_send_records and sent_records < nrecords:
                    src.p.send_record(payloads[sent_records])
                    sent_records += 1
                    continue
                if genuine[pos] == "relayok" and relay and delivered_tokens == 0:
                    pass
                else:
                    break
            tok = stream[delivered_tokens]
            delivered_tokens += 1
            pos += 1
            if pos == at:
                at_fault_records = len(dst.records)
                tok = corrupt(kind, tok, genuine[pos - 1], rng, variant, relay)
                if tok is None:
                    break
            feed(pair, dst, tok, chunking, rng)
            pump_other_way()
            t = dst.p.transport
            if (not t.connected or t.disconnecting) and dropped_at is None:
                dropped_at = pos
        internal = []
        for e in logged.items:
            n = type(e).__name__
            if n not in ("NoiseInvalidMessage", "Disconnect", "str", "ValueError", "ConnectionDone", "ConnectionLost"):
                internal.append("%s: %s" % (n, str(e)[:80]))
        t = dst.p.transport
        dropped = not t.connected or t.disconnecting
        return {"tid": tid, "kind": "fault", "identical": dst.records == payloads[:len(dst.records)], "got": len(dst.records),
                "sent": sent_records, "atFault": at_fault_records if at_fault_records is not None else -1, "dropped": bool(dropped),
                "stalled": kind in ("truncate", "garbage-length"), "candidate": dst.candidate > 0, "faultKind": kind,
                "internal": internal, "rc": {}, "chunking": chunking, "direction": direction, "relay": relay, "at": at,
                "reached": pos >= at}
    finally:
        log.removeObserver(logged)


def corrupt(kind, tok, genuine_kind, rng, variant, relay):
    if kind == "wrong-prologue":
        return [b"Magic-Wormhole Dilation Handshake v1 Stranger\n\n", b"GET / HTTP/1.1\r\n\r\n", tok[:-2] + b"!\n"][variant % 3]
    if kind == "wrong-relay":
        return [b"no\n", b"ok \n", b"busy\n"][variant % 3]
    if kind in ("wrong-key-handshake", "wrong-key-frame"):
        # what someone without the dilation key can send: a frame of the right length with random content
        n = len(tok) - 4
        return tok[:4] + rng.randbytes(n)
    if kind == "corrupt-frame":
        b = bytearray(tok)
        if len(b) <= 4:
            return bytes(b)
        pos = [4, len(b) - 1, 4 + (len(b) - 4) // 2][variant % 3]
        b[pos] ^= 1 << rng.randrange(8)
        return bytes(b)
    if kind == "truncate":
        return tok[:max(1, len(tok) - 1 - rng.randrange(min(16, max(1, len(tok) - 1))))]
    if kind == "garbage-length":
        return b"\xff\xff\xff\xf0" + tok[4:]
    if kind == "unknown-type":
        return None          # needs the key: produced by a key holder only; not an adversary capability
    return tok


def run(prop, tier):
    quick = tier == "quick"
    seed = common.seed()
    rng = random.Random(seed + 12)
    v = common.Verdict(prop, tier)
    cov = {"tlc_configs": {}, "samples": []}
    records = []
    states = transitions = 0
    faults = {"wrong-prologue", "wrong-relay", "wrong-key-handshake", "wrong-key-frame", "corrupt-frame", "truncate", "garbage-length"}
    with common.Workdir(prop) as wd:
        behaviours = []
        classes = None
        for relay in (False, True):
            m = "MC_C12_%s" % ("relay" if relay else "direct")
            extra = "ASSUME ReportClasses\n" if not relay else ""
            common.write_model(wd, m, "DilationL2", dict(UseRelay=relay, NRecords=3, Faults=faults),
                               invariants=["ManagerOnlyAfterKCM", "NothingAfterFault", "CleanDelivers"], properties=["FaultDrops"],
                               extra_defs=extra)
            r = tlc.run(m + ".tla", m + ".cfg", cwd=wd.path, timeout=900)
            if not r.ok:
                raise RuntimeError("TLC failed on %s: %s" % (m, r.violated or r.error or r.stdout[-1500:]))
            cov["tlc_configs"]["relay" if relay else "direct"] = {"distinct_states": r.distinct, "states_generated": r.generated,
                                                                  "wall_s": round(r.wall, 1), "result": "ok"}
            states += r.distinct
            transitions += r.generated
            if not relay:
                classes = [t[1] for t in tlc.printed_tuples(r.stdout, "CLASS")]
            # every (fault kind, position) the model allows
            ntok = (1 if relay else 0) + 3 + 3
            for kind in sorted(faults):
                for at in range(1, ntok + 1):
                    behaviours.append((relay, kind, at))
        cov["record_classes"] = len(classes)
        tid = 0
        chunkings = ["whole", "joined", "two", "head", "bytes"]
        for rc in classes:
            if rc["t"] == "KCM":
                continue      # the KCM is the handshake's own record: exercised by every run's set-up, never sent again
            big = rc["t"] == "Data" and int(rc["x"]) > 70000
            for chunking in (chunkings[:3] if quick or big else chunkings):
                for direction in ("l2f", "f2l"):
                    if quick and direction == "f2l" and chunking != "whole":
                        continue
                    tid += 1
                    records.append(run_roundtrip(tid, rc, chunking, direction, relay=(tid % 5 == 0), rng=random.Random(seed * 17 + tid),
                                                 late=(tid % 3 == 0), backpressure=(tid % 4 == 1)))
        # two sessions at the same time in one process (every record class, both acceptance orders)
        nts = 0
        for rc in classes:
            if rc["t"] == "KCM" or (rc["t"] == "Data" and int(rc["x"]) > 70000):
                continue
            for order in (("a", "b"), ("b", "a")):
                tid += 1
                nts += 1
                records.append(run_two_sessions(tid, rc, "whole" if nts % 2 else "joined", random.Random(seed * 23 + tid), order))
        cov["two_session_cases"] = nts
        for (relay, kind, at) in behaviours:
            genuine = (["relayok"] if relay else []) + ["prologue", "handshake", "kcm", "record", "record", "record"]
            tok = genuine[at - 1]
            applies = {"wrong-prologue": tok == "prologue", "wrong-relay": tok == "relayok",
                       "wrong-key-handshake": tok == "handshake", "wrong-key-frame": tok in ("kcm", "record"),
                       "corrupt-frame": tok in ("handshake", "kcm", "record"), "truncate": True,
                       "garbage-length": tok in ("handshake", "kcm", "record")}[kind]
            if not applies:
                continue
            for variant in range(1 if quick else 3):
                for direction in ("l2f", "f2l"):
                    for chunking in (["whole", "bytes"] if quick else chunkings):
                        tid += 1
                        records.append(run_fault(tid, kind, at, 3, chunking, direction, relay, random.Random(seed * 19 + tid), variant))
        path = wd.file("obs.ndjson")
        with open(path, "w") as f:
            for rec in records:
                f.write(json.dumps(rec) + "\n")
        with open(wd.file("MC_L2Obs.cfg"), "w") as f:
            f.write("SPECIFICATION Spec\nCHECK_DEADLOCK FALSE\n")
        with open(wd.file("MC_L2Obs.tla"), "w") as f:
            f.write("---- MODULE MC_L2Obs ----\nEXTENDS DilationL2Obs\n====\n")
        r = tlc.run("MC_L2Obs.tla", "MC_L2Obs.cfg", workers=1, cwd=wd.path, env={"OBS_FILE": path}, timeout=1800)
        verdicts = {t[1]: dict(zip(OBS_NAMES, t[2])) for t in tlc.printed_tuples(r.stdout, "OBS")}
        if len(verdicts) != len(records):
            raise RuntimeError("observer evaluated %d of %d runs\n%s" % (len(verdicts), len(records), r.stdout[-2000:]))
    # supplementary (no VIOLATION line comes from it): the conversation of the two ends at the level of their machines,
    # DilationL2M.tla over the extracted _Framer / _Record / DilatedConnectionProtocol tables, walks validated by TLC
    try:
        from . import dil_l2m
        with common.Workdir(prop + "m") as wd2:
            ti = wd2.gen_tables()
            cov["supplementary"] = {"l2_machines": dil_l2m.run_family(wd2, quick, seed), "tables": ti}
    except Exception as e:
        cov["supplementary"] = {"l2_machines": {"error": repr(e)[:300]}}
    failing = 0
    distinct = set()
    for rec in records:
        distinct.add((rec["kind"], json.dumps(rec["rc"], sort_keys=True), rec["faultKind"], rec.get("at", 0), rec["chunking"], rec["direction"], rec["relay"]))
        bad = [n for n in OBS_NAMES if not verdicts[rec["tid"]][n]]
        if bad:
            failing += 1
            sig = {"clause": bad[0], "kind": rec["kind"], "fault": rec["faultKind"]}
            if rec["kind"] == "roundtrip":
                sig = {"clause": bad[0], "record": rec["rc"].get("t"), "x": rec["rc"].get("x")}
            v.violation(sig, "%s fails (%s): %s" % (",".join(bad), rec["kind"], json.dumps({k: rec[k] for k in
                        ("rc", "faultKind", "chunking", "direction", "relay", "got", "sent", "atFault", "dropped", "internal")})[:500]),
                        {"case": rec})
    cov.update(states=states, transitions=transitions, traces_validated_against_impl=len(records), evaluations=len(records),
               distinct_nontrivial=len(distinct), failing_runs=failing,
               rule="round trips: one per record class of DilationL2.tla x fragmentation x direction; faults: one per (fault kind, "
                    "token position) of the model x fragmentation x direction x byte-level variant; all on real "
                    "DilatedConnectionProtocol pairs; every case is non-trivial")
    cov["samples"] = [{k: rec[k] for k in ("kind", "rc", "faultKind", "chunking", "direction", "got", "sent", "dropped")} for rec in records[:2] + records[-2:]]
    return v.finish(cov, assumptions=[
        "noiseprotocol is not installed: the Noise object is the stand-in of harness/stubs/noise (real AEAD, 65535-byte limit, "
        "16-byte tags); the repository's framing/chunking/encoding code is what is exercised",
        "a truncated token or an absurd length prefix leaves the receiver waiting; 'dropped' is required for complete bad tokens"])


def replay(prop, path):
    d = json.load(open(path))["replay"]["case"]
    if d["kind"] == "roundtrip" and d.get("sessions") == 2:
        rec = run_two_sessions(1, d["rc"], d["chunking"], random.Random(1), ("a", "b"))
    elif d["kind"] == "roundtrip":
        rec = run_roundtrip(1, d["rc"], d["chunking"], d["direction"], d["relay"], random.Random(1), late=d.get("late", False),
                            backpressure=d.get("backpressure", False))
    else:
        rec = run_fault(1, d["faultKind"], d["at"], 3, d["chunking"], d["direction"], d["relay"], random.Random(1), 0)
    print(json.dumps(rec, indent=1))
    return 0
