"""Supplementary (no listed property): `wormhole ssh invite` / `wormhole ssh accept` and xfer_util (spec/SshKey.tla).

TLC checks the module's properties (authorized_keys only ever grows by the one key that was received from a side that
knows the code and was acknowledged; nothing is installed with the wrong code, for an offer of another kind or without
permission; the accepting side reports success only after the acknowledgement) over every configuration and interleaving.
The real cmd_ssh.invite() and cmd_ssh.accept() - command lines parsed by the real cli - are then run on the simulated
reactor against the mailbox twin with a sandboxed $HOME; every observable step is recorded through a recording proxy around
the wormhole xfer_util creates, the state of ~/.ssh is read after every step, and the recorded runs are validated by TLC
against SshKey.tla (code -> spec).  Nothing here produces a VIOLATION line (coverage.supplementary)."""
import contextlib
import copy
import io
import json
import os
import random
import shutil
import sys
import types

from twisted.python.failure import Failure

from .. import common, tlc
from .. import xferworld as X
from .xferproto import kind_of

T_PROJ = "[cfg |-> cfg, out |-> out, sent |-> sent, dir |-> dir, auth |-> auth]"
INVARIANTS = ["AppendOnly", "InstalledOnlyIfReceived", "InviteOkIffInstalled", "AcceptOkOnlyAcked", "AckOnlyForKey",
              "WrongCodeNothing", "StoppedTouchesNothing", "DirOnlyWithKey"]
PROPERTIES = ["AppendOnlyStep", "Terminates", "HonestInstalls"]
OLD_LINE = "ssh-rsa AAAAB3NzaOLD old@elsewhere"
KEYS = {"three": "ssh-ed25519 AAAAC3NzaC1lZDI1NTE5 someone@host\n",
        "two": "ssh-ed25519 AAAAC3NzaC1lZDI1NTE5\n",
        "padded": "\n  ssh-ed25519 AAAAC3NzaC1lZDI1NTE5 some one@host \n\n"}


class Rec:
    """the wormhole xfer_util sees, every step of the protocol noted in the order it happens"""

    def __init__(self, w, side, note, world):
        self._w, self._side, self._note, self._world = w, side, note, world

    def __getattr__(self, name):
        return getattr(self._w, name)

    def set_code(self, code):
        r = self._w.set_code(code)
        self._note(("Code", self._side, "-"))
        return r

    def get_code(self):
        d = self._w.get_code()

        def ok(c):
            self._world["code"] = c
            self._note(("Code", self._side, "-"))
            return c
        d.addCallback(ok)
        return d

    def send_message(self, data):
        self._note(("Send", self._side, kind_of(data)))
        return self._w.send_message(data)

    def get_message(self):
        d = self._w.get_message()

        def ok(v):
            self._note(("Recv", self._side, kind_of(v)))
            return v

        def err(f):
            n = type(f.value).__name__
            self._note(("Recv", self._side, "wrong" if n == "WrongPasswordError" else n))
            return f
        d.addCallbacks(ok, err)
        return d

    def close(self):
        self._note(("Close", self._side, "-"))
        return self._w.close()


def read_fs(home):
    ssh = os.path.join(home, ".ssh")
    ak = os.path.join(ssh, "authorized_keys")
    if os.path.isdir(ak):
        return os.path.isdir(ssh), ["unwritable"], None
    if not os.path.exists(ak):
        return os.path.isdir(ssh), ["absent"], None
    with open(ak) as f:
        raw = f.read()
    return True, raw, os.stat(ak).st_mode & 0o777


def run_config(tid, cfg, seed):
    from wormhole.cli import cmd_ssh
    from wormhole import xfer_util
    from wormhole import wormhole as wmod
    rng = random.Random(seed)
    base = os.path.join(common.OUT, "sbx_ssh_%d_%d" % (os.getpid(), tid))
    shutil.rmtree(base, ignore_errors=True)
    home, keydir = os.path.join(base, "home"), os.path.join(base, "keys")
    os.makedirs(home)
    os.makedirs(keydir)
    ssh = os.path.join(home, ".ssh")
    ak = os.path.join(ssh, "authorized_keys")
    if cfg["auth"] != "nodir":
        os.mkdir(ssh, 0o700)
    if cfg["auth"] == "empty":
        open(ak, "w").close()
    elif cfg["auth"] == "one":
        with open(ak, "w") as f:
            f.write(OLD_LINE + "\n")
    elif cfg["auth"] == "unwritable":
        os.mkdir(ak)                      # (the checks run as root: a mode would not stop open(..., "a"); a directory does)
    pub = KEYS[cfg["shape"]]
    with open(os.path.join(keydir, "id_ed25519.pub"), "w") as f:
        f.write(pub)
    keyline = pub.strip()

    def lines_of(raw):
        if isinstance(raw, list):
            return raw
        out = []
        body = raw
        if body and not body.endswith("\n"):
            return ["unterminated:" + body[-20:]]
        for l in body.split("\n")[:-1]:
            out.append("old" if l == OLD_LINE else "key" if l == keyline else "other:" + l[:30])
        return out
    events, lines = [], []
    state = {"out": {"I": "-", "A": "-"}, "sent": {"I": [], "A": []}}
    world = {"code": None}
    fs_last = [None]

    def proj():
        d, raw, _mode = read_fs(home)
        return {"cfg": cfg, "out": dict(state["out"]), "sent": {k: list(v) for k, v in state["sent"].items()}, "dir": d, "auth": lines_of(raw)}

    def emit(ev):
        events.append(ev)
        lines.append({"a": list(ev), "proj": proj()})

    def note(ev):
        d, raw, _m = read_fs(home)
        if fs_last[0] is not None and (d, raw) != fs_last[0]:
            fs_last[0] = (d, raw)
            emit(("Install", "I", "-"))
        a, p, x = ev
        if a == "Done":
            state["out"][p] = x
        elif a == "Send":
            state["sent"][p] = state["sent"][p] + [x]
        emit(ev)
    fs_last[0] = read_fs(home)[:2]
    side = ["I"]
    shim = types.SimpleNamespace(create=lambda *a, **kw: Rec(wmod.create(*a, **kw), side[0], note, world))
    orig = (xfer_util.wormhole, os.environ.get("HOME"), sys.stdout)
    xfer_util.wormhole = shim
    os.environ["HOME"] = home
    cap = io.StringIO()
    sys.stdout = cap
    results = {}
    try:
        w = X.XferWorld(base)
        w.mb_rng = random.Random(seed)
        icfg = X.config("--relay-url", X.mbworld.RELAY_URL, "ssh", "invite")
        side[0] = "I"
        d = cmd_ssh.invite(icfg, reactor=X.reactor)

        def done(p):
            def cb(r):
                if isinstance(r, Failure):
                    n = type(r.value).__name__
                    o = n if n in ("WrongPasswordError", "Exception") else "other:" + n
                elif p == "I" and ("No write permission" in cap.getvalue() or "Can't read" in cap.getvalue()):
                    o = "stopped"
                else:
                    o = "ok"
                results[p] = o
                note(("Done", p, o))
            return cb
        if d.called:
            emit(("Check", "I", "stop"))
        else:
            emit(("Check", "I", "go"))
        d.addBoth(done("I"))
        started_a = False
        if "I" not in results:
            w.run(until=lambda: world["code"] is not None or "I" in results, max_virtual=600.0)
            extra = [rng.randrange(0, 6)]

            def some_more():
                extra[0] -= 1
                return extra[0] < 0
            w.run(until=some_more, max_virtual=600.0)
            code = world["code"]
            if code is not None:
                if not cfg["match"]:
                    code = code[:-1] + ("x" if code[-1] != "x" else "y")
                side[0] = "A"
                started_a = True
                if cfg["alien"]:
                    aw = shim.create("lothar.com/wormhole/ssh-add", X.mbworld.RELAY_URL, X.reactor)
                    aw.set_code(code)
                    aw.send_message(json.dumps({"offer": {"file": {"filename": "id.pub", "filesize": 12}}}).encode("utf-8"))
                else:
                    acfg = X.config("--relay-url", X.mbworld.RELAY_URL, "ssh", "accept", "--key-file", keydir, "--yes", code)
                    da = cmd_ssh.accept(acfg, reactor=X.reactor)
                    da.addBoth(done("A"))
        finished = w.run(until=lambda: "I" in results and (not started_a or cfg["alien"] or "A" in results), max_virtual=600.0)
        # anything still to happen by itself (there should be nothing that touches the file system)
        w.run(until=None, max_virtual=30.0)
        d2, raw2, mode = read_fs(home)
        if (d2, raw2) != fs_last[0]:
            fs_last[0] = (d2, raw2)
            emit(("Install", "I", "-"))
        internal = ["%s: %s" % (type(e).__name__, str(e)[:80]) for _, e in w.internal]
        w.shutdown()
        info = {"finished": bool(finished), "internal": internal, "events": [list(e) for e in events], "results": dict(results),
                "mode": mode, "dirmode": (os.stat(ssh).st_mode & 0o777) if os.path.isdir(ssh) else None,
                "printed_key_sent": "Key sent." in cap.getvalue(), "printed_appended": "Appended key" in cap.getvalue(),
                "auth": lines_of(raw2)}
        return lines, info
    finally:
        sys.stdout = orig[2]
        xfer_util.wormhole = orig[0]
        if orig[1] is None:
            os.environ.pop("HOME", None)
        else:
            os.environ["HOME"] = orig[1]
        shutil.rmtree(base, ignore_errors=True)


def configs(quick):
    out = []
    for auth in ("nodir", "nofile", "empty", "one", "unwritable"):
        for shape in ("three", "two", "padded"):
            for match, alien in ((True, False), (False, False), (True, True)):
                if quick and shape == "two" and auth in ("nofile", "empty"):
                    continue
                out.append({"auth": auth, "shape": shape, "match": match, "alien": alien})
    return out


def run_family(wd, quick, seed):
    cov = {}
    common.write_model(wd, "MC_SshKey", "SshKey", {}, invariants=INVARIANTS, properties=PROPERTIES)
    r = tlc.run("MC_SshKey.tla", "MC_SshKey.cfg", cwd=wd.path, timeout=600)
    cov["tlc"] = {"distinct_states": r.distinct, "states_generated": r.generated, "depth": r.depth, "wall_s": round(r.wall, 1),
                  "result": "ok" if r.ok else (r.violated or "error"), "invariants": INVARIANTS, "properties": PROPERTIES}
    traces, notes, errors = {}, {}, []
    tid = 0
    for cfg in configs(quick):
        for k in range(2 if quick else 8):
            tid += 1
            try:
                lines, info = run_config(tid, cfg, seed * 1000 + tid)
            except Exception as e:
                errors.append("%s: %r" % (json.dumps(cfg), e))
                continue
            traces[tid] = lines
            notes[tid] = dict(info, cfg=cfg)
    # binding demonstration: recorded runs with one step altered must be rejected
    demo = {}
    for t in sorted(traces, key=lambda t: (-len(traces[t]), t))[:16]:
        for how in ("kind", "outcome", "drop", "fs"):
            lines = copy.deepcopy(traces[t])
            if how == "kind":
                idx = [i for i, l in enumerate(lines) if l["a"][0] in ("Send", "Recv")]
                if not idx:
                    continue
                lines[idx[-1]]["a"][2] = "answer" if lines[idx[-1]]["a"][2] != "answer" else "offer"
            elif how == "outcome":
                idx = [i for i, l in enumerate(lines) if l["a"][0] == "Done" and l["a"][2] != "ok"]
                if not idx:
                    continue
                lines[idx[0]]["a"][2] = "ok"
                for l in lines[idx[0]:]:
                    l["proj"]["out"][lines[idx[0]]["a"][1]] = "ok"
            elif how == "fs":
                # the key appears one step too early / an old line disappears
                if len(lines) < 3:
                    continue
                i = len(lines) // 2
                for l in lines[i:]:
                    l["proj"]["auth"] = ["key"]
                    l["proj"]["dir"] = True
                if all(l["proj"] == traces[t][j]["proj"] for j, l in enumerate(lines)):
                    continue
            else:
                if len(lines) < 3:
                    continue
                del lines[len(lines) // 2]
            demo[900000 + len(demo)] = lines
    alltr = dict(traces)
    alltr.update(demo)
    res, _r = common.trace_validate(wd, "SshKey", {}, alltr, T_PROJ, "MC_SshKey_trace")
    cov["binding_demo"] = {"altered_traces": len(demo), "rejected": sum(1 for t in demo if res[t][0] < res[t][1])}
    accepted, rejected, odd = 0, [], []
    for t in sorted(traces):
        reached, total = res[t]
        n = notes[t]
        if not n["finished"] or n["internal"]:
            odd.append({"tid": t, "cfg": n["cfg"], "internal": n["internal"][:2], "events": n["events"][-4:]})
        if reached == total:
            accepted += 1
        elif len(rejected) < 6:
            rejected.append({"tid": t, "cfg": n["cfg"], "matched_lines": reached, "of": total,
                             "next_line": traces[t][reached] if reached < total else None, "events": n["events"][:reached + 1]})
    installed = [n for n in notes.values() if "key" in n["auth"]]
    cov.update(runs=len(traces), accepted=accepted, rejected=rejected, not_finished_or_internal=odd[:6], errors=errors[:4],
               installed_runs=len(installed),
               installed_file_mode_0600_when_created=all(n["mode"] == 0o600 for n in installed if n["cfg"]["auth"] in ("nodir", "nofile")),
               created_dir_mode_0700=all(n["dirmode"] == 0o700 for n in installed if n["cfg"]["auth"] == "nodir"),
               key_sent_printed_iff_accept_ok=all(n["printed_key_sent"] == (n["results"].get("A") == "ok") for n in notes.values()),
               rule="a run = the real `wormhole ssh invite` (and, once its code is known, `wormhole ssh accept` with that code, a wrong "
                    "one, or a foreign offer) under one configuration and one mailbox schedule, $HOME sandboxed; every code / "
                    "send_message / get_message / close / result of either command and every change of ~/.ssh is one recorded "
                    "line; accepted = SshKey.tla has a behaviour with the same steps and the same projection (configuration, messages "
                    "sent, outcomes, does ~/.ssh exist, the lines of authorized_keys) after every step")
    return cov


if __name__ == "__main__":
    with common.Workdir("sshkey") as wd:
        print(json.dumps(run_family(wd, "--thorough" not in sys.argv, common.seed()), indent=1, default=str))
