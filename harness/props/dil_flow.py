"""C15 - Dilation back-pressure pauses every producer and never loses a wake-up.

spec/DilationFlow.tla is model-checked by TLC; its behaviours are replayed on the real Outbound and
Inbound objects with recording producers whose resumeProducing() performs, re-entrantly, exactly the
actions the behaviour places inside that producer's turn; the projected state (pause flag, deque order,
paused/unpaused sets, last signal per producer, inbound pause set, L2 pause state) is compared whenever
the call stack is empty; DilationFlowObs.tla decides on the recorded check-points.
"""
import json
import os
import random

from .. import common, tlc, sim

reactor = sim.install()

from unittest import mock  # noqa: E402
from twisted.internet.interfaces import IPushProducer, IPullProducer  # noqa: E402
from twisted.internet.task import Cooperator  # noqa: E402
from twisted.python import log  # noqa: E402
from zope.interface import alsoProvides, implementer  # noqa: E402

from wormhole._interfaces import IDilationManager, ISubChannel  # noqa: E402
from wormhole._dilation.outbound import Outbound  # noqa: E402
from wormhole._dilation.inbound import Inbound  # noqa: E402
from wormhole._dilation.subchannel import _WormholeAddress  # noqa: E402
from wormhole.eventual import EventualQueue  # noqa: E402

log.startLoggingWithObserver(lambda ev: None, setStdout=False)
OBS_NAMES = ["AllPausedWhenPaused", "NoConnMeansPaused", "NoResumeWhilePaused", "AllResumedAfterDrain", "ThreeSets", "InboundExact",
             "PullObeys", "NoInternal", "InboundReal", "FollowsTransport"]


@implementer(IPushProducer)
class Prod:
    def __init__(self, world, pid):
        self.world, self.pid = world, pid
        self.sig = "none"
        self.log = []

    def pauseProducing(self):
        self.sig = "pause"
        self.log.append("pause")

    def resumeProducing(self):
        w = self.world
        self.sig = "resume"
        self.log.append("resume")
        if w.outbound._paused:
            w.resumed_while_paused.append(self.pid)
        w.turn_order.append(self.pid)
        if w.scripts:
            owner, acts = w.scripts.pop(0)
            if owner != self.pid:
                w.script_mismatch.append((owner, self.pid))
                return
            for a in acts:
                w.perform(a)

    def stopProducing(self):
        self.sig = "stop"
        self.log.append("stop")


class FakeConn:
    def __init__(self):
        self.transport = mock.Mock()
        self.calls = []
        self.paused = False
        self.sent = []

    def pauseProducing(self):
        self.paused = True
        self.calls.append("pause")

    def resumeProducing(self):
        self.paused = False
        self.calls.append("resume")

    def send_record(self, r):
        self.sent.append(r)
        w = self.world
        if w is not None and w.send_script:
            # the transport's buffer fills with this record: it tells its producer (the Outbound) to stop, from inside
            # send_record() as Twisted does from inside write()
            if w.send_script.pop(0):
                w.last_signal = "pause"
                w.outbound.pauseProducing()

    world = None


class FlowWorld:
    def __init__(self, producers):
        reactor.reset()
        self.manager = mock.Mock()
        alsoProvides(self.manager, IDilationManager)
        self.eq = EventualQueue(reactor)
        self.outbound = Outbound(self.manager, Cooperator(scheduler=self.eq.eventually))
        self.inbound = Inbound(self.manager, _WormholeAddress())
        self.pids = sorted(producers)
        self.prod = {p: Prod(self, p) for p in self.pids}
        self.sc = {}
        for i, p in enumerate(self.pids):
            sc = mock.Mock(name="sc-" + p)
            alsoProvides(sc, ISubChannel)
            self.sc[p] = sc
            self.inbound.subchannel_local_open(i + 1, sc)
        self.scid = {p: i + 1 for i, p in enumerate(self.pids)}
        self.conn = None
        self.scripts = []
        self.script_mismatch = []
        self.turn_order = []
        self.resumed_while_paused = []
        self.want_pause = set()
        self.open = set(self.pids)
        self.errors = []
        self.checkpoints = []
        self.send_script = []      # per re-sent record of the current loop(s): does the buffer fill with it?

    def perform(self, a):
        name, arg = a[0], a[1]
        ob, ib = self.outbound, self.inbound
        try:
            if name == "TransportPause":
                self.last_signal = "pause"
                ob.pauseProducing()
            elif name == "TransportResume":
                self.last_signal = "resume"
                ob.resumeProducing()
            elif name == "Register":
                ob.subchannel_registerProducer(self.sc[arg], self.prod[arg], True)
            elif name == "Unregister":
                ob.subchannel_unregisterProducer(self.sc[arg])
                self.prod[arg].sig = "none"
            elif name == "AppRecord":
                from wormhole._dilation.connection import Data
                ob.queue_and_send_record(ob.build_record(Data, 1, b"payload"))
            elif name == "UseConnection":
                self.conn = FakeConn()
                self.conn.world = self
                self.last_signal = "resume"         # a fresh transport is writable
                ib.use_connection(self.conn)
                ob.use_connection(self.conn)
            elif name == "StopUsingConnection":
                self.last_signal = "none"
                ib.stop_using_connection()
                ob.stop_using_connection()
                self.conn = None
            elif name == "SubPause":
                self.want_pause.add(arg)
                ib.subchannel_pauseProducing(self.sc[arg])
            elif name == "SubResume":
                self.want_pause.discard(arg)
                ib.subchannel_resumeProducing(self.sc[arg])
            elif name == "SubStop":
                self.want_pause.discard(arg)
                ib.subchannel_stopProducing(self.sc[arg])
            elif name == "SubClosed":
                self.want_pause.discard(arg)
                self.open.discard(arg)
                # Manager.subchannel_closed
                ib.subchannel_closed(self.scid[arg], self.sc[arg])
                ob.subchannel_closed(self.scid[arg], self.sc[arg])
                self.prod[arg].sig = "none" if self.prod[arg] not in ob._all_producers else self.prod[arg].sig
        except Exception as e:
            self.errors.append("%s in %s: %s" % (type(e).__name__, name, str(e)[:80]))

    def projection(self):
        ob = self.outbound
        ident = {id(v): k for k, v in self.prod.items()}
        scident = {id(v): k for k, v in self.sc.items()}
        return {"paused": bool(ob._paused), "conn": self.conn is not None,
                "deque": [ident.get(id(p), "?") for p in ob._all_producers],
                "pset": sorted(ident.get(id(p), "?") for p in ob._paused_producers),
                "uset": sorted(ident.get(id(p), "?") for p in ob._unpaused_producers),
                "sig": {p: self.prod[p].sig for p in self.pids},
                "ipaused": sorted(scident.get(id(s), "?") for s in self.inbound._paused_subchannels),
                "cpaused": bool(self.conn.paused) if self.conn else False,
                "wantPause": sorted(self.want_pause), "open": sorted(self.open),
                "queued": len(ob._outbound_queue), "unsent": len(ob._queued_unsent),
                # ground truth kept by the harness: the last thing the transport of the connection in use told the Outbound
                "lastSignal": self.last_signal if self.conn is not None else "none"}

    last_signal = "none"


def spec_projection(st):
    return {"paused": st["paused"], "conn": st["conn"], "deque": list(st["deque"]), "pset": sorted(st["pset"]),
            "uset": sorted(st["uset"]), "sig": dict(st["sig"]), "ipaused": sorted(st["ipaused"]), "cpaused": st["cpaused"],
            "wantPause": sorted(st["wantPause"]), "open": sorted(st["open"]), "queued": st["queued"], "unsent": st["unsent"]}


def complete_loop(states):
    """A behaviour that ends inside a wake-up loop (a witness whose goal lies there) is continued the only way it can go on by
    itself - DilationFlow.tla's LoopStep with nothing else happening, re-sent records fitting - until the call stack is empty:
    the real loop runs to its end in any case, and the end is where the comparison happens."""
    import copy
    states = list(states)
    for _ in range(60):
        st = states[-1]
        if st["depth"] == 0:
            break
        n = copy.deepcopy(st)
        pset, uset, deque = set(n["pset"]), set(n["uset"]), list(n["deque"])
        if not n["paused"] and n["unsent"] > 0:
            n["unsent"] -= 1
            n["last"] = ["LoopSend", "-"]
        elif n["paused"] or not pset:
            n["depth"] -= 1
            n["turn"] = "-"
            n["last"] = ["LoopEnd", "-"]
        else:
            p = deque[0]
            if p not in pset:
                n["internal"] = list(n["internal"]) + ["assert:_get_next_unpaused_producer"]
                n["depth"] = 0
                n["turn"] = "-"
                n["last"] = ["LoopAssert", p]
            else:
                deque = deque[1:] + [p]
                pset.discard(p)
                uset.add(p)
                n["sig"] = dict(n["sig"], **{p: "resume"})
                n["turn"] = p
                n["turns"] = dict(n["turns"], **{p: n["turns"][p] + 1})
                n["last"] = ["LoopStep", p]
        n["pset"], n["uset"], n["deque"] = sorted(pset), sorted(uset), deque
        states.append(n)
    return states


def replay_behaviour(tid, states, producers):
    w = FlowWorld(producers)
    drift = None
    i = 1
    n = len(states)
    schedule = []
    while i < n:
        st = states[i]
        la = list(st["last"])
        schedule.append(la)
        prev_depth = states[i - 1]["depth"]
        assert prev_depth == 0
        if st["depth"] == 0:
            # an ordinary action with an empty call stack (a TransportResume that finds nothing to do included)
            if la[0] not in ("LoopEnd", "LoopStep", "LoopSend"):
                w.perform(la)
            j = i
        else:
            # this action starts a loop: gather everything up to the state where the stack is empty again
            j = i + 1
            while j < n and states[j]["depth"] > 0:
                j += 1
            if j >= n:
                break          # behaviour cut by the depth bound in the middle of a loop: stop here
            seg = [list(s["last"]) for s in states[i + 1:j + 1]]
            schedule += seg
            scripts = []
            sends = []
            for a in seg:
                if a[0] == "LoopStep":
                    scripts.append((a[1], []))
                elif a[0] == "LoopSend":
                    sends.append(a[1] == "full")
                elif a[0] in ("LoopEnd", "LoopAssert"):
                    continue
                elif scripts:
                    scripts[-1][1].append(a)
            w.scripts = scripts
            w.send_script = sends
            w.perform(la)
            if w.scripts and drift is None:
                drift = {"step": j, "action": la, "diff": ["turn scripts left unused: %s" % (w.scripts[:2],)]}
            if w.script_mismatch and drift is None:
                drift = {"step": j, "action": la, "diff": ["producer turn order differs: %s" % (w.script_mismatch[:2],)]}
            w.scripts = []
            if w.send_script and drift is None:
                drift = {"step": j, "action": la, "diff": ["re-send script left unused: %s" % (w.send_script,)]}
            w.send_script = []
        pr, ps = w.projection(), spec_projection(states[j])
        w.checkpoints.append(pr)
        if drift is None and any(ps[k] != pr[k] for k in ps):
            d = ["%s: spec=%s real=%s" % (k, ps[k], pr[k]) for k in ps if ps[k] != pr[k]]
            drift = {"step": j, "action": list(states[j]["last"]), "diff": d[:5]}
        i = j + 1
    return w, drift, schedule


def _memb(v):
    return "[p \\in Producers |-> p \\in %s]" % v


FLOW_T_PROJ = ("[paused |-> paused, conn |-> conn, deque |-> deque, pset |-> %s, uset |-> %s, sig |-> sig, ipaused |-> %s, "
               "cpaused |-> cpaused, wantPause |-> %s, open |-> %s, queued |-> queued, unsent |-> unsent]"
               % tuple(_memb(v) for v in ("pset", "uset", "ipaused", "wantPause", "open")))


def walk_projection(w):
    pr = w.projection()
    pr.pop("lastSignal", None)
    for k in ("pset", "uset", "ipaused", "wantPause", "open"):
        pr[k] = {p: (p in pr[k]) for p in w.pids}
    return pr


class WalkProd(Prod):
    """a producer that, when woken, does (re-entrantly, from inside resumeProducing) what the walk's random policy says"""

    def resumeProducing(self):
        w = self.world
        self.sig = "resume"
        self.log.append("resume")
        if w.outbound._paused:
            w.resumed_while_paused.append(self.pid)
        w.turn_order.append(self.pid)
        w.emit(["LoopStep", self.pid])
        w.turn_stack.append(self.pid)
        try:
            for _ in range(w.rng.choice([0, 0, 1, 1, 2])):
                if w.turn_stack[-1] != self.pid:
                    break       # a loop nested inside this turn has run: the turn is over as far as the model is concerned
                acts = w.enabled(inside=True)
                if not acts:
                    break
                w.step(w.rng.choice(acts))
        finally:
            if w.turn_stack and w.turn_stack[-1] == self.pid:
                w.turn_stack.pop()


class WalkConn(FakeConn):
    def send_record(self, r):
        self.sent.append(r)
        w = self.world
        if getattr(w, "in_app_record", False) or not getattr(w, "in_loop", 0):
            return          # a record sent straight out by queue_and_send_record (not part of a re-send)
        full = w.steps < w.max_steps and w.rng.random() < 0.3
        if full:
            w.steps += 1
            w.last_signal = "pause"
            w.outbound.pauseProducing()
        w.emit(["LoopSend", "full" if full else "-"])


class WalkWorld(FlowWorld):
    """Code -> spec for C15: a seeded random walk over the real Outbound / Inbound, every step of the wake-up loop recorded as the
    real objects take it (producer woken, record re-sent, loop finished), for validation against DilationFlow.tla"""

    def __init__(self, producers, rng, max_steps, max_queued):
        FlowWorld.__init__(self, producers)
        self.prod = {p: WalkProd(self, p) for p in self.pids}
        self.rng, self.max_steps, self.max_queued = rng, max_steps, max_queued
        self.steps = 0
        self.lines = []
        self.turn_stack = []
        self.in_loop = 0
        self.schedule = []

    def turn(self):
        return self.turn_stack[-1] if self.turn_stack else "-"

    def emit(self, la, chk=True):
        self.schedule.append(list(la))
        self.lines.append({"a": list(la), "proj": walk_projection(self), "chk": chk})

    def enabled(self, inside=False):
        ob = self.outbound
        acts = []
        if self.conn is not None and self.steps < self.max_steps:
            acts += [("TransportPause", None), ("TransportResume", None), ("TransportResume", None)]
        registered = {id(p) for p in ob._all_producers}
        for p in self.pids:
            if id(self.prod[p]) not in registered and p in self.open:
                acts.append(("Register", p))
            if id(self.prod[p]) in registered:
                acts.append(("Unregister", p))
            if p in self.open:
                acts.append(("SubResume", p) if p in self.want_pause else ("SubPause", p))
                r = self.rng.random()
                if r < 0.3:
                    acts.append(("SubClosed", p))
                elif r < 0.5:
                    # an application that repeats itself, or says stop: pausing what is paused, resuming what is not
                    acts.append(("SubPause", p) if p in self.want_pause else ("SubResume", p))
                elif r < 0.65:
                    acts.append(("SubStop", p))
        if len(ob._outbound_queue) < self.max_queued:
            acts.append(("AppRecord", None))
        if not inside:
            acts += [("StopUsingConnection", None)] if self.conn is not None else [("UseConnection", None)] * 3
        return acts

    def step(self, act):
        name, arg = act
        ob = self.outbound
        label = [name, arg if arg is not None else ("-" if name in ("UseConnection", "StopUsingConnection") else self.turn())]
        if name in ("TransportPause", "TransportResume"):
            self.steps += 1
        starts_loop = (name == "TransportResume" and ob._paused) or name == "UseConnection"
        if starts_loop:
            # the action's own line first (its post-state is not observable: the loop runs inside the call), then the loop's
            # steps as the real objects take them, then LoopEnd when the call returns
            self.emit(label, chk=False)
            if self.turn_stack:
                self.turn_stack.append("-")          # a nested loop: nothing acts until it wakes someone
            self.in_loop += 1
            try:
                if name == "UseConnection":
                    self.conn = WalkConn()
                    self.conn.world = self
                    self.last_signal = "resume"
                    try:
                        self.inbound.use_connection(self.conn)
                        ob.use_connection(self.conn)
                    except Exception as e:
                        self.errors.append("%s in %s: %s" % (type(e).__name__, name, str(e)[:80]))
                else:
                    self.perform((name, arg))
            finally:
                self.in_loop -= 1
            self.emit(["LoopEnd", "-"])
            return
        if name == "AppRecord":
            self.in_app_record = True
        try:
            self.perform((name, arg))
        finally:
            self.in_app_record = False
        self.emit(label)


def flow_walk(tid, producers, rng, max_steps, max_queued, nsteps=25):
    w = WalkWorld(producers, rng, max_steps, max_queued)
    for _ in range(nsteps):
        acts = w.enabled()
        if not acts:
            break
        w.step(rng.choice(acts))
        w.checkpoints.append(w.projection())
    return w


def inbound_real_probe():
    """The inbound half on the real L2 object: a subchannel application's pauseProducing() / resumeProducing() must
    stop and restart the reading of the real DilatedConnectionProtocol (Inbound calls connection.pauseProducing()),
    and a pause in force is carried over to the replacement connection."""
    from ..dilreal import RealLinkWorld
    out = {"raised": [], "gotWhilePaused": 0, "gotAfterResume": 0, "pausedAfterReconnect": False, "gotAfterSecondResume": 0}
    w = RealLinkWorld()
    try:
        w.connect()
        w.listen("F", "p")
        p = w.open("L", "p")
        p.transport.write(b"a")
        w.pump()
        app = w.sides["F"].factories["p"].built[0]

        def got():
            return len([e for e in app.log if e[0] == "data"])
        base = got()

        def call(name, f):
            try:
                f()
            except Exception as e:
                out["raised"].append("%s: %s: %s" % (name, type(e).__name__, str(e)[:80]))
        call("pauseProducing", app.transport.pauseProducing)
        p.transport.write(b"b")
        w.pump()
        out["gotWhilePaused"] = got() - base
        call("resumeProducing", app.transport.resumeProducing)
        w.pump()
        out["gotAfterResume"] = got() - base
        # a pause in force when the connection is replaced
        call("pauseProducing", app.transport.pauseProducing)
        w.cut()
        w.observe_loss("L")
        w.observe_loss("F")
        for _ in range(4):
            if not w.mailbox_pump():
                break
        p.transport.write(b"c")
        try:
            w.connect()
        except Exception as e:
            out["raised"].append("reconnect: %s: %s" % (type(e).__name__, str(e)[:80]))
        n0 = got()
        w.pump()
        out["pausedAfterReconnect"] = (got() == n0)
        call("resumeProducing", app.transport.resumeProducing)
        w.pump()
        out["gotAfterSecondResume"] = got() - n0
        out["raised"] += [repr(e)[:100] for e in w.logged] + [repr(e)[:100] for s_ in w.sides.values() for e in s_.errors]
    finally:
        w.close()
    out["apiSeqs"] = [subchannel_api_seq(seq, expect) for seq, expect in API_SEQS]
    return out


# what the application of a subchannel may do with its transport, and whether the peer's data must flow afterwards: "exactly while at
# least one subchannel's application has asked for a pause" - the harness keeps its own account of who is asking (pause: yes;
# resume / stop: no longer; loseConnection says nothing about it)
API_SEQS = [
    (["pause A", "lose A", "resume A"], True),
    (["pause A", "stop A"], True),
    (["pause A", "pause B", "resume A"], False),
    (["pause A", "pause B", "resume A", "resume B"], True),
    (["pause A", "pause B", "resume B", "lose A", "resume A"], True),
    (["pause A", "pause A", "resume A"], True),
    (["pause A", "resume A", "resume A", "pause B"], False),
    (["lose A", "pause A", "resume A"], True),
    # the pause asked for from inside connectionMade() of a subchannel the peer opened (one subchannel: nothing else can be opened
    # while the connection is not read)
    (["madepause A"], False),
    (["madepause A", "resume A"], True),
    (["madepause A", "resume A", "pause A"], False),
    (["madepause A", "stop A"], True),
]


def subchannel_api_seq(seq, expect_flow):
    """two subchannels L -> F over a real DilatedConnectionProtocol pair; F's applications call their transports as `seq` says; then
    L writes on both: does anything reach F?"""
    from ..dilreal import RealLinkWorld
    out = {"seq": seq, "expectFlow": expect_flow, "flows": False, "raised": []}
    w = RealLinkWorld()
    try:
        w.connect()
        w.listen("F", "p")
        single = seq[0].startswith("madepause")
        if single:
            w.made_hooks = {("F", "p#in1"): lambda proto: proto.transport.pauseProducing()}
            seq = seq[1:]
        pa = w.open("L", "p")
        pb = None if single else w.open("L", "p")
        if not single:
            pa.transport.write(b"a0")
            pb.transport.write(b"b0")
        w.pump()
        built = w.sides["F"].factories["p"].built
        apps = {"A": built[0]} if single else {"A": built[0], "B": built[1]}
        transports = {k: a.transport for k, a in apps.items()}

        def got():
            return sum(len([e for e in a.log if e[0] == "data"]) for a in apps.values())
        for step in seq:
            what, which = step.split()
            t = transports[which]
            try:
                {"pause": t.pauseProducing, "resume": t.resumeProducing, "stop": t.stopProducing, "lose": t.loseConnection}[what]()
            except Exception as e:
                out["raised"].append("%s: %s: %s" % (step, type(e).__name__, str(e)[:80]))
            w.pump()
        n0 = got()
        for p_, tag in ((pa, b"a1"),) + (((pb, b"b1"),) if pb is not None else ()):
            try:
                p_.transport.write(tag)
            except Exception:
                pass                    # (a subchannel the peer has closed meanwhile)
        w.pump()
        out["flows"] = got() > n0
        out["raised"] += [repr(e)[:100] for e in w.logged] + [repr(e)[:100] for s_ in w.sides.values() for e in s_.errors]
    except Exception as e:
        out["raised"].append("harness: %s: %s" % (type(e).__name__, str(e)[:100]))
    finally:
        w.close()
    return out


def pull_producer_probe():
    """A pull producer (PullToPush) is driven by the cooperator only while the connection is writable."""
    reactor.reset()
    manager = mock.Mock()
    alsoProvides(manager, IDilationManager)
    eq = EventualQueue(reactor)
    ob = Outbound(manager, Cooperator(scheduler=eq.eventually))
    calls = []

    @implementer(IPullProducer)
    class Pull:
        def resumeProducing(self):
            calls.append(reactor.seconds())

        def stopProducing(self):
            calls.append("stop")
    sc = mock.Mock()
    alsoProvides(sc, ISubChannel)
    ob.subchannel_registerProducer(sc, Pull(), False)

    def spin(k=6):
        for _ in range(k):
            for dc in reactor.due():
                reactor.run_call(dc)
    spin()
    while_paused_initial = len(calls)           # no connection yet: paused
    c = FakeConn()
    ob.use_connection(c)
    spin()
    after_resume = len(calls)
    ob.pauseProducing()
    n0 = len(calls)
    spin()
    while_paused = len(calls) - n0
    ob.resumeProducing()
    spin()
    resumed_again = len(calls) - n0 - while_paused
    ob.subchannel_unregisterProducer(sc)
    n1 = len(calls)
    spin()
    return {"initial": while_paused_initial, "afterUse": after_resume, "whilePaused": while_paused, "resumedAgain": resumed_again,
            "afterUnregister": len(calls) - n1}


def run(prop, tier):
    quick = tier == "quick"
    seed = common.seed()
    v = common.Verdict(prop, tier)
    cov = {"tlc_configs": {}, "samples": [], "drift": []}
    INV = ["ThreeSets", "AllPausedWhenPaused", "NoConnMeansPaused", "AllResumedAfterDrain", "NoInternal", "InboundExact", "InboundCarried",
           "UnsentSane"]
    PROPS = ["NoResumeWhilePaused", "RotationFair"]
    records, meta = [], {}
    states = transitions = 0
    ndrift = 0
    tid = 0
    with common.Workdir(prop) as wd:
        cfgs = {"two": (dict(Producers={"p1", "p2"}, MaxSteps=4, MaxQueued=0), PROPS + ["LoopTerminates"]),
                "two_resend": (dict(Producers={"p1", "p2"}, MaxSteps=3, MaxQueued=2), PROPS)}
        if not quick:
            cfgs["three"] = (dict(Producers={"p1", "p2", "p3"}, MaxSteps=3, MaxQueued=0), PROPS)
            cfgs["two_resend3"] = (dict(Producers={"p1", "p2"}, MaxSteps=4, MaxQueued=3), PROPS)
        for name, (consts, props) in cfgs.items():
            m = "MC_C15_" + name
            common.write_model(wd, m, "DilationFlow", consts, invariants=INV, properties=props)
            r = tlc.run(m + ".tla", m + ".cfg", cwd=wd.path, timeout=2400)
            cov["tlc_configs"][name] = {"distinct_states": r.distinct, "states_generated": r.generated, "depth": r.depth,
                                        "wall_s": round(r.wall, 1), "result": "ok" if r.ok else (r.violated or "error")}
            states += r.distinct
            transitions += r.generated
            behaviours = []
            if r.violated:
                behaviours.append(("tlc-cex", r.trace, consts["Producers"]))
            elif not r.ok:
                raise RuntimeError("TLC failed on %s: %s" % (m, r.error or r.stdout[-1500:]))
        for name, consts in (("g2", dict(Producers={"p1", "p2"}, MaxSteps=6, MaxQueued=3)), ("g3", dict(Producers={"p1", "p2", "p3"}, MaxSteps=6, MaxQueued=2))):
            g = "MC_C15_" + name
            common.write_model(wd, g, "DilationFlow", consts)
            simdir = wd.file("sim_" + name)
            os.makedirs(simdir)
            tlc.run(g + ".tla", g + ".cfg", cwd=wd.path, workers=6, simulate={"num": (150 if quick else 1500) // 6, "file": os.path.join(simdir, "tr")},
                    depth=40, seed=seed + 15, timeout=900)
            for tr in tlc.read_sim_traces(os.path.join(simdir, "tr")):
                behaviours.append(("tlc-sim", tr, consts["Producers"]))
        goals = {
            "pause_inside_turn": 'last[1] = "TransportPause" /\\ last[2] # "-"',
            "resume_inside_turn": 'last[1] = "TransportResume" /\\ last[2] # "-" /\\ depth >= 2',
            "three_loops_deep": "depth >= 3",
            "unregister_inside_turn": 'last[1] = "Unregister" /\\ turn # "-"',
            "register_inside_turn": 'last[1] = "Register" /\\ turn # "-"',
            "closed_inside_turn": 'last[1] = "SubClosed" /\\ turn # "-"',
            "stop_with_everyone_running": 'last[1] = "StopUsingConnection" /\\ Cardinality(pset) >= 2 /\\ \\A p \\in pset : sig[p] = "pause"',
            "everyone_resumed": "~paused /\\ depth = 0 /\\ conn /\\ uset = Producers",
            "second_turn_for_someone": "\\E p \\in Producers : turns[p] >= 2",
            "inbound_pause_carried_over": 'last[1] = "UseConnection" /\\ cpaused',
            "paused_subchannel_closed_connected": 'last[1] = "SubClosed" /\\ iconn /\\ ~cpaused /\\ wantPause = {} /\\ open # Producers',
            "two_want_pause_one_resumes": 'last[1] = "SubResume" /\\ iconn /\\ cpaused',
            "register_while_paused_connected": 'last[1] = "Register" /\\ conn /\\ paused /\\ depth = 0',
            # the re-send of kept records is stopped by a full buffer while producers are waiting
            "resend_throttled_with_producers": 'last[1] = "LoopSend" /\\ last[2] = "full" /\\ unsent >= 1 /\\ Cardinality(pset) >= 1',
            "resend_done_then_wake": 'last[1] = "LoopStep" /\\ queued >= 2 /\\ unsent = 0',
            "lost_while_resend_throttled": 'last[1] = "StopUsingConnection" /\\ queued >= 2 /\\ Cardinality(pset) >= 1',
            "record_inside_turn_behind_waiting": 'last[1] = "AppRecord" /\\ last[2] # "-"',
            # hand-off: the producer whose turn it is finishes - unregisters itself and has a successor registered - and the loop
            # goes on to the next waiting producer; and the same with the buffer filling up again in that very turn
            "handoff_inside_turn_then_next": 'last[1] = "LoopStep" /\\ depth > 0 /\\ (\\E p \\in Producers \\ Registered : turns[p] > 0) /\\ '
                                             '(\\E q \\in Registered : q \\in uset /\\ turns[q] = 0 /\\ q # last[2])',
            "handoff_inside_turn_then_full": 'paused /\\ depth > 0 /\\ last[1] = "TransportPause" /\\ last[2] # "-" /\\ last[2] \\notin Registered /\\ '
                                             '(\\E q \\in Registered : turns[q] = 0 /\\ sig[q] = "pause") /\\ Cardinality(Registered) >= 2 /\\ '
                                             'Cardinality({q \\in Registered : turns[q] = 0}) >= 2',
        }
        for name, consts in (("g2", dict(Producers={"p1", "p2"}, MaxSteps=5, MaxQueued=3)), ("g3", dict(Producers={"p1", "p2", "p3"}, MaxSteps=4, MaxQueued=0))):
            wit, unreached = common.witnesses(wd, "DilationFlow", consts, goals, "MC_C15_goal_" + name)
            cov.setdefault("witness_goals", {})[name] = {"reached": [g_ for g_, _ in wit], "unreached": unreached}
            for g_, tr in wit:
                behaviours.append(("tlc-witness:" + g_, complete_loop(tr), consts["Producers"]))
        pull = pull_producer_probe()
        inreal = inbound_real_probe()
        cov["inbound_real_probe"] = inreal
        for origin, tr, producers in behaviours:
            tid += 1
            w, drift, schedule = replay_behaviour(tid, tr, producers)
            rec = {"tid": tid, "origin": origin, "checkpoints": w.checkpoints, "resumedWhilePaused": w.resumed_while_paused,
                   "internal": w.errors, "pull": pull, "inboundReal": inreal}
            records.append(rec)
            meta[tid] = {"schedule": schedule, "producers": sorted(producers)}
            if drift:
                ndrift += 1
                if len(cov["drift"]) < 6:
                    cov["drift"].append(dict(drift, tid=tid))
        # code -> spec: seeded random walks over the real Outbound / Inbound, validated by TLC against DilationFlow.tla
        rng = random.Random(seed * 7919 + 15)
        tv = {"walks": 0, "accepted": 0, "rejected": [], "lines": 0}
        for name, consts in (("walk2", dict(Producers={"p1", "p2"}, MaxSteps=10, MaxQueued=3)),
                             ("walk3", dict(Producers={"p1", "p2", "p3"}, MaxSteps=8, MaxQueued=2))):
            traces = {}
            for _ in range(40 if quick else 400):
                tid += 1
                w = flow_walk(tid, consts["Producers"], rng, consts["MaxSteps"], consts["MaxQueued"])
                traces[tid] = w.lines
                tv["lines"] += len(w.lines)
                records.append({"tid": tid, "origin": "real-walk", "checkpoints": w.checkpoints, "resumedWhilePaused": w.resumed_while_paused,
                                "internal": w.errors, "pull": pull, "inboundReal": inreal})
                meta[tid] = {"schedule": w.schedule, "producers": sorted(consts["Producers"])}
            res, r = common.trace_validate(wd, "DilationFlow", consts, traces, FLOW_T_PROJ, "MC_C15_trace_" + name)
            for t, (reached, total) in sorted(res.items()):
                tv["walks"] += 1
                if reached == total:
                    tv["accepted"] += 1
                else:
                    ndrift += 1
                    if len(tv["rejected"]) < 6:
                        tv["rejected"].append({"tid": t, "config": name, "matched_lines": reached, "of": total,
                                               "next_line": traces[t][reached] if reached < total else None,
                                               "schedule": meta[t]["schedule"][:reached + 1]})
        cov["trace_validation"] = dict(tv, rule="each walk = 25 top-level steps chosen among what the real Outbound/Inbound offer, the "
                                       "producers acting re-entrantly inside their turns by the same random policy; every iteration of "
                                       "the wake-up loop is a recorded line (LoopStep / LoopSend / LoopEnd as the real objects take "
                                       "them); accepted = DilationFlow.tla has a behaviour with the same actions and - wherever the "
                                       "state is observable - the same projection")
        path = wd.file("obs.ndjson")
        with open(path, "w") as f:
            for rec in records:
                f.write(json.dumps(rec) + "\n")
        with open(wd.file("MC_FObs.cfg"), "w") as f:
            f.write("SPECIFICATION Spec\nCHECK_DEADLOCK FALSE\n")
        with open(wd.file("MC_FObs.tla"), "w") as f:
            f.write("---- MODULE MC_FObs ----\nEXTENDS DilationFlowObs\n====\n")
        r = tlc.run("MC_FObs.tla", "MC_FObs.cfg", workers=1, cwd=wd.path, env={"OBS_FILE": path}, timeout=1800)
        verdicts = {t[1]: dict(zip(OBS_NAMES, t[2])) for t in tlc.printed_tuples(r.stdout, "OBS")}
        if len(verdicts) != len(records):
            raise RuntimeError("observer evaluated %d of %d runs\n%s" % (len(verdicts), len(records), r.stdout[-2500:]))
    failing = 0
    distinct = set()
    for rec in records:
        distinct.add(json.dumps(meta[rec["tid"]]["schedule"]))
        bad = [n for n in OBS_NAMES if not verdicts[rec["tid"]][n]]
        if bad:
            failing += 1
            sched = meta[rec["tid"]]["schedule"]
            sig = {"clause": bad[0]}
            if bad[0] == "InboundExact":
                sig["after"] = "SubClosed" if any(a[0] == "SubClosed" for a in sched) else "other"
            v.violation(sig, "%s fails on the real Outbound/Inbound: schedule %s ; last check-point %s" % (
                ",".join(bad), json.dumps(sched)[:300], json.dumps(rec["checkpoints"][-1] if rec["checkpoints"] else {})[:300]),
                dict(meta[rec["tid"]], observation=rec))
    cov.update(states=states, transitions=transitions, traces_validated_against_impl=len(records), evaluations=len(records),
               distinct_nontrivial=len(distinct), failing_runs=failing, replay_drift_count=ndrift, pull_probe=pull,
               rule="a run = one TLC behaviour of DilationFlow.tla (register/unregister, transport pause/resume incl. re-entrant ones "
                    "inside a producer's turn, subchannel pause/resume/close, connection loss/replacement) executed on the real "
                    "Outbound and Inbound; distinct = distinct action sequences; all are non-trivial")
    cov["samples"] = [{"schedule": meta[rec["tid"]]["schedule"][:30], "final": rec["checkpoints"][-1] if rec["checkpoints"] else {}} for rec in records[:2]]
    return v.finish(cov, assumptions=[
        "producers and the L2 connection are recording stand-ins; Outbound, Inbound, PullToPush and the Cooperator are real",
        "re-entrant actions happen inside a producer's resumeProducing(), as the model's `turn` says"])


def _replay_cmd(prop, path):
    d = json.load(open(path))["replay"]
    print(json.dumps(d["schedule"]))
    print(json.dumps(d["observation"]["checkpoints"][-3:], indent=1))
    return 0




def replay(prop, path):
    return _replay_cmd(prop, path)
