"""Supplementary (no listed property): which Tor tor_manager.get_tor() ends up with (spec/TorChoice.tla).  TLC evaluates the
table's consistency properties and prints every case; each case is run on the real get_tor() with a scripted stand-in for the
txtorcon module, and the outcome compared with the table.  Nothing here produces a VIOLATION line."""
import io
import json
import types

from twisted.internet import defer

from .. import common, tlc


def real_outcome(c):
    from wormhole import tor_manager
    made = []

    class FakeTor:
        def __init__(self, how):
            self.how = how

    def launch(reactor, **kw):
        made.append("launch")
        return defer.succeed(FakeTor("launched")) if c["launchOK"] else defer.fail(RuntimeError("tor did not start"))

    def connect(reactor, control_ep=None):
        if control_ep is not None:
            made.append("connect:named")
            return defer.succeed(FakeTor("control:named")) if c["namedOK"] else defer.fail(ConnectionRefusedError("no control port there"))
        made.append("connect:usual")
        return defer.succeed(FakeTor("control:usual")) if c["usualOK"] else defer.fail(ConnectionRefusedError("none of the usual places"))
    fake = types.SimpleNamespace(launch=launch, connect=connect, TorClientEndpoint=lambda *a, **kw: None)
    orig = (tor_manager.txtorcon, tor_manager.clientFromString)
    tor_manager.txtorcon = fake if c["installed"] else None
    tor_manager.clientFromString = lambda reactor, desc: ("endpoint", desc)
    try:
        launch_arg = {"no": False, "yes": True, "notbool": 1}[c["launch"]]
        port_arg = {"none": None, "given": "tcp:127.0.0.1:9251", "empty": "", "notstr": 9251}[c["port"]]
        out = []
        d = tor_manager.get_tor(object(), launch_arg, port_arg, stderr=io.StringIO())
        d.addBoth(out.append)
        if not out:
            return "other:pending"
        r = out[0]
        if isinstance(r, FakeTor):
            return r.how
        if isinstance(r, tor_manager.SocksOnlyTor):
            return "socks"
        n = type(r.value).__name__
        if n == "RuntimeError" and made == ["launch"]:
            return "fails:launch"
        if n == "ConnectionRefusedError" and made == ["connect:named"]:
            return "fails:named"
        return n
    finally:
        tor_manager.txtorcon, tor_manager.clientFromString = orig


def run_family(wd, quick, seed):
    with open(wd.file("TorChoice.cfg"), "w") as f:
        f.write("SPECIFICATION Spec\nCHECK_DEADLOCK FALSE\n")
    r = tlc.run("TorChoice.tla", "TorChoice.cfg", cwd=wd.path, timeout=300)
    cases = tlc.printed_tuples(r.stdout, "CASE")
    cov = {"tlc": {"result": "ok" if r.ok else (r.violated or r.error or "error"), "cases": len(cases), "wall_s": round(r.wall, 1),
                   "assumed": ["NoSilentSubstitute", "SocksOnlyAsLastResort", "NoTorFirst"]}}
    agree, differ, errors, seen = 0, [], [], {}
    for t in cases:
        _, c, expect = t
        try:
            got = real_outcome(c)
        except Exception as e:
            errors.append("%s: %r" % (json.dumps(c), e))
            continue
        seen[expect] = seen.get(expect, 0) + 1
        if got == expect:
            agree += 1
        elif len(differ) < 8:
            differ.append({"case": c, "table": expect, "real": got})
    cov.update(cases_run=agree + len(differ), agree=agree, differ=differ, errors=errors[:4], outcomes=seen,
               rule="one case = txtorcon installed or not x launch_tor class x tor_control_port class x does launching / the named "
                    "control port / a control port at the usual places work; run on the real tor_manager.get_tor() with a scripted "
                    "stand-in for the txtorcon module; agree = the outcome the table predicts")
    return cov


if __name__ == "__main__":
    with common.Workdir("torchoice") as wd:
        d = run_family(wd, True, common.seed())
        d.pop("rule")
        print(json.dumps(d, default=str))
