"""Supplementary (no listed property): how `wormhole send` / `wormhole receive` come by their code as a function of the command
line (spec/CliArgs.tla).  TLC evaluates the table's own consistency properties and prints every case; each case is then run on
the real click parser (cli.wormhole through CliRunner, `go` intercepted) and - where the parser lets the command go ahead - on the
real prologue of the command (Receiver._handle_code / Sender._go up to the code) with a recording stand-in for the wormhole
object, and the outcome compared with the table.  Nothing here produces a VIOLATION line."""
import io
import json
import sys
from unittest import mock

from twisted.internet import defer

from .. import common, tlc


class FakeWormhole:
    def __init__(self):
        self.calls = []

    def set_code(self, code):
        self.calls.append("set:zero" if code == "0-" else "set:given")

    def allocate_code(self, n=2):
        self.calls.append("allocate:0" if n == 0 else "allocate")

    def input_code(self):
        self.calls.append("input")
        return object()

    def get_code(self):
        return defer.succeed("7-code-words")

    def get_welcome(self):
        return defer.succeed({})

    def get_unverified_key(self):
        return defer.Deferred()          # (the prologue ends here)

    def get_verifier(self):
        return defer.Deferred()

    def get_message(self):
        return defer.Deferred()

    def close(self):
        return defer.succeed("happy")


def argv_of(cmd, c):
    lens = {"none": [], "num": ["--code-length", "3"], "zero": ["--code-length", "0"], "junk": ["--code-length", "many"]}[c["len"]]
    zero = ["-0"] if c["zero"] else []
    if cmd == "receive":
        return ["receive"] + lens + zero + (["--allocate"] if c["allocate"] else []) + ["5-some-code", "6-other-code"][:c["ncodes"]]
    return ["send"] + lens + zero + (["--code", "5-some-code"] if c["code"] else []) + ["--text", "hello"]


def real_outcome(cmd, c):
    from click.testing import CliRunner
    from wormhole.cli import cli, cmd_send, cmd_receive
    with mock.patch("wormhole.cli.cli.go") as go:
        res = CliRunner().invoke(cli.wormhole, argv_of(cmd, c), catch_exceptions=True)
    if res.exit_code == 2:
        return "usage"
    if isinstance(res.exception, ValueError):
        return "valueerror"
    if res.exit_code == 1 and not go.called:
        return "exit1"
    if not go.called:
        return "other:exit%s:%r" % (res.exit_code, res.exception)
    cfg = go.call_args[0][1]
    cfg.stdout, cfg.stderr = io.StringIO(), io.StringIO()
    w = FakeWormhole()
    failures = []
    if cmd == "receive":
        r = cmd_receive.Receiver(cfg, reactor=None)
        with mock.patch.object(cmd_receive, "input_with_completion", lambda prompt, helper, reactor: defer.succeed(True)):
            d = r._handle_code(w)
    else:
        s = cmd_send.Sender(cfg, reactor=mock.Mock())
        d = s._go(w)
    d.addErrback(failures.append)
    if failures:
        n = type(failures[0].value).__name__
        return "assert" if n == "AssertionError" else "other:" + n
    return w.calls[0] if len(w.calls) == 1 else "other:calls=%r" % (w.calls,)


def run_family(wd, quick, seed):
    with open(wd.file("CliArgs.cfg"), "w") as f:
        f.write("SPECIFICATION Spec\nCHECK_DEADLOCK FALSE\n")
    r = tlc.run("CliArgs.tla", "CliArgs.cfg", cwd=wd.path, timeout=300)
    cases = tlc.printed_tuples(r.stdout, "CASE")
    cov = {"tlc": {"result": "ok" if r.ok else (r.violated or r.error or "error"), "cases": len(cases), "wall_s": round(r.wall, 1),
                   "assumed": ["GivenCodeUsed", "NeverAllocateOverGiven", "ZeroMeansZero"]}}
    agree, differ, errors = 0, [], []
    seen = {}
    for t in cases:
        _, cmd, c, expect = t
        try:
            got = real_outcome(cmd, c)
        except Exception as e:
            errors.append("%s %s: %r" % (cmd, json.dumps(c), e))
            continue
        seen[expect] = seen.get(expect, 0) + 1
        if got == expect:
            agree += 1
        elif len(differ) < 8:
            differ.append({"command": cmd, "case": c, "table": expect, "real": got})
    cov.update(cases_run=agree + len(differ), agree=agree, differ=differ, errors=errors[:4], outcomes=seen,
               rule="one case = one combination of codes given / --allocate / --code-length class / -0 for `receive`, of --code / "
                    "--code-length class / -0 for `send`; run on the real click parser and, where it lets the command go ahead, on the "
                    "real prologue of the command with a recording stand-in for the wormhole; agree = the outcome the table predicts")
    return cov


if __name__ == "__main__":
    with common.Workdir("cliargs") as wd:
        print(json.dumps(run_family(wd, True, common.seed()), indent=1, default=str))
