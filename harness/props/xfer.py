"""C04 - a completed transfer is byte-exact; success is never reported otherwise.

spec/FileXfer.tla is model-checked by TLC (payloads of 0..3 records, every fault); its behaviours are
sampled with -simulate, reduced to their distinct fault signatures, and each is executed with the real
`wormhole send` and `wormhole receive` commands on the simulated reactor (real mailbox protocol, real
Transit, real zip streaming), the faults being injected into the transit byte stream at the byte offsets
the behaviour names, under several payload shapes and chunkings.  XferObs.tla decides on the outcomes.
"""
import json
import os
import random
import shutil
import time

from .. import common, tlc
from .. import xferworld as X

CHUNK = 16384
FRAME_OVERHEAD = 4 + 24 + 16
OBS_NAMES = ["BothOkExact", "CutFails", "BadAckFails", "NoTmpOnSuccess", "NoDestUnlessOk", "TextExact", "CleanSucceeds", "NoInternal"]


def record_sizes(total):
    if total == 0:
        return []
    out = [CHUNK] * (total // CHUNK)
    if total % CHUNK:
        out.append(total % CHUNK)
    return out


def frame_offsets(total):
    """byte offsets in the record stream where each frame starts, plus the end"""
    offs = [0]
    for n in record_sizes(total):
        offs.append(offs[-1] + n + FRAME_OVERHEAD)
    return offs


def signature_of(states):
    """(N is in the config) -> fault signature of a FileXfer behaviour"""
    sig = {"fault": "-", "at": 0}
    for st in states[1:]:
        a, x = st["last"]
        if a == "Cut":
            sig = {"fault": "cut", "at": x, "inflight": len(st["inflight"])}
        elif a == "Corrupt":
            sig = {"fault": "corrupt", "at": x}
        elif a == "Replay":
            sig = {"fault": "replay", "at": x}
        elif a == "LoseAck":
            sig = {"fault": "acklost", "at": 0}
        elif a == "ReceiverFinishesAfterCut":
            sig = {"fault": "acklost", "at": 0}
        elif a == "Finish" and st["fault"] not in ("-", "cut", "corrupt", "replay", "acklost"):
            sig = {"fault": st["fault"], "at": 0}
    fin = states[-1]
    sig["expect"] = {"okS": fin["okS"], "okR": fin["okR"], "dest": fin["dest"]}
    return sig


def make_payload(kind, nrec, variant, sdir, rng):
    """Create the thing to send; returns (what, total bytes on the record stream or None for directories)"""
    if kind == "file":
        if nrec == 0:
            size = 0
        else:
            size = [(nrec - 1) * CHUNK + 1, nrec * CHUNK, nrec * CHUNK - 1, (nrec - 1) * CHUNK + CHUNK // 2][variant % 4]
        # (names: ordinary, with a space, non-ASCII in NFC, leading dash, ".tmp"; and names that are *not* in NFC form as
        # given - decomposed accent as macOS produces, ANGSTROM SIGN, ligature: the receiver must get exactly these)
        # ... and names containing what is a separator or a drive prefix on *other* systems (here they are ordinary characters)
        names = ["f.bin", "with space.txt", "ünï.dat", "-dash", "trailing.tmp", "cafe\u0301.txt", "\u212bngstrom \ufb01le.bin",
                 "back\\slash.bin", "a:colon.txt", "semi;colon &amp.dat"]
        name = names[(variant + rng.randrange(len(names))) % len(names)]
        # content: random bytes; or long runs of one byte value - all zeros, zeros in the last / first record only (a disk
        # image, a padded archive), all 0xff - which a writer that treats some bytes specially would give itself away on
        prof = rng.randrange(6)
        tail = min(size, CHUNK if size % CHUNK == 0 else size % CHUNK)
        content = [rng.randbytes(size), bytes(size), rng.randbytes(size - tail) + bytes(tail), bytes(tail) + rng.randbytes(size - tail),
                   b"\xff" * size, rng.randbytes(size)][prof]
        with open(os.path.join(sdir, name), "wb") as f:
            f.write(content)
        return name, size
    # directory tree with an empty directory, an empty file, odd names and (nrec-dependent) bulk
    root = os.path.join(sdir, ["tree %d", "tre\u0301e %d", "\u212b tree %d", "back\\slash tree %d", "c:tree %d"][rng.randrange(5)] % variant)
    os.makedirs(os.path.join(root, "sub", "deeper"))
    os.makedirs(os.path.join(root, "empty dir"))
    with open(os.path.join(root, "a.txt"), "wb") as f:
        f.write(b"hello\n")
    with open(os.path.join(root, "sub", "zero"), "wb") as f:
        pass
    with open(os.path.join(root, "sub", "deeper", "ünï code.bin"), "wb") as f:
        f.write(rng.randbytes(max(0, nrec * CHUNK - 700)))
    os.chmod(os.path.join(root, "a.txt"), 0o640)
    # several names for one content: a copy, a hard link (one inode, two names) and a symbolic link to a file of the tree (the
    # sender reads through it): each name is a file of the tree the receiver must end up with
    with open(os.path.join(root, "sub", "copy of a.txt"), "wb") as f:
        f.write(b"hello\n")
    if variant % 2 == 0:
        os.link(os.path.join(root, "a.txt"), os.path.join(root, "sub", "a hard link.txt"))
        os.link(os.path.join(root, "sub", "deeper", "ünï code.bin"), os.path.join(root, "z same inode.bin"))
    if variant % 3 != 1:
        os.symlink("a.txt", os.path.join(root, "latest.txt"))
    return os.path.basename(root), None


BAD_HASHES = 9      # spellings of "a different hash" (run_case)


def run_case(tid, kind, nrec, variant, sig, chunk, rng, badhash=None, into_existing=False):
    base = os.path.join(common.OUT, "sbx_%d_%d" % (os.getpid(), tid))
    shutil.rmtree(base, ignore_errors=True)
    sdir, rdir = os.path.join(base, "s"), os.path.join(base, "r")
    os.makedirs(sdir)
    os.makedirs(rdir)
    rec = {"tid": tid, "kind": kind, "nrec": nrec, "variant": variant, "sig": sig, "chunk": chunk or 0}
    patched = None
    patched_input = None
    try:
        if sig["fault"] == "replay":
            # an earlier record in place of a later one of the same length: whole records only, random content
            kind, variant = "file", 1
            rec["kind"] = kind
        what, size = make_payload(kind, nrec, variant, sdir, rng)
        stale = kind == "file" and (tid % 2 == 0) and not into_existing      # (the stale file would lie outside the destination there)
        if stale:
            # history: an earlier transfer of this name into this directory was cut and left its temporary file behind
            with open(os.path.join(rdir, what + ".tmp"), "wb") as f:
                f.write(b"left over from a transfer that was cut " * (1 + tid % 7))
        rec["staleTmp"] = bool(stale)
        w = X.XferWorld(base)
        w.chunk = chunk
        w.start_send(sdir, what=what)
        if into_existing:
            # --output-file names an existing directory that already holds something of the offered name (an earlier receive of
            # the same thing) and the user says yes at the prompt: whatever the command then does, success means identical
            os.makedirs(os.path.join(rdir, "D", what) if kind == "dir" else os.path.join(rdir, "D"))
            stale_p = os.path.join(rdir, "D", what, "left over.txt") if kind == "dir" else os.path.join(rdir, "D", what)
            with open(stale_p, "w") as f:
                f.write("from an earlier transfer")
            import builtins
            orig_input = builtins.input
            builtins.input = lambda prompt="": "y"
            patched_input = (builtins, orig_input)
            before_D = X.snapshot(os.path.join(rdir, "D"))
            w.start_receive(rdir, accept=False, output_file="D")
        else:
            w.start_receive(rdir)
        fault = sig["fault"]
        if fault in ("badhash", "nohash", "notok"):
            from wormhole.cli import cmd_receive
            from wormhole.util import dict_to_bytes, bytes_to_hexstr
            orig = cmd_receive.Receiver._close_transit

            def bad_close(self, record_pipe, datahash, fault=fault):
                ack = {"ack": "ok", "sha256": bytes_to_hexstr(datahash)}
                if fault == "badhash":
                    # "a different hash": anything but the digest of what was sent
                    good = ack["sha256"]
                    ack["sha256"] = ["00" * 32, "", None, 0, good[:-1], good + "0",
                                     good[:-1] + ("0" if good[-1] != "0" else "1"), False, []][(variant if badhash is None else badhash) % BAD_HASHES]
                elif fault == "nohash":
                    del ack["sha256"]
                else:
                    ack["ack"] = "no"
                record_pipe.send_record(dict_to_bytes(ack))
                record_pipe.close()
            cmd_receive.Receiver._close_transit = bad_close
            patched = (cmd_receive.Receiver, orig)
        # the record stream length
        total = size if kind == "file" else _zipsize_of(w)
        before_all = False
        if fault == "cut" or fault == "corrupt":
            offs = frame_offsets(total)
            k = min(sig["at"], len(offs) - 1)
            if fault == "cut":
                # after k complete records; variant decides whether the cut falls on the boundary or inside the next frame
                pos = offs[k] if k < len(offs) else offs[-1]
                if k < len(offs) - 1 and variant % 2 == 1:
                    pos += 1 + rng.randrange(offs[k + 1] - offs[k] - 1)
                w.fault = {"cut_at": pos}
                before_all = k < len(offs) - 1 or len(offs) == 1
                if len(offs) == 1:
                    before_all = False      # nothing to transfer: a cut cannot precede "every byte"
            else:
                i = max(1, min(sig["at"], len(offs) - 1))
                lo, hi = offs[i - 1], offs[i]
                w.fault = {"corrupt_at": lo + [0, 4, 30, hi - lo - 1][variant % 4] if hi - lo > 30 else lo}
                before_all = True
        elif fault == "replay":
            offs = frame_offsets(total)
            j = max(2, min(sig["at"], len(offs) - 1))          # record j (1-based) is shown as a copy of record j - 1
            if offs[j] - offs[j - 1] == offs[j - 1] - offs[j - 2]:
                w.fault = {"replay_rec": (offs[j - 1], offs[j], offs[j] - offs[j - 1])}
            before_all = True
        elif fault == "acklost":
            w.fault = {"drop_ack": True}
        w.run(until=w.done, max_virtual=600.0)
        okS, okR = w.ok("send"), w.ok("recv")
        snap = X.snapshot(rdir)
        destname = what if not into_existing else os.path.join("D", what)
        dest_path = os.path.join(rdir, destname)
        exists = os.path.lexists(dest_path)
        if kind == "file":
            equal = exists and X.snapshot(sdir)[what][:3] == snap.get(destname, (None,))[:3]
        else:
            src_tree = X.tree_content(os.path.join(sdir, what), read_view=True)
            equal = exists and os.path.isdir(dest_path) and X.tree_content(dest_path) == src_tree
            if equal:
                # permissions of regular files survive
                ssnap, dsnap = X.snapshot(os.path.join(sdir, what)), X.snapshot(dest_path)
                equal = all(dsnap[p][3] == v[3] for p, v in ssnap.items() if v[0] == "file")
        tmp_left = any(p.endswith(".tmp") and p != destname for p in snap)
        others = sorted(p for p in snap if p != destname and not p.startswith(destname + os.sep) and not p.endswith(".tmp"))
        internal = ["%s: %s" % (type(e).__name__, str(e)[:80]) for _, e in w.internal]
        if into_existing:
            # what was there before is not "a destination that appeared": the question is whether anything under D changed - and
            # if it did, the result must be the source, complete, with success reported (a refusal that leaves D alone is fine)
            exists = exists and X.snapshot(os.path.join(rdir, "D")) != before_D
            others = [p for p in others if p != "D" and not p.startswith("D" + os.sep)]
            fault = "preexisting"
        rec.update({"okS": okS, "okR": okR, "destExists": bool(exists), "equal": bool(equal), "tmpLeft": bool(tmp_left),
                    "fault": fault, "beforeAll": bool(before_all), "others": others, "internal": internal,
                    "events": [list(e) for e in w.events], "text": False, "textExact": True,
                    "pending": okS == "pending" or okR == "pending"})
        w.shutdown()
        return rec
    finally:
        if patched_input:
            patched_input[0].input = patched_input[1]
        if patched:
            patched[0]._close_transit = patched[1]
        shutil.rmtree(base, ignore_errors=True)


def _zipsize_of(w):
    """the zip stream length of a directory transfer, computed the way cmd_send computes it (sized ZipStream)"""
    import os as _os
    what = _os.path.join(w.send_cfg.cwd, w.send_cfg.what)
    from zipstream import ZipStream, walk
    zs = ZipStream(sized=True)
    for fp in walk(what, preserve_empty=True, followlinks=True):
        zs.add_path(fp, arcname=_os.path.relpath(fp, what), recurse=False)
    return len(zs)


def run_text_case(tid, text, channel="arg"):
    base = os.path.join(common.OUT, "sbx_%d_%d" % (os.getpid(), tid))
    shutil.rmtree(base, ignore_errors=True)
    os.makedirs(os.path.join(base, "s"))
    os.makedirs(os.path.join(base, "r"))
    try:
        w = X.XferWorld(base)
        # the text reaches `wormhole send` as an argument, on standard input (--text -) or typed at its prompt
        import builtins
        import io
        import sys
        orig_stdin, orig_input = sys.stdin, builtins.input
        if channel == "stdin":
            sys.stdin = io.StringIO(text)

            def no_more_input(prompt=""):        # standard input has been read to its end
                raise EOFError()
            builtins.input = no_more_input
        elif channel == "prompt":
            builtins.input = lambda prompt="": text
        try:
            w.start_send(os.path.join(base, "s"), text=text, channel=channel)
            w.start_receive(os.path.join(base, "r"))
            w.run(until=w.done, max_virtual=300.0)
        finally:
            sys.stdin, builtins.input = orig_stdin, orig_input
        out = w.recv_cfg.stdout.getvalue()
        # "reproduced exactly, up to the receiver's terminal-safe escaping": what was printed, read back as the inside of
        # a Python string literal (either quote style), is the message - and one line, no raw control characters
        import ast
        line = out[:-1] if out.endswith("\n") else None
        exact = False
        if line is not None and not any(ord(ch) < 32 or ord(ch) == 127 for ch in line):
            for q in ("'", '"', "'''", '"""'):
                try:
                    if ast.literal_eval(q + line + q) == text:
                        exact = True
                        break
                except Exception:
                    pass
        internal = ["%s: %s" % (type(e).__name__, str(e)[:80]) for _, e in w.internal]
        w.shutdown()
        return {"tid": tid, "kind": "text", "nrec": 0, "variant": 0, "sig": {"fault": "-"}, "chunk": 0, "okS": w.ok("send"),
                "okR": w.ok("recv"), "destExists": False, "equal": False, "tmpLeft": bool(X.snapshot(os.path.join(base, "r"))),
                "fault": "-", "beforeAll": False, "others": [], "internal": internal, "events": [], "text": True,
                "textExact": bool(exact), "pending": False}
    finally:
        shutil.rmtree(base, ignore_errors=True)


def run(prop, tier):
    quick = tier == "quick"
    seed = common.seed()
    rng = random.Random(seed + 4)
    v = common.Verdict(prop, tier)
    cov = {"tlc_configs": {}, "samples": []}
    records = []
    states = transitions = 0
    sigs = {}
    with common.Workdir(prop) as wd:
        for n in (0, 1, 2, 3):
            m = "MC_C04_N%d" % n
            common.write_model(wd, m, "FileXfer", dict(N=n, AckKinds={"good", "badhash", "nohash", "notok"}),
                               invariants=["BothOkExact", "CutBeforeAllFails", "SenderNeedsGoodAck", "BadAckFails", "DestOnlyWhenComplete"],
                               properties=["Terminates"])
            r = tlc.run(m + ".tla", m + ".cfg", cwd=wd.path, timeout=900)
            cov["tlc_configs"]["N%d" % n] = {"distinct_states": r.distinct, "states_generated": r.generated, "depth": r.depth,
                                             "wall_s": round(r.wall, 1), "result": "ok" if r.ok else (r.violated or "error")}
            states += r.distinct
            transitions += r.generated
            if not r.ok and not r.violated:
                raise RuntimeError("TLC failed on %s: %s" % (m, r.error or r.stdout[-1500:]))
            simdir = wd.file("sim%d" % n)
            os.makedirs(simdir)
            tlc.run(m + ".tla", m + ".cfg", cwd=wd.path, workers=4, simulate={"num": 150 if quick else 600, "file": os.path.join(simdir, "tr")},
                    depth=30, seed=seed + n, timeout=600)
            for tr in tlc.read_sim_traces(os.path.join(simdir, "tr")):
                if tr[-1]["okS"] == "-" or tr[-1]["okR"] == "-":
                    continue            # behaviour stopped by the depth bound
                s = signature_of(tr)
                key = (n, s["fault"], s["at"], s.get("inflight", 0) > 0, json.dumps(s["expect"], sort_keys=True))
                sigs.setdefault(key, s)
        cov["distinct_behaviour_signatures"] = len(sigs)
        tid = 0
        drift = []
        for key, sig in sorted(sigs.items(), key=lambda kv: str(kv[0])):
            n = key[0]
            kinds = [("file", v) for v in range(2 if quick else 4)]
            if n >= 1 and sig["fault"] != "replay" and (not quick or sig["fault"] in ("-", "cut")):
                kinds.append(("dir", 0))
            for kind, variant in kinds:
                for chunk in ([None] if quick else [None, 1000, 61]):
                    tid += 1
                    rec = run_case(tid, kind, n, variant, sig, chunk, random.Random(seed * 131 + tid))
                    records.append(rec)
                    exp = sig["expect"]
                    got = {"okS": rec["okS"], "okR": rec["okR"], "dest": "src" if rec["destExists"] and rec["equal"] else ("-" if not rec["destExists"] else "other")}
                    if got != exp and len(drift) < 10:
                        drift.append({"tid": tid, "kind": kind, "n": n, "sig": {k: sig[k] for k in ("fault", "at")}, "spec": exp, "real": got})
        # family: the destination is not empty (--output-file names an existing directory that already holds the offered name,
        # the user agrees at the prompt)
        clean = [sig for key, sig in sorted(sigs.items(), key=lambda kv: str(kv[0])) if sig["fault"] == "-" and key[0] >= 1][:1]
        for sig in clean:
            for kind in ("dir", "file"):
                for variant in range(1 if quick else 3):
                    tid += 1
                    rec = run_case(tid, kind, 1, variant, sig, None, random.Random(seed * 131 + tid), into_existing=True)
                    rec["origin"] = "family:into-existing"
                    records.append(rec)
        # family: every spelling of "the acknowledgement carries a different hash" (the model's ack kind "badhash")
        bh = [sig for key, sig in sorted(sigs.items(), key=lambda kv: str(kv[0])) if sig["fault"] == "badhash"][:1 if quick else 3]
        for sig in bh:
            for b in range(BAD_HASHES):
                tid += 1
                rec = run_case(tid, "file", max(1, [k[0] for k, s_ in sigs.items() if s_ is sig][0]), b, sig, None, random.Random(seed * 131 + tid), badhash=b)
                rec["origin"] = "family:badhash:%d" % b
                records.append(rec)
        cov["badhash_spellings"] = BAD_HASHES * len(bh)
        texts = ["hello", " ", "multi\nline\ttab", "ünïcode ☃", "quote'and\"dq", "\x1b[31mred", "x" * 5000,
                 # quotes and backslashes at the edges, where a careless un-quoting of repr() goes wrong
                 "'", '"', "'hello'", '"hello"', 'say "cheese"', "rock 'n'", "''", "\\", "ends with backslash\\", "'\"", "a\x00b", "\x7f",
                 # not in NFC form as given: a text message is reproduced exactly, not normalised
                 "cafe\u0301", "\u212b and \ufb01", "\u1100\u1161"]
        for i, text in enumerate(texts):
            tid += 1
            records.append(run_text_case(tid, text))
        # the other two ways a text gets into the command: what was read is what is reproduced (trailing newlines and blanks are
        # part of what was read from standard input)
        for text in ["hello\n", "hello", "two\nlines\n\n", "\n", " padded ", "tab\t", "ünïcode ☃\n", "'quoted'\n", "\r\n", "x" * 5000 + "\n"]:
            tid += 1
            rec = run_text_case(tid, text, channel="stdin")
            rec["origin"] = "family:text-stdin"
            records.append(rec)
        for text in ["hello", " padded ", "'quoted'", "tab\t", "ends with backslash\\", "ünïcode ☃"]:
            tid += 1
            rec = run_text_case(tid, text, channel="prompt")
            rec["origin"] = "family:text-prompt"
            records.append(rec)
        cov["outcome_drift"] = drift
        # supplementary (not one of the listed properties): the application protocol above the wormhole API, XferProto.tla
        try:
            from . import xferproto
            cov["supplementary"] = {"xfer_proto": xferproto.run_family(wd, quick, seed)}
        except Exception as e:
            cov["supplementary"] = {"xfer_proto": {"error": repr(e)[:300]}}
        # supplementary: `wormhole ssh invite / accept` and xfer_util, SshKey.tla
        try:
            from . import sshkey
            cov["supplementary"]["ssh_key"] = sshkey.run_family(wd, quick, seed)
        except Exception as e:
            cov["supplementary"]["ssh_key"] = {"error": repr(e)[:300]}
        path = wd.file("obs.ndjson")
        with open(path, "w") as f:
            for rec in records:
                f.write(json.dumps({k: v for k, v in rec.items() if k != "sig"}) + "\n")
        with open(wd.file("MC_XObs.cfg"), "w") as f:
            f.write("SPECIFICATION Spec\nCHECK_DEADLOCK FALSE\n")
        with open(wd.file("MC_XObs.tla"), "w") as f:
            f.write("---- MODULE MC_XObs ----\nEXTENDS XferObs\n====\n")
        r = tlc.run("MC_XObs.tla", "MC_XObs.cfg", workers=1, cwd=wd.path, env={"OBS_FILE": path}, timeout=1800)
        verdicts = {t[1]: dict(zip(OBS_NAMES, t[2])) for t in tlc.printed_tuples(r.stdout, "OBS")}
        if len(verdicts) != len(records):
            raise RuntimeError("observer evaluated %d of %d runs\n%s" % (len(verdicts), len(records), r.stdout[-2000:]))
    failing = 0
    nontrivial = set()
    for rec in records:
        if rec["fault"] != "-" or rec["kind"] != "file":
            nontrivial.add((rec["kind"], rec["nrec"], rec["variant"], rec["fault"], json.dumps(rec["sig"].get("at", 0)), rec["chunk"]))
        bad = [n for n in OBS_NAMES if not verdicts[rec["tid"]][n]]
        if bad:
            failing += 1
            v.violation({"clause": bad[0], "kind": rec["kind"], "fault": rec["fault"]},
                        "%s fails for %s transfer (%d records, fault %s): %s" % (",".join(bad), rec["kind"], rec["nrec"], rec["fault"],
                                                                                json.dumps({k: rec[k] for k in ("okS", "okR", "destExists", "equal", "tmpLeft", "events")})),
                        {"case": rec})
    cov.update(states=states, transitions=transitions, traces_validated_against_impl=len(records), evaluations=len(records),
               distinct_nontrivial=len(nontrivial), failing_runs=failing,
               rule="a run = one distinct fault signature of a FileXfer.tla behaviour x payload shape (file sizes around the 16 KiB record "
                    "boundary, odd names, directory tree with empty dir/file) x chunking, executed with the real send and receive "
                    "commands; non-trivial = has a fault or is a directory/text transfer")
    cov["samples"] = [{k: rec[k] for k in ("kind", "nrec", "variant", "fault", "okS", "okR", "destExists", "equal", "events")} for rec in records[:3]]
    return v.finish(cov, assumptions=[
        "the record pipe's guarantee (C06) is the model's interface; real runs exercise the real Transit underneath",
        "the receiver runs with --accept-file and --no-listen (one transit link, sender listens)",
        "'ack with a different hash / without hash / not ok' is produced by patching the peer receiver, as a faulty peer would"])


def replay(prop, path):
    d = json.load(open(path))["replay"]["case"]
    if d["kind"] == "text":
        print("text cases are re-run by the check itself")
        return 0
    rec = run_case(1, d["kind"], d["nrec"], d["variant"], d["sig"], d["chunk"] or None, random.Random(1))
    print(json.dumps(rec, indent=1))
    return 0
