"""C20 - peer connection hints are untrusted: never a crash, only valid hints dialled.

spec/Hints.tla is model-checked by TLC over the whole abstract space of hint lists (JSON kinds per
field); TLC prints every case with the set of attempts the specification requires (MustDial) and
permits (MayDial).  Each case is concretised several ways and fed to the real code through both entry
points: transit.Common.add_connection_hints + connect(), and the Dilation `connection-hints` message
into a real Manager/Connector.  A case fails when the real code raises / logs an internal error, or
dials something outside MayDial, or does not dial something in MustDial.
"""
import json
import os
import random

from .. import common, tlc, sim

reactor = sim.install()

from twisted.internet import defer  # noqa: E402
from twisted.python import log  # noqa: E402

from wormhole import transit, ipaddrs  # noqa: E402
from wormhole.util import dict_to_bytes  # noqa: E402

STRS = [lambda i: "10.%d.%d.9" % (i // 200 + 1, i % 200 + 1),          # IPv4 literal
        lambda i: "host%d.example.org" % i,                              # DNS name
        lambda i: "fd00::%x" % (i + 1)]                                  # IPv6 literal


# strings that cannot name a host
ODD_HOSTS = ["", "[::1]", "a b", "host:80", "-", ".", "a" * 300, "a\x00b", "..", " 10.0.0.1", "[", "]", "[]"]


def kind_value(kind, variant, ident, field):
    """A JSON value of the given kind.  `ident` makes hostnames/ports of different hints distinguishable."""
    if kind == "str":
        if field == "hostname":
            return STRS[variant % len(STRS)](ident)
        return ["1.5", "high", "", "nan", "\u0663", "1e400"][(variant * 2 + ident) % 6]
    if kind == "oddstr":
        return ODD_HOSTS[(variant * 5 + ident) % len(ODD_HOSTS)]
    if kind == "int":
        if field == "port":
            return 20000 + ident
        return [3, 0, -7, 10 ** 400, -10 ** 400][(variant * 2 + ident) % 5]
    if kind == "float":
        return [1.5, 0.0, -2.25, float("inf"), float("nan"), -0.0][(variant * 2 + ident) % 6]
    if kind == "bool":
        return [True, False, True][variant % 3]
    if kind == "null":
        return None
    if kind == "list":
        return [[1], [], ["a", 2]][variant % 3]
    if kind == "dict":
        return [{"a": 1}, {}, {"type": "direct-tcp-v1"}][variant % 3]
    raise KeyError(kind)


class Concretiser:
    def __init__(self, variant):
        self.variant = variant
        self.n = 0
        self.ident_of = {}      # (hostname or None, port or None) -> description

    def hint(self, h):
        """abstract hint record -> (json value, {port-identity: h})"""
        if h["type"] == "nonobj":
            return [7, "direct-tcp-v1", None, [1, 2]][self.variant % 4], {}
        t = h["type"]
        if t == "relay-v1":
            ident = 0
        elif h.get("twin") and getattr(self, "last_tcp", 0):
            ident = self.last_tcp          # (a twin names the same endpoint as the TCP-style hint before it: same identity, same values)
        else:
            self.n += 1
            ident = self.last_tcp = self.n
        out = {}
        if t == "nonstr":
            # not a string: a number, an (unhashable) array or object, null, a boolean
            out["type"] = [7, ["direct-tcp-v1"], {}, None, True, 2.5, {"type": "direct-tcp-v1"}, []][(self.variant * 3 + self.n) % 8]
        elif t != "missing":
            out["type"] = t
        ids = {}
        if t == "relay-v1":
            sk = h["subkind"]
            if sk == "list":
                subs = []
                for s in h["sub"]:
                    j, i2 = self.hint(s)
                    subs.append(j)
                    for k_, v_ in i2.items():
                        ids.setdefault(k_, []).extend(v_)
                out["hints"] = subs
            elif sk != "missing":
                out["hints"] = {"null": None, "int": 5, "str": "abc", "dict": {"x": 1}}[sk]
            return out, ids
        for field in ("hostname", "port", "priority"):
            k = h[field]
            if k != "missing":
                out[field] = kind_value(k, self.variant, ident, field)
        # (a string that cannot name a host is a string: Hints.tla lets such a hint be tried - MayDial - and a client that has
        # Tor hands it to Tor like any other name; the port it would be dialled at identifies it like the others)
        if h["port"] in ("int",) and h["hostname"] in ("str", "oddstr"):
            ids[out["port"]] = [h]
        elif h["port"] == "bool" and h["hostname"] in ("str", "oddstr"):
            ids[int(out["port"])] = [h]
        return out, ids


def freeze_hint(h):
    return tlc._freeze(h)


def expected_ports(case_hints, concrete_ids, dialset):
    """ports that correspond to abstract hints in `dialset` (a set of frozen (hint, viaRelay) pairs)"""
    want = set()
    frozen = {freeze_hint(d[0]) for d in dialset}
    for port, hs in concrete_ids.items():
        if any(freeze_hint(h) in frozen for h in hs):
            want.add(port)
    return want


class Errors:
    def __init__(self):
        self.items = []

    def __call__(self, ev):
        if ev.get("isError"):
            f = ev.get("failure")
            self.items.append(f.value if f is not None else ev.get("message"))


def run_timers(limit=120.0):
    t0 = reactor.seconds()
    escaped = []
    for _ in range(5000):
        calls = [c for c in reactor.getDelayedCalls() if c.getTime() <= t0 + limit]
        if not calls:
            break
        reactor._sortCalls()
        try:
            reactor.run_call(reactor.calls[0])
        except Exception as e:     # an exception escaping a timer is logged by the real reactor
            escaped.append(e)
    return escaped


class FakeTor:
    """stands for the txtorcon object `--tor` provides: stream_via() gives an endpoint through Tor, and - like txtorcon's -
    refuses numeric addresses that are not public IPv4 (loopback, private ranges, anything IPv6) with ValueError"""

    def stream_via(self, host, port, tls=False):
        import ipaddress
        from twisted.internet.endpoints import HostnameEndpoint
        try:
            ip = ipaddress.ip_address(host)
        except ValueError:
            ip = None
        if ip is not None and (ip.version == 6 or not ip.is_global):
            raise ValueError("%r isn't going to work over Tor" % (host,))
        return HostnameEndpoint(reactor, "tor-exit.invalid", port)


def exercise_transit(hints, receiver=False, tor=None):
    """-> (exceptions, dialled ports)"""
    reactor.reset()
    errs = Errors()
    log.addObserver(errs)
    excs = []
    try:
        cls = transit.TransitReceiver if receiver else transit.TransitSender
        t = cls(None, no_listen=True, tor=tor, reactor=reactor)
        t.set_transit_key(b"k" * 32)
        t.get_connection_hints()           # the documented call order: our hints first (no listener here)
        try:
            t.add_connection_hints(hints)
        except Exception as e:
            excs.append(("add_connection_hints", e))
            return excs, set()
        res = []
        try:
            d = t.connect()
            d.addBoth(res.append)
        except Exception as e:
            excs.append(("connect", e))
        excs += [("timer", e) for e in run_timers(30.0)]
        from twisted.python.failure import Failure
        for r in res:
            if isinstance(r, Failure) and not r.check(transit.TransitError, defer.CancelledError):
                excs.append(("connect-result", r.value))
        ports = {c.port for c in reactor.attempts}
        for e in errs.items:
            excs.append(("logged", e))
        return excs, ports
    finally:
        log.removeObserver(errs)


# (STOPPED is left out: the Manager is stopped only after the mailbox connection is gone - Terminator: stoppedRC, then D.stop() -
# so no message can reach it there; a first version of this family delivered hints to a STOPPED Manager and got NoTransition on
# the unchanged tree: a state the composed client cannot be in, removed)
MANAGER_STATES = ["CONNECTING", "WANTING", "CONNECTED-follower", "LONELY", "CONNECTED-leader", "FLUSHING"]


def exercise_dilation(hints, state="CONNECTING"):
    """The `connection-hints` message into a real Manager with a real Connector (no listener), in the Manager state named:
    the message may arrive at any time (a stale one of the previous generation, a peer that sends early or late); only in
    CONNECTING are the hints used, everywhere else handling them must simply not raise."""
    from unittest import mock
    from zope.interface import alsoProvides
    from twisted.internet.task import Cooperator
    from wormhole.eventual import EventualQueue
    from wormhole._interfaces import ISend
    from wormhole._dilation.manager import Manager, DILATION_VERSIONS
    reactor.reset()
    errs = Errors()
    log.addObserver(errs)
    excs = []
    try:
        eq = EventualQueue(reactor)
        coop = Cooperator(scheduler=eq.eventually)
        send = mock.Mock()
        alsoProvides(send, ISend)
        leader = state in ("CONNECTED-leader", "FLUSHING")
        m = Manager(send, "ffffffffffffffff" if leader else "aaaaaaaaaaaaaaaa", None, reactor, eq, coop, DILATION_VERSIONS, 30.0, None, True)
        m.got_dilation_key(b"k" * 32)
        m.got_wormhole_versions({"can-dilate": DILATION_VERSIONS})
        if state != "WANTING":
            m.rx_PLEASE({"side": "0000000000000000" if leader else "ffffffffffffffff", "type": "please"})
        run_timers(1.0)
        if state in ("CONNECTED-follower", "LONELY", "CONNECTED-leader", "FLUSHING"):
            conn = mock.Mock()
            m.connector_connection_made(conn)
            run_timers(0.0)
            if state in ("LONELY", "FLUSHING"):
                m.connector_connection_lost()
                run_timers(0.0)
        elif state == "STOPPED":
            m.stop()
            run_timers(0.0)
        del reactor.attempts[:]          # (nothing dialled during the set-up counts)
        try:
            m.received_dilation_message(dict_to_bytes({"type": "connection-hints", "hints": hints}))
        except Exception as e:
            excs.append(("received_dilation_message", e))
        excs += [("timer", e) for e in run_timers(30.0)]
        ports = {c.port for c in reactor.attempts}
        for e in errs.items:
            excs.append(("logged", e))
        try:
            m.stop()
            run_timers(1.0)
        except Exception:
            pass
        return excs, ports
    finally:
        log.removeObserver(errs)


def shape(case):
    """short stable description of an abstract case, used in violation signatures"""
    out = []
    for h in case:
        if h["type"] == "relay-v1":
            sub = ",".join("nonobj" if s["type"] == "nonobj" else "%s/%s/%s/%s" % (s["type"], s["hostname"], s["port"], s["priority"])
                           for s in h["sub"])
            out.append("relay(hints:%s[%s])" % (h["subkind"], sub))
        else:
            out.append("%s/%s/%s/%s" % (h["type"], h["hostname"], h["port"], h["priority"]))
    return ";".join(out)


def run(prop, tier):
    assert prop == "C20"
    quick = tier == "quick"
    rng = random.Random(common.seed() + 20)
    v = common.Verdict(prop, tier)
    cov = {"samples": [], "tlc_configs": {}}
    ipaddrs.find_addresses = lambda: ["127.0.0.1"]
    with common.Workdir(prop) as wd:
        with open(wd.file("MC_Hints.tla"), "w") as f:
            f.write("---- MODULE MC_Hints ----\nEXTENDS Hints\nASSUME OnlyValidDialled\nASSUME MustWithinMay\nASSUME RoundTrip\n====\n")
        with open(wd.file("MC_Hints.cfg"), "w") as f:
            f.write("SPECIFICATION Spec\nINVARIANT CaseInv\nCONSTRAINT Report\nCHECK_DEADLOCK FALSE\n")
        r = tlc.run("MC_Hints.tla", "MC_Hints.cfg", cwd=wd.path, workers=4, timeout=1800)
        if not r.ok:
            raise RuntimeError("TLC failed on Hints.tla: %s" % (r.violated or r.error or r.stdout[-1500:]))
        cases = tlc.printed_tuples(r.stdout, "CASE")
        cov["tlc_configs"]["Hints"] = {"distinct_states": r.distinct, "states_generated": r.generated, "wall_s": round(r.wall, 1),
                                       "cases": len(cases)}
    evaluations = 0
    odd_logged = 0
    nontrivial = set()
    variants = range(2 if quick else 6)
    for (_, case, must, may, may_tor) in cases:
        case = list(case)
        for variant in variants:
            for entry in ("transit-sender", "transit-receiver", "dilation", "transit-sender+tor"):
                if quick and entry == "transit-receiver" and variant > 0:
                    continue
                if entry.endswith("+tor") and (variant > (0 if quick else 2) or not any(
                        h2["type"] in ("tor-tcp-v1", "direct-tcp-v1") for h in case for h2 in [h] + list(h["sub"] if h["type"] == "relay-v1" and h["subkind"] == "list" else []))):
                    continue
                conc = Concretiser(variant + (7 if entry == "dilation" else 0))
                hints, ids = [], {}
                for h in case:
                    j, i2 = conc.hint(h)
                    hints.append(j)
                    for k_, v_ in i2.items():
                        ids.setdefault(k_, []).extend(v_)
                mstate = "CONNECTING"
                if entry == "dilation":
                    # every fourth dilation case meets the Manager in another state (there the hints are not used)
                    mstate = MANAGER_STATES[(evaluations // 4) % len(MANAGER_STATES)] if evaluations % 4 == 3 else "CONNECTING"
                    excs, ports = exercise_dilation(hints, mstate)
                elif entry.endswith("+tor"):
                    # this side has Tor (`--tor`): direct and tor hints alike are tried through it; addresses Tor cannot reach
                    # (the concretisations include private IPv4 and IPv6 literals) are skipped - never an exception
                    excs, ports = exercise_transit(hints, receiver=False, tor=FakeTor())
                else:
                    excs, ports = exercise_transit(hints, receiver=entry.endswith("receiver"))
                if any(h2["hostname"] == "oddstr" for h in case for h2 in [h] + list(h["sub"] if h["type"] == "relay-v1" and h["subkind"] == "list" else [])):
                    # a string that cannot name a host may be tried: the attempt then fails inside HostnameEndpoint.connect()
                    # ("invalid hostname") and the Connector reports the failed attempt in the log - a failed attempt, not
                    # an exception raised by the handling of the hints (DESIGN 7.3)
                    # (with nothing else to try, connect() fails with that very failure: there was no transfer to abort)
                    nothing_else = not expected_ports(case, ids, must)
                    kept = [(w_, e_) for (w_, e_) in excs if not ((w_ == "logged" or (w_ == "connect-result" and nothing_else))
                                                                 and isinstance(e_, ValueError) and str(e_).startswith("invalid hostname"))]
                    odd_logged += len(excs) - len(kept)
                    excs = kept
                evaluations += 1
                nontrivial.add((shape(case), entry))
                must_ports = expected_ports(case, ids, must) if mstate == "CONNECTING" else set()
                may_ports = expected_ports(case, ids, may)
                if entry.endswith("+tor"):
                    must_ports, may_ports = set(), expected_ports(case, ids, may_tor)
                problem = None
                if excs:
                    where, e = excs[0]
                    problem = ("raises", "%s raised/logged %s: %s" % (where, type(e).__name__, str(e)[:100]),
                               {"entry": entry.split("-")[0], "where": where, "exc": type(e).__name__, "case": shape(case)})
                elif not must_ports <= ports:
                    problem = ("not-dialled", "valid hint not dialled: ports %s missing" % sorted(must_ports - ports),
                               {"entry": entry.split("-")[0], "clause": "valid-not-dialled", "case": shape(case)})
                elif not ports <= may_ports:
                    problem = ("dialled-invalid", "dialled %s which no valid hint names" % sorted(ports - may_ports),
                               {"entry": entry.split("-")[0], "clause": "invalid-dialled", "case": shape(case)})
                if problem:
                    v.violation(problem[2], "%s: %s ; hints=%s" % (entry, problem[1], json.dumps(hints)[:300]),
                                {"entry": entry, "manager_state": mstate, "hints": hints, "abstract_case": case, "must_ports": sorted(must_ports),
                                 "may_ports": sorted(may_ports), "dialled": sorted(ports)})
    # ---- hints this side produces are parsed back into the same targets
    rt = round_trip_checks(v)
    evaluations += rt
    cov["samples"].append({"abstract_case": cases[10][1], "concrete": Concretiser(0).hint(list(cases[10][1])[0])[0] if cases[10][1] else []})
    cov["samples"].append({"abstract_case": cases[-1][1]})
    cov["odd_hostname_attempts_failed_and_logged"] = odd_logged
    cov.update(states=r.distinct, transitions=r.generated, traces_validated_against_impl=0,
               evaluations=evaluations, distinct_nontrivial=len(nontrivial), exhaustive=True,
               rule="one case = one abstract hint list enumerated by TLC on Hints.tla x entry point (transit sender / receiver / "
                    "dilation message); every case is non-trivial (a distinct combination of JSON kinds); each is concretised "
                    "%d ways" % len(list(variants)))
    # supplementary (no VIOLATION line comes from it): which Tor get_tor() ends up with, TorChoice.tla, every case on the real function
    try:
        from . import torchoice
        with common.Workdir(prop + "tor") as wd4:
            cov["supplementary"] = {"tor_choice": torchoice.run_family(wd4, quick, common.seed())}
    except Exception as e:
        cov["supplementary"] = {"tor_choice": {"error": repr(e)[:300]}}
    return v.finish(cov, assumptions=[
        "field values are abstracted to JSON kinds; concretisations use a few representative values per kind",
        "JSON true/false as port is neither required nor forbidden as an attempt (DESIGN 3.1)",
        "the dilation entry point is driven through a real Manager+Connector with a mocked ISend"])


def round_trip_checks(v):
    """get_connection_hints() of one side -> add_connection_hints() of the other -> dials the listener's address."""
    n = 0
    for rel in (None, "tcp:relay.example.org:4001"):
        reactor.reset()
        ports = iter(range(51001, 51100))
        orig = transit.allocate_tcp_port
        transit.allocate_tcp_port = lambda: next(ports)
        try:
            s = transit.TransitSender(rel, reactor=reactor)
            r = transit.TransitReceiver(rel, no_listen=True, reactor=reactor)
            s.set_transit_key(b"k" * 32)
            r.set_transit_key(b"k" * 32)
            hs = []
            s.get_connection_hints().addCallback(hs.append)
            run_timers(0.1)
            hints = json.loads(json.dumps(hs[0]))
            r.get_connection_hints()
            r.add_connection_hints(hints)
            r.connect().addBoth(lambda x: None)
            run_timers(20.0)
            dialled = {(c.host, c.port) for c in reactor.attempts}
            want = {("127.0.0.1", 51001)} | ({("relay.example.org", 4001)} if rel else set())
            got_ports = {p for _, p in dialled}
            n += 1
            if {p for _, p in want} != got_ports:
                v.violation({"clause": "round-trip", "relay": bool(rel)},
                            "hints produced %r were parsed into dial attempts %r, expected %r" % (hints, sorted(dialled), sorted(want)),
                            {"hints": hints, "dialled": sorted(dialled)})
        finally:
            transit.allocate_tcp_port = orig
    # dilation: encode_hint / parse_hint
    from wormhole._hints import DirectTCPV1Hint, TorTCPV1Hint, RelayV1Hint, encode_hint, parse_hint
    for h in (DirectTCPV1Hint("10.1.2.3", 4001, 0.0), TorTCPV1Hint("abc.onion", 80, 2.5),
              RelayV1Hint([DirectTCPV1Hint("relay.example.org", 4001, 0.0), DirectTCPV1Hint("1.2.3.4", 9, 1.0)])):
        back = parse_hint(json.loads(json.dumps(encode_hint(h))))
        n += 1
        same = back == h if not isinstance(h, RelayV1Hint) else list(back.hints) == list(h.hints)
        if not same:
            v.violation({"clause": "round-trip", "entry": "dilation"}, "parse_hint(encode_hint(%r)) = %r" % (h, back), {"hint": repr(h)})
    return n
