"""C05 - `wormhole receive` writes only where it said it would, and never clobbers.

spec/RecvDest.tla (decision table over abstract name classes x options x pre-existing objects) is
model-checked by TLC, which prints the expected outcome of every case.  Each case is concretised
several ways and executed on the real cmd_receive.Receiver in a sandbox directory; the sandbox AND its
parent are snapshotted before and after, and RecvDestObs.tla checks that every path created, modified
or deleted lies inside what the statement permits.
"""
import builtins
import io
import json
import os
import random
import shutil
import zipfile

from .. import common, tlc
from .. import xferworld as X

OBS_NAMES = ["Outcome", "OnlyDest", "NoClobber", "DirKept", "ReplaceOnlyIfNamed", "NoLeftovers"]
PLAIN = ["data.bin", "ünï cödé.txt", " spaced name ", "-rf", "a\\b", "x.tmp", "CON", "a" * 120]


# basenames that are ordinary file names as they stand, and turn into separators / parent references under some well-meant
# transformation of the name (Unicode compatibility normalisation, percent-decoding, case folding, stripping)
LOOKALIKE = ["..\uff0fevil.txt", "\uff0fabs\uff0fpath", "\u2025", "\uff0e\uff0e", "..\uff0f..\uff0fvictim.txt", "%2e%2e%2fx", "..%2Fkeep.txt",
             "cafe\u0301.txt", "\u2024\u2024\uff0fkeep.txt", " ..", ".. ", "..\u2215x", "\ufe52\ufe52\uff0fkeep.txt"]


def offered_name(base, decor, plain, root):
    last = {"plain": plain, "empty": "", "dot": ".", "dotdot": ".."}[base]
    if decor == "none":
        name = last if base != "empty" else ""
    elif decor == "subdir":
        name = "sub/" + last
    elif decor == "absolute":
        name = os.path.join(root, "elsewhere") + "/" + last
    elif decor == "parent":
        name = "../" + last
    elif decor == "parentparent":
        name = "../../" + last
    else:
        name = "./" + last
    if base == "empty" and not name.endswith("/") and name != "":
        name += "/"
    return name


def build_sandbox(root, case, plain):
    """root/ {outside.txt, elsewhere/, cwd/{keep.txt, sub/}}; returns dict of interesting paths"""
    shutil.rmtree(root, ignore_errors=True)
    os.makedirs(os.path.join(root, "cwd", "sub"))
    os.makedirs(os.path.join(root, "elsewhere"))
    for p in ("outside.txt", "cwd/keep.txt", "elsewhere/there.txt", "cwd/sub/inner.txt"):
        with open(os.path.join(root, p), "w") as f:
            f.write("sentinel " + p)
    cwd = os.path.join(root, "cwd")
    out = os.path.join(cwd, "OUT")
    if case["out"] == "file":
        with open(out, "w") as f:
            f.write("old output file")
    elif case["out"] == "dir":
        os.makedirs(out)
        with open(os.path.join(out, "other.txt"), "w") as f:
            f.write("other content in the output directory")
    # where `pre` lives: the candidate destination that the basename names
    if case["base"] == "plain":
        cand = os.path.join(out, plain) if case["out"] == "dir" else os.path.join(cwd, plain)
        if case["pre"] == "file":
            with open(cand, "w") as f:
                f.write("pre-existing file")
        elif case["pre"] == "dir":
            os.makedirs(cand)
            with open(os.path.join(cand, "precious.txt"), "w") as f:
                f.write("pre-existing directory content")
        elif case["pre"] in ("linkfile", "linkdir", "dangling"):
            # a symbolic link (relative, as `ln -s` makes them) leading out of the working directory
            target = {"linkfile": "elsewhere/there.txt", "linkdir": "elsewhere", "dangling": "elsewhere/authorized_keys"}[case["pre"]]
            os.symlink(os.path.relpath(os.path.join(root, target), os.path.dirname(cand)), cand)
    else:
        cand = None
    return {"cwd": cwd, "out": out, "cand": cand}


def dest_path(paths, decision, plain):
    d = decision["dest"]
    if d == "cwd/base":
        return os.path.join(paths["cwd"], plain)
    if d == "out":
        return paths["out"]
    if d == "out/base":
        return os.path.join(paths["out"], plain)
    return None


def benign_zip():
    b = io.BytesIO()
    with zipfile.ZipFile(b, "w", zipfile.ZIP_DEFLATED) as z:
        zi = zipfile.ZipInfo("a.txt")
        zi.external_attr = 0o644 << 16
        z.writestr(zi, b"alpha")
        zi = zipfile.ZipInfo("d/e.txt")
        zi.external_attr = 0o600 << 16
        z.writestr(zi, b"echo")
    return b.getvalue()


def make_receiver(cwd, case):
    argv = ["--relay-url", "ws://127.0.0.1:4000/v1", "--transit-helper", "", "receive", "--hide-progress"]
    if case["accept"]:
        argv.append("--accept-file")
    if case["out"] != "unset":
        argv += ["--output-file", "OUT"]
    argv.append("1-code")
    cfg = X.config(*argv)
    cfg.cwd = cwd
    cfg.stdout, cfg.stderr = io.StringIO(), io.StringIO()
    from wormhole.cli import cmd_receive
    return cmd_receive.Receiver(cfg, reactor=X.reactor), cfg


def execute(root, case, decision, plain, payload=b"payload bytes", members=None):
    """run the real Receiver on one case; returns the observation record"""
    paths = build_sandbox(root, case, plain)
    name = offered_name(case["base"], case["decor"], plain, root)
    expected_dest = dest_path(paths, decision, plain)
    if case["pretmp"]:
        # a pre-existing sibling called <destination>.tmp (for rejected cases: next to the candidate)
        sib = (expected_dest or paths["cand"] or os.path.join(paths["cwd"], "zzz")) + ".tmp"
        if not os.path.lexists(sib) and os.path.isdir(os.path.dirname(sib)):
            with open(sib, "w") as f:
                f.write("someone else's temporary file")
    before = X.snapshot(root)
    r, cfg = make_receiver(paths["cwd"], case)
    answers = []
    orig_input = builtins.input
    builtins.input = lambda prompt="": answers.append(prompt) or "y"
    outcome, exc = "written", None
    from wormhole.cli.cmd_receive import RespondError
    from wormhole.errors import TransferError
    try:
        if case["mode"] == "file":
            f = r._handle_file({"filename": name, "filesize": len(payload)} and {"file": {"filename": name, "filesize": len(payload)}})
            f.write(payload)
            r._write_file(f)
        else:
            z = members if members is not None else benign_zip()
            f = r._handle_directory({"directory": {"mode": "zipfile/deflated", "dirname": name, "zipsize": len(z),
                                                   "numbytes": 9, "numfiles": 2}})
            f.write(z)
            f.seek(0)
            r._write_directory(f)
    except (RespondError, TransferError) as e:
        outcome, exc = "rejected", e
    except ValueError as e:
        outcome, exc = "aborted", e          # malicious zip member
    except Exception as e:
        outcome, exc = "error", e
    finally:
        builtins.input = orig_input
    after = X.snapshot(root)
    changed = sorted(p for p in set(before) | set(after) if before.get(p) != after.get(p))
    rel = lambda p: os.path.relpath(p, root) if p else None
    drel = rel(expected_dest)
    classes = []
    for p in changed:
        if drel is not None and p == drel:
            classes.append("dest")
        elif drel is not None and p.startswith(drel + os.sep):
            classes.append("under-dest")
        elif drel is not None and p == drel + ".tmp":
            classes.append("dest.tmp")
        else:
            classes.append("other:" + p)
    deleted_dirs = [p for p in before if before[p][0] == "dir" and after.get(p, ("",))[0] != "dir"]
    # the receiver's own temporary name <destination>.tmp is part of the destination's footprint: a stale one left by an
    # interrupted transfer is deliberately overwritten (DESIGN 3.1)
    tmp_rel = (drel + ".tmp") if drel else None
    replaced_files = [p for p in before if before[p][0] == "file" and p in after and after[p] != before[p] and p != tmp_rel] + \
                     [p for p in before if before[p][0] == "file" and p not in after and p != tmp_rel]
    dest_ok = False
    if outcome == "written" and expected_dest is not None:
        if case["mode"] == "file":
            dest_ok = after.get(drel, (None,))[0] == "file" and open(expected_dest, "rb").read() == payload
        else:
            dest_ok = after.get(drel, (None,))[0] == "dir"
    return {"outcome": outcome, "exc": type(exc).__name__ if exc else "-", "changed": classes, "deletedDirs": deleted_dirs,
            "replacedFiles": replaced_files, "destOK": bool(dest_ok), "name": name, "destRel": drel or "-",
            "tmpLeft": bool(tmp_rel and tmp_rel in after and (case["mode"] == "file" or tmp_rel not in before)), "asked": len(answers)}


def execute_e2e(root, case, decision, plain, answer="y", fault=None):
    """The same case through the whole command: the real `wormhole receive` (cmd_receive.receive(): mailbox, offer, prompt,
    transit, its success *and failure* paths including whatever it cleans up afterwards) against the real `wormhole send`
    whose offer carries the hostile name (the sender is untrusted: the harness rewrites the name its _build_offer() made).
    answer: what the user types at the "ok? (y/N)" prompt when --accept-file is not given.
    fault: None, or "cut" - the transit stream dies part way through the payload."""
    from wormhole.cli import cmd_send
    paths = build_sandbox(root, case, plain)
    name = offered_name(case["base"], case["decor"], plain, root)
    expected_dest = dest_path(paths, decision, plain)
    sdir = os.path.join(os.path.dirname(root), "sender")
    shutil.rmtree(sdir, ignore_errors=True)
    os.makedirs(sdir)
    payload = b"payload bytes " * 4000
    if case["mode"] == "file":
        with open(os.path.join(sdir, "thing"), "wb") as f:
            f.write(payload)
    else:
        os.makedirs(os.path.join(sdir, "thing", "d"))
        with open(os.path.join(sdir, "thing", "a.txt"), "wb") as f:
            f.write(b"alpha")
        with open(os.path.join(sdir, "thing", "d", "e.txt"), "wb") as f:
            f.write(payload)
    if case["pretmp"]:
        sib = (expected_dest or paths["cand"] or os.path.join(paths["cwd"], "zzz")) + ".tmp"
        if not os.path.lexists(sib) and os.path.isdir(os.path.dirname(sib)):
            with open(sib, "w") as f:
                f.write("someone else's temporary file")
    before = X.snapshot(root)
    orig_build = cmd_send.Sender._build_offer

    def hostile_offer(self):
        offer, fd = orig_build(self)
        if "file" in offer:
            offer["file"]["filename"] = name
        elif "directory" in offer:
            offer["directory"]["dirname"] = name
        return offer, fd
    answers = []
    orig_input = builtins.input
    builtins.input = lambda prompt="": answers.append(prompt) or answer
    cmd_send.Sender._build_offer = hostile_offer
    w = X.XferWorld(os.path.dirname(root))
    internal = []
    try:
        w.start_send(sdir, what="thing")
        w.start_receive(paths["cwd"], accept=bool(case["accept"]), output_file="OUT" if case["out"] != "unset" else None)
        if fault == "cut":
            w.fault = {"cut_at": 20000}
        import contextlib
        with contextlib.redirect_stdout(io.StringIO()), contextlib.redirect_stderr(io.StringIO()):      # (the commands' own chatter)
            w.run(until=w.done)
        internal = [repr(e)[:100] for _, e in w.internal] + [repr(e)[:100] for e in w.logged]
    except Exception as e:
        internal.append("harness: %r" % (e,))
    finally:
        cmd_send.Sender._build_offer = orig_build
        builtins.input = orig_input
        w.shutdown()
    res = w.results.get("recv", "pending")
    from twisted.python.failure import Failure
    from wormhole.errors import TransferError
    if isinstance(res, Failure):
        exc = res.value
        outcome = "rejected" if isinstance(exc, TransferError) else "error"
        if fault == "cut" and decision["result"] == "written" and (answer == "y" or case["accept"]):
            outcome = "cut"
    elif res == "pending":
        outcome, exc = "pending", None
    else:
        outcome, exc = "written", None
    after = X.snapshot(root)
    changed = sorted(p for p in set(before) | set(after) if before.get(p) != after.get(p))
    rel = lambda p: os.path.relpath(p, root) if p else None
    drel = rel(expected_dest)
    classes = []
    for p in changed:
        if drel is not None and p == drel:
            classes.append("dest")
        elif drel is not None and p.startswith(drel + os.sep):
            classes.append("under-dest")
        elif drel is not None and p == drel + ".tmp":
            classes.append("dest.tmp")
        else:
            classes.append("other:" + p)
    deleted_dirs = [p for p in before if before[p][0] == "dir" and after.get(p, ("",))[0] != "dir"]
    tmp_rel = (drel + ".tmp") if drel else None
    replaced_files = [p for p in before if before[p][0] == "file" and p in after and after[p] != before[p] and p != tmp_rel] + \
                     [p for p in before if before[p][0] == "file" and p not in after and p != tmp_rel]
    dest_ok = False
    if outcome == "written" and expected_dest is not None:
        if case["mode"] == "file":
            dest_ok = after.get(drel, (None,))[0] == "file" and open(expected_dest, "rb").read() == payload
        else:
            dest_ok = after.get(drel, (None,))[0] == "dir" and after.get(os.path.join(drel, "d", "e.txt"), (None,))[0] == "file"
    shutil.rmtree(sdir, ignore_errors=True)
    return {"outcome": outcome, "exc": type(exc).__name__ if exc else "-", "changed": classes, "deletedDirs": deleted_dirs,
            "replacedFiles": replaced_files, "destOK": bool(dest_ok), "name": name, "destRel": drel or "-",
            "tmpLeft": bool(tmp_rel and tmp_rel in after and (case["mode"] == "file" or tmp_rel not in before)), "asked": len(answers),
            "answer": answer, "fault": fault or "-", "internal": internal}


MEMBER_NAMES = {
    "inside": lambda root: "plain.txt", "inside-nested": lambda root: "d1/d2/deep.txt",
    "dotdot-escape": lambda root: "../evil.txt", "absolute": lambda root: os.path.join(root, "elsewhere", "evil.txt"),
    "nested-escape": lambda root: "d/../../evil.txt", "inside-via-dotdot": lambda root: "d/../b.txt", "self": lambda root: ".",
}


SYMLINK_TARGETS = {
    "via-symlink-abs": lambda root: os.path.join(root, "elsewhere"),
    "via-symlink-dotdot": lambda root: "../../elsewhere",
    "via-symlink-sibling": lambda root: "../sub",
}


def zip_with_symlink(target):
    """an archive whose member `escape` is stored as a symbolic link to `target`, followed by members whose paths lead through
    it (one that exists at the target - an overwrite - and one that does not)"""
    b = io.BytesIO()
    with zipfile.ZipFile(b, "w", zipfile.ZIP_DEFLATED) as z:
        zi = zipfile.ZipInfo("first.txt")
        zi.external_attr = 0o644 << 16
        z.writestr(zi, b"first")
        zi = zipfile.ZipInfo("escape")
        zi.create_system = 3
        zi.external_attr = (0o120777 << 16)
        z.writestr(zi, target.encode())
        for name in ("escape/there.txt", "escape/inner.txt", "escape/planted.txt"):
            zi = zipfile.ZipInfo(name)
            zi.external_attr = 0o644 << 16
            z.writestr(zi, b"written through the link")
        zi = zipfile.ZipInfo("last.txt")
        zi.external_attr = 0o644 << 16
        z.writestr(zi, b"last")
    return b.getvalue()


def zip_with(member, isdir=False):
    """an archive with one hostile member between two harmless ones; the member is a file or a bare directory entry
    (name ending in '/': what zipstream emits for an empty directory)"""
    b = io.BytesIO()
    with zipfile.ZipFile(b, "w", zipfile.ZIP_DEFLATED) as z:
        zi = zipfile.ZipInfo("first.txt")
        zi.external_attr = 0o644 << 16
        z.writestr(zi, b"first")
        if isdir:
            zi = zipfile.ZipInfo(member.rstrip("/") + "/")
            zi.external_attr = (0o40755 << 16) | 0x10
            z.writestr(zi, b"")
        else:
            zi = zipfile.ZipInfo(member)
            zi.external_attr = 0o644 << 16
            z.writestr(zi, b"member payload")
        zi = zipfile.ZipInfo("last.txt")
        zi.external_attr = 0o644 << 16
        z.writestr(zi, b"last")
    return b.getvalue()


LINKY = ("linkfile", "linkdir", "dangling")


def run(prop, tier):
    quick = tier == "quick"
    seed = common.seed()
    rng = random.Random(seed + 5)
    v = common.Verdict(prop, tier)
    cov = {"tlc_configs": {}, "samples": []}
    with common.Workdir(prop) as wd:
        with open(wd.file("MC_RD.tla"), "w") as f:
            f.write("---- MODULE MC_RD ----\nEXTENDS RecvDest\nASSUME StatementHolds\nASSUME DecorIrrelevant\nASSUME MembersSafe\n"
                    "ASSUME ReportMembers\n====\n")
        with open(wd.file("MC_RD.cfg"), "w") as f:
            f.write("SPECIFICATION Spec\nINVARIANT CaseInv\nCONSTRAINT Report\nCHECK_DEADLOCK FALSE\n")
        r = tlc.run("MC_RD.tla", "MC_RD.cfg", cwd=wd.path, workers=4, timeout=1200)
        if not r.ok:
            raise RuntimeError("TLC failed on RecvDest.tla: %s" % (r.violated or r.error or r.stdout[-1500:]))
        cases = tlc.printed_tuples(r.stdout, "CASE")
        members = tlc.printed_tuples(r.stdout, "MEMBER")
        cov["tlc_configs"]["RecvDest"] = {"distinct_states": r.distinct, "states_generated": r.generated, "wall_s": round(r.wall, 1),
                                          "cases": len(cases), "member_classes": len(members)}
        records = []
        root = os.path.join(common.OUT, "sbx_c05_%d" % os.getpid(), "parent", "box")
        tid = 0
        try:
            for (_, case, decision) in cases:
                plains = [PLAIN[0], rng.choice(PLAIN[1:])] if quick else PLAIN
                if case["pre"] in LINKY:
                    # (the decoration of the offered name is irrelevant - DecorIrrelevant - and is varied on the other classes)
                    if case["decor"] not in (("none", "absolute") if quick else ("none", "absolute", "parent")):
                        continue
                    plains = plains[:1] if quick else plains[:3]
                for plain in plains:
                    tid += 1
                    obs = execute(root, case, decision, plain)
                    obs.update({"tid": tid, "case": case, "expect": decision, "kind": "dest"})
                    records.append(obs)
            # family: look-alike basenames (the destination is named by the offer's basename exactly as offered)
            for (_, case, decision) in cases:
                if case["base"] == "plain" and case["decor"] in ("none", "parent") and case["pre"] == "none" and not case["pretmp"]:
                    for plain in (LOOKALIKE if not quick or case["accept"] else LOOKALIKE[:5]):
                        tid += 1
                        obs = execute(root, case, decision, plain)
                        obs.update({"tid": tid, "case": case, "expect": decision, "kind": "dest", "origin": "family:lookalike"})
                        records.append(obs)
            cov["lookalike_basenames"] = len(LOOKALIKE)
            # family: the same cases through the whole command (real `wormhole receive` against a real `wormhole send` whose
            # offer carries the hostile name), the user answering yes or no, the transit stream surviving or not: what the
            # command does *after* deciding - on its failure paths too - is part of "never clobbers"
            ne2e = 0
            for (_, case, decision) in cases:
                if quick and (case["decor"] != "none" or case["pretmp"] or case["pre"] in ("linkfile", "linkdir")):
                    continue
                if not quick and case["decor"] not in ("none", "parent", "absolute"):
                    continue
                variants = [("y", None)]
                if not case["accept"]:
                    variants.append(("n", None))
                if case["base"] == "plain" and (not quick or case["pre"] == "none"):
                    variants.append(("y", "cut"))
                for answer, fault in variants:
                    tid += 1
                    ne2e += 1
                    dec = decision if (case["accept"] or answer == "y") else {"result": "rejected", "dest": "-", "replaces": False}
                    obs = execute_e2e(root, case, decision, PLAIN[0] if tid % 3 else rng.choice(PLAIN[1:]), answer, fault)
                    obs.update({"tid": tid, "case": case, "expect": dec, "kind": "dest", "origin": "family:end-to-end"})
                    records.append(obs)
            cov["end_to_end_cases"] = ne2e
            # zip members: destination decided normally (plain name, nothing pre-existing), archive is hostile
            base_case = {"mode": "directory", "base": "plain", "decor": "none", "out": "unset", "accept": True, "pre": "none", "pretmp": False}
            for (_, mc, verdict) in members:
                for out in ("unset", "dir"):
                    for isdir in (False, True):
                        tid += 1
                        c = dict(base_case, out=out)
                        dec = {"result": "written", "dest": "cwd/base" if out == "unset" else "out/base", "replaces": False}
                        if mc in SYMLINK_TARGETS:
                            if isdir:
                                continue
                            zbytes = zip_with_symlink(SYMLINK_TARGETS[mc](root))
                        else:
                            zbytes = zip_with(MEMBER_NAMES[mc](root), isdir)
                        obs = execute(root, c, dec, "tree", members=zbytes)
                        obs.update({"tid": tid, "case": dict(c, member=mc + ("/" if isdir else "")), "expect": dict(dec, member=verdict), "kind": "member"})
                        records.append(obs)
        finally:
            shutil.rmtree(os.path.join(common.OUT, "sbx_c05_%d" % os.getpid()), ignore_errors=True)
        path = wd.file("obs.ndjson")
        with open(path, "w") as f:
            for rec in records:
                rec.setdefault("fault", "-")
                f.write(json.dumps(rec) + "\n")
        with open(wd.file("MC_RDObs.cfg"), "w") as f:
            f.write("SPECIFICATION Spec\nCHECK_DEADLOCK FALSE\n")
        with open(wd.file("MC_RDObs.tla"), "w") as f:
            f.write("---- MODULE MC_RDObs ----\nEXTENDS RecvDestObs\n====\n")
        r2 = tlc.run("MC_RDObs.tla", "MC_RDObs.cfg", workers=1, cwd=wd.path, env={"OBS_FILE": path}, timeout=1800)
        verdicts = {t[1]: dict(zip(OBS_NAMES, t[2])) for t in tlc.printed_tuples(r2.stdout, "OBS")}
        if len(verdicts) != len(records):
            raise RuntimeError("observer evaluated %d of %d runs\n%s" % (len(verdicts), len(records), r2.stdout[-2000:]))
    failing = 0
    distinct = set()
    for rec in records:
        c = rec["case"]
        distinct.add(json.dumps(c, sort_keys=True))
        bad = [n for n in OBS_NAMES if not verdicts[rec["tid"]][n]]
        if bad:
            failing += 1
            sig = {"clause": bad[0], "mode": c["mode"], "out": c["out"], "pre": c["pre"], "base": c["base"], "pretmp": c["pretmp"]}
            if rec["kind"] == "member":
                sig = {"clause": bad[0], "member": c["member"]}
            elif bad[0] == "NoClobber" and all(x.startswith("other:") and x.endswith(".tmp") for x in rec["changed"] if x.startswith("other:")):
                sig = {"clause": "NoClobber", "what": "pre-existing <destination>.tmp"}
            v.violation(sig, "%s fails: offered name %r, %s ; outcome %s (%s), changed %s" % (
                ",".join(bad), rec["name"], json.dumps({k: c[k] for k in ("mode", "out", "accept", "pre", "pretmp")}), rec["outcome"],
                rec["exc"], rec["changed"][:6]), {"case": c, "expect": rec["expect"], "observation": {k: rec[k] for k in
                                                  ("outcome", "exc", "changed", "deletedDirs", "replacedFiles", "name")}})
    cov.update(states=r.distinct, transitions=r.generated, traces_validated_against_impl=0, evaluations=len(records),
               distinct_nontrivial=len(distinct), failing_runs=failing, exhaustive=True,
               rule="one case = one element of RecvDest.tla's abstract space (mode x basename class x name decoration x --output-file "
                    "state x accept-file x pre-existing object x pre-existing .tmp sibling) or one hostile zip-member class; each is "
                    "executed on the real Receiver with %d concrete spellings; all cases are non-trivial" % (2 if quick else len(PLAIN)))
    cov["samples"] = [{"case": rec["case"], "name": rec["name"], "outcome": rec["outcome"], "changed": rec["changed"]} for rec in records[:3]]
    return v.finish(cov, assumptions=[
        "POSIX path semantics (os.path.basename treats only '/' as a separator)",
        "the Receiver methods are driven directly (offer dict in, file object out); the mailbox/transit legs are covered by C04",
        "prompts are answered 'y' when --accept-file is not given"])
