"""Supplementary to C04: the application protocol of `wormhole send` / `wormhole receive` (spec/XferProto.tla).

TLC checks the protocol's properties over every configuration (text / file / directory, --verify answered yes or no,
the receiving user agreeing / refusing / --accept-file, an existing destination, codes that do not match) and every
interleaving; the real cmd_send.send() and cmd_receive.receive() are then run on the simulated reactor for the
configurations under several mailbox schedules, every observable step recorded through a recording proxy around the
wormhole object each command creates (code -> spec), and the recorded runs validated by TLC against XferProto.tla.
Nothing here produces a VIOLATION line: the properties are not among the listed ones (coverage.supplementary)."""
import builtins
import json
import os
import random
import shutil

from twisted.python.failure import Failure

from .. import common, tlc
from .. import xferworld as X

T_PROJ = "[cfg |-> cfg, out |-> out, prompted |-> prompted, sent |-> sent, told |-> told]"
INVARIANTS = ["VerifyGate", "RefusedNoSuccess", "TextDelivered", "WrongCodeSilent", "AskedWhenDue", "ErrorMeansFailure",
              "ZeroPrintsNoCode", "ReceiverTellsOnlyWhenAllocated", "CodeBeforeAnything"]


def kind_of(data):
    try:
        d = json.loads(data.decode("utf-8"))
    except Exception:
        return "junk"
    for k in ("error", "transit", "offer", "answer"):
        if k in d:
            return k
    return "other"


class RecordingWormhole:
    """what a command sees of its wormhole, with every step of the protocol noted in the order it happens"""

    def __init__(self, w, side, note, told_of=None):
        self._w, self._side, self._note, self._told_of = w, side, note, told_of
        self._coded = False

    def __getattr__(self, name):
        return getattr(self._w, name)

    def get_code(self):
        """the first get_code() of a command: once it fired *and the command has done everything it does with the code at once*
        (print the command line for the other user), the step is noted with what the user was told by then"""
        from twisted.internet.defer import Deferred
        d = self._w.get_code()
        if self._coded or self._told_of is None:
            return d
        self._coded = True
        d2 = Deferred()

        def fired(c):
            d2.callback(c)
            self._note(("Code", self._side, self._told_of(self._side)[0]))
        d.addCallbacks(fired, d2.errback)
        return d2

    def get_verifier(self):
        d = self._w.get_verifier()

        def ok(v):
            self._note(("Verifier", self._side, "ok"))
            return v

        def err(f):
            self._note(("Verifier", self._side, "wrong" if type(f.value).__name__ == "WrongPasswordError" else type(f.value).__name__))
            return f
        d.addCallbacks(ok, err)
        return d

    def send_message(self, data):
        self._note(("Send", self._side, kind_of(data)))
        return self._w.send_message(data)

    def get_message(self):
        d = self._w.get_message()

        def ok(v):
            self._note(("Recv", self._side, kind_of(v)))
            return v
        d.addCallback(ok)
        return d


def reported(stderr_text, failure):
    """the outcome as the command-line front end reported it to the user (cli._dispatch_command): exit status and message class"""
    if not isinstance(failure, Failure):
        return "ok" if "ERROR" not in stderr_text and "TransferError" not in stderr_text else "other:quiet-exit-with-error-text"
    if not isinstance(failure.value, SystemExit) or failure.value.code != 1:
        return "other:%s" % type(failure.value).__name__
    if "Traceback" in stderr_text:
        return "other:traceback"
    if "ERROR: Key confirmation failed" in " ".join(stderr_text.split()):
        return "WrongPasswordError"
    if "TransferError: " in stderr_text:
        return "TransferError"
    return "other:exit1"


class NotingDict(dict):
    def __init__(self, note, world=None):
        dict.__init__(self)
        self._note = note
        self._world = world

    def __setitem__(self, k, v):
        dict.__setitem__(self, k, v)
        o = "ok"
        if isinstance(v, Failure):
            o = type(v.value).__name__
        w = self._world
        if w is not None and w.dispatch:
            c = w.send_cfg if k == "send" else w.recv_cfg
            o = reported(c.stderr.getvalue(), v)
        self._note(("Done", "S" if k == "send" else "R", o))


def run_config(tid, cfg, seed):
    """one real run of both commands under configuration cfg -> (trace lines, notes)"""
    from wormhole.cli import cmd_send, cmd_receive
    from wormhole import wormhole as wmod
    base = os.path.join(common.OUT, "sbx_xp_%d_%d" % (os.getpid(), tid))
    shutil.rmtree(base, ignore_errors=True)
    sdir, rdir = os.path.join(base, "s"), os.path.join(base, "r")
    os.makedirs(sdir)
    os.makedirs(rdir)
    events = []
    state = {"out": {"S": "-", "R": "-"}, "prompted": {"S": "-", "R": "-"}, "sent": {"S": [], "R": []}, "told": {"S": "-", "R": "-"}}
    world = {}

    def told_of(side):
        """(class, argv) of the command line that side has printed for the other user so far"""
        c = world.get("send_cfg" if side == "S" else "recv_cfg")
        text = c.stderr.getvalue() if c is not None else ""
        cmd = None
        lines_ = text.split("\n")
        for i, l in enumerate(lines_):
            if "please run:" in l:
                rest = [x.strip() for x in lines_[i + 1:] if x.strip()]
                cmd = rest[0] if rest else None
        if cmd is None or not cmd.startswith("wormhole "):
            return "-", None
        toks = cmd.split()[2:]
        import re as _re
        if any(_re.match(r"^\d+-", t) for t in toks):
            return "code", toks
        return ("zero", toks) if "-0" in toks else ("other", toks)

    lines = []

    def note(ev):
        events.append(ev)
        a, p, x = ev
        if a == "Done":
            state["out"][p] = x
        elif a == "Prompt":
            state["prompted"][p] = x
        elif a == "Send":
            state["sent"][p] = state["sent"][p] + [x]
        elif a == "Code":
            state["told"][p] = x
        lines.append({"a": list(ev), "proj": {"cfg": cfg, "out": dict(state["out"]), "prompted": dict(state["prompted"]),
                                              "sent": {k: list(v) for k, v in state["sent"].items()}, "told": dict(state["told"])}})
    orig = (cmd_send.create, cmd_receive.create, builtins.input)
    cmd_send.create = lambda *a, **kw: RecordingWormhole(wmod.create(*a, **kw), "S", note, told_of)
    cmd_receive.create = lambda *a, **kw: RecordingWormhole(wmod.create(*a, **kw), "R", note, told_of)

    def user(prompt=""):
        if "Verifier" in prompt:
            note(("Prompt", "S", cfg["sanswer"]))
            return cfg["sanswer"]
        ans = "yes" if cfg["accept"] == "yes" else "no"
        note(("Prompt", "R", ans))
        return "y" if ans == "yes" else "n"
    builtins.input = user
    import sys
    import io
    orig_err = sys.stderr
    sys.stderr = io.StringIO()          # ("transfer rejected" goes to the process's stderr, not to the command's)
    try:
        w = X.XferWorld(base)
        w.results = NotingDict(note, w)
        w.mb_rng = random.Random(seed)
        # every other run goes through the front end's error interpreter: the outcome recorded is then what the *user* was told
        # (exit status, "ERROR: Key confirmation failed ...", "TransferError: ..."), and must be the outcome the model predicts
        w.dispatch = bool((seed // 2) % 2)
        name = "payload.bin" if cfg["mode"] == "file" else "tree"
        if cfg["mode"] == "file":
            with open(os.path.join(sdir, name), "wb") as f:
                f.write(bytes(range(200)))
        elif cfg["mode"] == "dir":
            os.makedirs(os.path.join(sdir, name, "sub"))
            with open(os.path.join(sdir, name, "sub", "a.txt"), "w") as f:
                f.write("alpha")
        if cfg["exists"] and cfg["mode"] != "text":
            with open(os.path.join(rdir, name), "w") as f:
                f.write("already here")
        extra = ("--verify",) if cfg["verify"] else ()
        order = seed % 2
        flow = cfg.get("flow", "given")
        what, text = (None if cfg["mode"] == "text" else name), ("hello there" if cfg["mode"] == "text" else None)
        acc = (cfg["accept"] == "flag")

        def ssend(code, more=()):
            w.start_send(sdir, what=what, text=text, code=code, extra=extra + tuple(more))
            world["send_cfg"] = w.send_cfg

        def srecv(code, more=()):
            w.start_receive(rdir, code=code, accept=acc, extra=tuple(more))
            world["recv_cfg"] = w.recv_cfg

        def printed_argv(side):
            """the other command exactly as that side's user was told to run it (flags and code of the printed line)"""
            w.run(until=lambda: state["told"][side] != "-" or w.done(), max_virtual=600.0)
            toks = told_of(side)[1] or []
            code = next((t for t in toks if t[:1].isdigit() and "-" in t), None)
            flags = [t for t in toks if t.startswith("-") and t not in ("--code",)]
            return code, flags
        if flow == "given":
            starts = [lambda: ssend("1-abc"), lambda: srecv("1-abc" if cfg["match"] else "1-abd")]
            for f in (starts if order == 0 else starts[::-1]):
                f()
        elif flow == "zeromix":
            starts = [lambda: ssend(None, ("-0",)), lambda: srecv("0-abc")]
            for f in (starts if order == 0 else starts[::-1]):
                f()
        elif flow in ("salloc", "zero"):
            ssend(None, ("-0",) if flow == "zero" else ())
            code, flags = printed_argv("S")
            srecv(code, flags)
        else:
            srecv(None, ("--allocate",))
            code, flags = printed_argv("R")
            ssend(code)
        finished = w.run(until=w.done, max_virtual=600.0)
        internal = ["%s: %s" % (type(e).__name__, str(e)[:80]) for _, e in w.internal]
        printed = w.recv_cfg.stdout.getvalue()
        w.shutdown()
        return lines, {"finished": bool(finished), "internal": internal, "printed": printed, "events": [list(e) for e in events],
                       "front_end": bool(w.dispatch)}
    finally:
        sys.stderr = orig_err
        cmd_send.create, cmd_receive.create, builtins.input = orig
        shutil.rmtree(base, ignore_errors=True)


def configs(quick):
    out = []
    for mode in ("text", "file", "dir"):
        for verify, sanswer in ((False, "yes"), (True, "yes"), (True, "no")):
            for accept in (("flag",) if mode == "text" else ("flag", "yes", "no")):
                for match in (True, False):
                    for exists in ((False,) if mode == "text" else (False, True)):
                        if not match and (accept != "flag" or exists or (verify and sanswer == "no")):
                            continue            # (with codes that differ nothing else is ever looked at)
                        if quick and mode == "dir" and (verify or exists) and accept != "flag":
                            continue
                        out.append({"mode": mode, "verify": verify, "sanswer": sanswer, "accept": accept, "match": match, "exists": exists,
                                    "flow": "given"})
    # how the sides come by their code (the other command is started exactly as the printed command line says)
    for flow in ("salloc", "ralloc", "zero", "zeromix"):
        for mode in ("text", "file"):
            for verify in (False, True):
                if flow == "ralloc" and verify:
                    continue            # (`receive --allocate` prints a plain `wormhole send` line: --verify is the sender's own choice)
                out.append({"mode": mode, "verify": verify, "sanswer": "yes", "accept": "flag", "match": flow != "zeromix", "exists": False,
                            "flow": flow})
    return out


def run_family(wd, quick, seed):
    cov = {}
    common.write_model(wd, "MC_XferProto", "XferProto", {}, invariants=INVARIANTS, properties=["Terminates"])
    r = tlc.run("MC_XferProto.tla", "MC_XferProto.cfg", cwd=wd.path, timeout=900)
    cov["tlc"] = {"distinct_states": r.distinct, "states_generated": r.generated, "depth": r.depth, "wall_s": round(r.wall, 1),
                  "result": "ok" if r.ok else (r.violated or "error"), "invariants": INVARIANTS, "liveness": ["Terminates"]}
    traces, notes = {}, {}
    tid = 0
    errors = []
    for cfg in configs(quick):
        for k in range(2 if quick else 6):
            tid += 1
            try:
                lines, info = run_config(tid, cfg, seed * 1000 + tid)
            except Exception as e:
                errors.append("%s: %r" % (json.dumps(cfg), e))
                continue
            traces[tid] = lines
            notes[tid] = dict(info, cfg=cfg)
    # binding demonstration: recorded runs with one step altered (a message of another kind, an outcome turned into success, a
    # step removed) must be rejected
    import copy
    demo = {}
    for t in sorted(traces)[:12]:
        for how in ("kind", "outcome", "drop"):
            lines = copy.deepcopy(traces[t])
            if how == "kind":
                idx = [i for i, l in enumerate(lines) if l["a"][0] in ("Send", "Recv")]
                if not idx:
                    continue
                lines[idx[-1]]["a"][2] = "transit" if lines[idx[-1]]["a"][2] != "transit" else "offer"
            elif how == "outcome":
                idx = [i for i, l in enumerate(lines) if l["a"][0] == "Done" and l["a"][2] != "ok"]
                if not idx:
                    continue
                lines[idx[0]]["a"][2] = "ok"
                for l in lines[idx[0]:]:
                    l["proj"]["out"][lines[idx[0]]["a"][1]] = "ok"
            else:
                if len(lines) < 3:
                    continue
                del lines[len(lines) // 2]
            demo[900000 + len(demo)] = lines
    alltr = dict(traces)
    alltr.update(demo)
    res, _r = common.trace_validate(wd, "XferProto", {}, alltr, T_PROJ, "MC_XferProto_trace")
    demo_rejected = sum(1 for t in demo if res[t][0] < res[t][1])
    cov["binding_demo"] = {"altered_traces": len(demo), "rejected": demo_rejected}
    res = {t: v for t, v in res.items() if t in traces}
    accepted = 0
    rejected = []
    unfinished = []
    for t, (reached, total) in sorted(res.items()):
        if not notes[t]["finished"] or notes[t]["internal"]:
            unfinished.append({"tid": t, "cfg": notes[t]["cfg"], "internal": notes[t]["internal"][:2], "events": notes[t]["events"][-4:]})
        if reached == total:
            accepted += 1
        elif len(rejected) < 6:
            rejected.append({"tid": t, "cfg": notes[t]["cfg"], "matched_lines": reached, "of": total,
                             "next_line": traces[t][reached]["a"] if reached < total else None,
                             "events": notes[t]["events"][:reached + 1]})
    # the text really printed (XferProto's `printed` is not in the projection: checked here on the runs themselves)
    text_ok = all(("hello there" in n["printed"]) == (n["events"].count(["Done", "S", "ok"]) > 0 or "hello there" in n["printed"])
                  for n in notes.values() if n["cfg"]["mode"] == "text")
    flows = {}
    for t, n in notes.items():
        fl = n["cfg"].get("flow", "given")
        e = flows.setdefault(fl, {"runs": 0, "both_ok": 0, "told": {}})
        e["runs"] += 1
        e["both_ok"] += int(["Done", "S", "ok"] in n["events"] and ["Done", "R", "ok"] in n["events"])
        for ev in n["events"]:
            if ev[0] == "Code":
                k = "%s:%s" % (ev[1], ev[2])
                e["told"][k] = e["told"].get(k, 0) + 1
    cov["code_flows"] = flows
    cov["runs_through_cli_dispatch_command"] = sum(1 for n in notes.values() if n.get("front_end"))
    cov.update(runs=len(traces), accepted=accepted, rejected=rejected, not_finished_or_internal=unfinished[:6], errors=errors[:4],
               text_sender_ok_implies_printed=all((["Done", "S", "ok"] not in n["events"]) or ("hello there" in n["printed"])
                                                  for n in notes.values() if n["cfg"]["mode"] == "text") and text_ok,
               rule="a run = the real `wormhole send` and `wormhole receive` commands under one configuration and one mailbox "
                    "schedule; every get_verifier / prompt / send_message / get_message / result of either command is one "
                    "recorded line; accepted = XferProto.tla has a behaviour with the same steps and the same projection "
                    "(configuration, messages sent by each side, prompts answered, outcomes) after every step")
    return cov
