"""C11 (roles, one connection at a time, re-convergence) and C17 (Dilation never blocks shutdown).

spec/DilationL3.tla (Manager, Connector and DilatedConnectionProtocol tables extracted from the tree)
is model-checked by TLC.  Its behaviours are replayed on the full stack: two real wormholes created with
dilation=True, the mailbox server twin, the simulated TCP fabric and the Noise stand-in, the harness
choosing when versions / dilation control messages, TCP establishment, handshake units, KCMs, eventual-
queue turns (Connector.accept, when_disconnected callbacks), cuts and loss observations happen.  Manager
and Connector states, the selected link of each side and the stopped flags are compared after every
step; DilationL3Obs.tla decides on per-step snapshots of the real execution.
"""
import json
import os
import random

from .. import common, tlc, sim
from ..mbworld import MailboxWorld, reactor, machine_state, RELAY_PORT
from ..mbconf import Binding

from twisted.python import log  # noqa: E402
from wormhole import ipaddrs  # noqa: E402
from wormhole._dilation import connection as C  # noqa: E402
from wormhole._dilation.manager import OldPeerCannotDilateError  # noqa: E402

ipaddrs.find_addresses = lambda: ["127.0.0.1"]
OBS_NAMES = ["RolesAgree", "AtMostOneSelected", "FollowerFollowsLeader", "Converged", "StopCompletes", "NothingLeft",
             "OldPeerReported", "NoInternal"]
SIDE_BYTES = {"L": b"\xff" * 5, "F": b"\x00" * 5}
# the dilation sides (make_side() at dilate()) decide the roles: "L" is the one with the greater side.  Pairs that are far
# apart, adjacent, equal but for the last nibble, and a letter against a digit in the hex spelling
DILATION_SIDES = [{"L": b"\xff" * 8, "F": b"\x00" * 8},
                  {"L": b"\x80" + b"\x00" * 7, "F": b"\x7f" + b"\xff" * 7},
                  {"L": b"\x12" * 7 + b"\x35", "F": b"\x12" * 7 + b"\x34"},
                  {"L": b"\xa0" + b"\x11" * 7, "F": b"\x9f" + b"\x11" * 7}]


class FullWorld:
    """names: "L" is the wormhole with the greater side (Leader), "F" the other"""

    def __init__(self, dilation=("L", "F"), variant=0, no_listen=(), track=False):
        self.no_listen = set(no_listen)
        self.gets_before_stop = ()
        self.dsides = DILATION_SIDES[variant % len(DILATION_SIDES)]
        self.mb = MailboxWorld(seed=0, clients=(("F", "deferred"), ("L", "deferred")), sides=SIDE_BYTES,
                               dilation=True, versions=None)
        self.cl = self.mb.clients
        self.bind = Binding(self.mb)
        self.tracker = None
        if track:
            # the mailbox group's ground-truth tracker rides along: what the two *applications* see on this world - the whole
            # stack, Dilation busy underneath - is judged by MailboxObs.tla like any run of the mailbox group
            from ..mbobs import Tracker
            self.tracker = Tracker(self.mb, self.bind)
            self.tracker._dupswap = False
            orig_apply = self.mb.apply

            def apply(act, _orig=orig_apply):
                self.tracker.before(act)
                r = _orig(act)
                self.tracker.after(act)
                return r
            self.mb.apply = apply
        self.api = {}
        self.links = {}            # model link id -> SimLink
        self.attempt_seen = []     # TCP attempts (non-mailbox) in creation order
        self.held = {"L": [], "F": []}     # frames (version / dilate-N from the peer) held back, in order
        self.schedule = []
        self.internal = []
        self.closed_at = {}
        self.stop_called = {}
        self.snaps = []
        # mailbox: both set the code; run everything except the peer's version / dilation messages
        for n in ("L", "F"):
            self.mb.apply({"a": "ConnOpen", "c": n})
            self.mb.apply({"a": "AppSetCode", "c": n, "code": "4-alpha-beta"})
        self.pump_mailbox()

    # ---- mailbox with hold-back -----------------------------------------------------------------------------------
    def _is_held(self, conn, fr):
        if fr.get("type") != "message" or fr.get("side") == conn.client.side:
            return False
        ph = fr.get("phase", "")
        return ph == "version" or ph.startswith("dilate-")

    def pump_mailbox(self, limit=500):
        mb = self.mb
        for _ in range(limit):
            moved = False
            for conn in mb.conns:
                if conn.state != "open":
                    continue
                if conn.c2s:
                    mb.apply({"a": "Serve", "k": conn.id})
                    moved = True
                    break
                if conn.s2c and not conn.closing:
                    fr = conn.s2c[0]
                    if self._is_held(conn, fr):
                        conn.s2c.popleft()
                        self.held[conn.client.name].append((conn, fr))
                    else:
                        mb.apply({"a": "Deliver", "k": conn.id})
                    moved = True
                    break
                if conn.closing:
                    mb.apply({"a": "CloseDone", "k": conn.id})
                    moved = True
                    break
            self.run_auto_timers()
            if not moved:
                return

    def _deliver_held(self, n, pred):
        for idx, (conn, fr) in enumerate(self.held[n]):
            if pred(fr):
                del self.held[n][idx]
                if conn.state == "open" and not conn.closing:
                    self.mb._deliver(conn, fr)
                return True
        return False

    # ---- timers / eventual queue ------------------------------------------------------------------------------------
    def _eq(self, n):
        return self.cl[n].boss._eventual_queue

    def _held_eq_call(self, call):
        f, args, kw = call
        name = getattr(f, "__name__", "")
        if name == "accept":
            return "accept"
        if name == "callback" and args and isinstance(args[0], C.DilatedConnectionProtocol):
            return "lost"
        return None

    natural = False

    def go_natural(self):
        """from now on the eventual queues run as they do in production: a turn runs *everything* queued for it, in order -
        the calls the model schedules one by one (Connector.accept(), a loss being noticed) no longer wait for the harness, and
        share their turn with whatever else was queued (results of get_*() calls, errors at close)"""
        self.natural = True
        for n in ("L", "F"):
            eq = self._eq(n)
            if eq._calls and not eq._timer:
                eq._timer = reactor.callLater(0, eq._turn)

    def run_auto_timers(self):
        """run every due timer; eventual-queue calls that the model schedules explicitly stay queued"""
        for _ in range(2000):
            due = reactor.due()
            if not due:
                return
            dc = due[0]
            owner = getattr(dc.func, "__self__", None)
            eqs = {id(self._eq(n)): n for n in ("L", "F")}
            if id(owner) in eqs and getattr(dc.func, "__name__", "") == "_turn" and not self.natural:
                eq = owner
                held = [c for c in eq._calls if self._held_eq_call(c)]
                eq._calls = [c for c in eq._calls if not self._held_eq_call(c)]
                try:
                    reactor.run_call(dc)
                except Exception as e:
                    self.internal.append("timer: %r" % (e,))
                eq._calls = held + eq._calls
                if eq._calls and not eq._timer:
                    eq._timer = reactor.callLater(0, eq._turn)
                if held and not [c for c in eq._calls if not self._held_eq_call(c)]:
                    # only held calls remain: do not spin
                    if eq._timer is not None and eq._timer.active():
                        eq._timer.cancel()
                        eq._timer = None
                    return_after = True
                else:
                    return_after = False
                if return_after:
                    continue
            else:
                try:
                    reactor.run_call(dc)
                except Exception as e:
                    self.internal.append("timer: %r" % (e,))

    def _run_eq_call(self, n, kind, link_id=None):
        eq = self._eq(n)
        for idx, c in enumerate(eq._calls):
            if self._held_eq_call(c) == kind:
                del eq._calls[idx]
                f, args, kw = c
                try:
                    f(*args, **kw)
                except Exception as e:
                    self.internal.append("%s: %s" % (type(e).__name__, str(e)[:120]))
                    log.err()
                return True
        return False

    # ---- links ---------------------------------------------------------------------------------------------------------
    def _new_attempts(self):
        for c in reactor.attempts:
            if c.port != RELAY_PORT and c not in self.attempt_seen:
                self.attempt_seen.append(c)

    def link(self, i):
        return self.links.get(i)

    def end_of(self, link, n):
        """index of side n's end on the link"""
        for e in (0, 1):
            p = getattr(link.ends[e].protocol, "_wrappedProtocol", link.ends[e].protocol)
            conn = getattr(p, "_connector", None)
            if conn is not None and conn._manager is self.manager(n):
                return e
        return None

    def manager(self, n):
        return self.cl[n].boss._D._manager

    def proto(self, link, n):
        e = self.end_of(link, n)
        return getattr(link.ends[e].protocol, "_wrappedProtocol", link.ends[e].protocol)

    frag = 0        # 0: units arrive whole; k > 0: every unit of more than one byte arrives in two reads, split k-dependently

    def deliver_unit(self, link, frm):
        late = getattr(self, "after_close", {}).get((id(link), frm))
        if self.frag and link.ends[frm].out and len(link.ends[frm].out[0]) > 1:
            # TCP may hand over any prefix first: just before the last byte, the last two, the middle, after the first byte
            n = len(link.ends[frm].out[0])
            # (frag 1..4: a different split for each unit in turn; 5..8: the same kind of split for every unit of the run)
            k = [n - 1, n - 2, n // 2, 1][(self.frag + (getattr(self, "_fragn", 0) if self.frag < 5 else 3)) % 4]
            self._fragn = getattr(self, "_fragn", 0) + 1
            try:
                link.deliver(frm, max(1, k))
            except sim._ProtocolRaised as e:
                self.internal.append("dataReceived: %s" % (str(e)[:120],))
                link.do_cut()
                if link.can_observe_loss(1 - frm):
                    link.observe_loss(1 - frm)
                return
            if not link.can_deliver(frm):
                return
        if not link.ends[frm].out and late:
            # written before that end closed in an orderly way: TCP still delivers it to the peer
            unit = late.pop(0)
            peer = link.ends[1 - frm]
            if not link.alive[1 - frm]:
                return
            try:
                link.fabric.call_protocol(peer.protocol.dataReceived, unit)
            except sim._ProtocolRaised as e:
                self.internal.append("dataReceived: %s" % (str(e)[:120],))
                if link.can_observe_loss(1 - frm):
                    link.observe_loss(1 - frm)
            return
        if self.join_units and len(link.ends[frm].out) >= 2:
            # two units that were written one after the other arrive in one read
            link.ends[frm].out[0:2] = [link.ends[frm].out[0] + link.ends[frm].out[1]]
        try:
            link.deliver(frm)
        except sim._ProtocolRaised as e:
            self.internal.append("dataReceived: %s" % (str(e)[:120],))
            # Twisted drops the connection of the protocol that raised
            link.do_cut()
            if link.can_observe_loss(1 - frm):
                link.observe_loss(1 - frm)

    # ---- the model's actions -------------------------------------------------------------------------------------------
    def do(self, la, prev=None):
        a, x, i = la
        self.schedule.append(list(la))
        mb = self.mb
        if a == "AppDilate":
            # the dilation side (make_side(): fresh random bytes) decides the role: pin it
            from ..mbworld import pinned_urandom
            with pinned_urandom(self.dsides[x]):
                kw = dict(getattr(self, "dilate_kwargs", {}))
                if not hasattr(self, "dstatus"):
                    self.dstatus = {"L": [], "F": []}
                kw["on_status_update"] = lambda st, x=x: self.dstatus[x].append(
                    {"NoPeer": "nopeer", "ConnectingPeer": "connecting", "ConnectedPeer": "connected", "ReconnectingPeer": "reconnecting",
                     "StoppedPeer": "stopped"}.get(type(st.peer_connection).__name__, type(st.peer_connection).__name__))
                kw.update(getattr(self, "dilate_kwargs_by_side", {}).get(x, {}))
                if x in self.no_listen:
                    kw["no_listen"] = True
                self.api[x] = self.cl[x].w.dilate(**kw)
        elif a == "VersionsArrive":
            self._deliver_held(x, lambda fr: fr["phase"] == "version")
        elif a == "MailboxDeliver":
            nums = sorted(int(fr["phase"].split("-")[1]) for _, fr in self.held[x] if fr["phase"].startswith("dilate-"))
            if not nums:
                raise RuntimeError("no dilation message held for %s" % x)
            self._deliver_held(x, lambda fr: fr["phase"] == "dilate-%d" % nums[0])
        elif a == "TcpUp":
            self._new_attempts()
            att = self.attempt_seen[i - 1]
            self.links[i] = reactor.complete(att)
        elif a == "HsDone":
            link = self.links[i]
            f_end = self.end_of(link, "F")
            l_end = 1 - f_end
            # everything both ways except the Follower's KCM frame (the 3rd unit it writes)
            for _ in range(20):
                moved = False
                if link.can_deliver(l_end):
                    self.deliver_unit(link, l_end)
                    moved = True
                ft = link.ends[f_end]
                if link.can_deliver(f_end) and len(ft.history) - len(ft.out) < 2:
                    self.deliver_unit(link, f_end)
                    moved = True
                if not moved:
                    break
        elif a == "DeliverKcmF":
            link = self.links[i]
            self.deliver_unit(link, self.end_of(link, "F"))
        elif a == "DeliverKcmL":
            link = self.links[i]
            self.deliver_unit(link, self.end_of(link, "L"))
        elif a == "TurnAccept":
            if not self._run_eq_call(x, "accept"):
                raise RuntimeError("no accept() queued for %s" % x)
        elif a == "TurnLost":
            # every observer of that connection's when_disconnected() (the Connector's bookkeeping and the Manager)
            if not self._run_eq_call(x, "lost"):
                raise RuntimeError("no when_disconnected callback queued for %s" % x)
            while self._run_eq_call(x, "lost"):
                pass
        elif a == "Cut":
            self.links[i].do_cut()
            if not hasattr(self, "network_cuts"):
                self.network_cuts = set()
            self.network_cuts.add(id(self.links[i]))
        elif a == "MonitorDrop":
            # two ping intervals pass without any answer reaching the Leader: its interval timer expires twice
            m = self.manager("L")
            for _ in range(2):
                t = m._timer
                if t is None or not t.active():
                    raise RuntimeError("the Leader has no ping timer running")
                reactor.rightNow = max(reactor.rightNow, t.getTime())
                reactor.run_call(t)
        elif a == "KeepAlive":
            # one ping interval passes: the Leader's interval timer expires, its ping travels, the Follower's pong comes back
            tc = [dc for dc in reactor.getDelayedCalls() if getattr(dc.func, "__name__", "") == "timer_expired"]
            if not tc:
                raise RuntimeError("no ping interval timer is running")
            reactor.rightNow = max(reactor.rightNow, min(dc.getTime() for dc in tc))
            self.run_auto_timers()
            link = self.links[i]
            for _ in range(20):
                moved = False
                for e in (0, 1):
                    while link.can_deliver(e):
                        self.deliver_unit(link, e)
                        moved = True
                if not moved:
                    break
        elif a == "ObserveLoss":
            link = self.links[i]
            e = self.end_of(link, x)
            if e is None:
                raise RuntimeError("link %d has no end of %s" % (i, x))
            if link.ends[e].disconnecting and link.alive[e] and not link.cut:
                if not hasattr(self, "after_close"):
                    self.after_close = {}
                self.after_close[(id(link), e)] = list(link.ends[e].out)
                link.finish_close(e)
            elif link.can_observe_loss(e):
                link.observe_loss(e)
            elif link.alive[e]:
                link.cut = True
                link.observe_loss(e)
        elif a == "Stop":
            self.stop_called[x] = len(self.schedule)
            # (an application with get_*() calls outstanding when it - or its peer - closes)
            # (issued in the same reactor turn as the close: nothing - no eventual-queue turn either - runs in between, so an
            # answer that is already there shares its turn with whatever Dilation had waiting)
            for who, kind in self.gets_before_stop:
                mb._do_AppGet({"a": "AppGet", "c": who, "kind": kind})
            mb.apply({"a": "AppClose", "c": x})
            if getattr(self, "natural_after_stop", False) and not self.natural:
                # whatever was waiting for its turn when close() was called now runs as production runs it (go_natural)
                self.go_natural()
        self.run_auto_timers()
        self._new_attempts()
        self.pump_mailbox()
        self._maybe_traffic()
        self.snapshot()

    # ---- application traffic (invisible at the model's level of abstraction) ------------------------------------------------
    traffic = False

    def _maybe_traffic(self):
        """traffic=True: as soon as the Leader is connected its application opens a subchannel and writes; nothing delivers
        those records (the model's steps only move handshake units), so they are un-acked when the connection is lost and
        are sent again on the next connection"""
        if not self.traffic or getattr(self, "_traffic_done", False):
            return
        if "L" not in self.api or "F" not in self.api or self.state()["L"]["mgr"] != "CONNECTED":
            return
        self._traffic_done = True
        from twisted.internet import protocol as tproto
        world = self

        class P(tproto.Protocol):
            def connectionMade(self):
                world.traffic_log.append(("made", self.side))
                if self.side == "L":
                    self.transport.write(b"un-acked when the link is lost")

            def dataReceived(self, data):
                world.traffic_log.append(("data", self.side, bytes(data)))

            def connectionLost(self, reason=None):
                world.traffic_log.append(("lost", self.side))

        def fac(side):
            f = tproto.Factory()
            f.buildProtocol = lambda addr: type("P_" + side, (P,), {"side": side})()
            return f
        self.traffic_log = []
        try:
            self.api["F"].listener_for("p").listen(fac("F"))
            d = self.api["L"].connector_for("p").connect(fac("L"))
            d.addErrback(lambda f: self.internal.append("traffic: %r" % (f.value,)))
        except Exception as e:
            self.internal.append("traffic: %r" % (e,))
        self.run_auto_timers()

    # ---- fair completion --------------------------------------------------------------------------------------------------
    def run_out(self, limit=600):
        """No new faults, no new application calls: every frame held back is delivered, every TCP attempt completes,
        every unit in flight arrives, every queued eventual call runs, every loss is noticed - until nothing moves.
        Returns True when the real system came to rest."""
        idle = 0
        for _ in range(limit):
            moved = False
            for n in ("L", "F"):
                if self.held[n]:
                    if not self._deliver_held(n, lambda fr: fr["phase"] == "version"):
                        nums = sorted(int(fr["phase"].split("-")[1]) for _, fr in self.held[n])
                        self._deliver_held(n, lambda fr: fr["phase"] == "dilate-%d" % nums[0])
                    moved = True
                    break
            if not moved:
                self._new_attempts()
                pending = reactor.pending_attempts()
                for idx, att in enumerate(self.attempt_seen, start=1):
                    if idx not in self.links:
                        if att in pending:
                            self.links[idx] = reactor.complete(att)
                            moved = True
                            break
                        self.links[idx] = None
            if not moved and not self.units_first:
                moved = self._run_out_turns()
            if not moved:
                for i, link in sorted(self.links.items(), reverse=self.rev_links):
                    if link is None:
                        continue
                    for e in (0, 1):
                        if link.can_deliver(e):
                            self.deliver_unit(link, e)
                            moved = True
                            break
                        if link.ends[e].disconnecting and link.alive[e] and not link.cut:
                            link.finish_close(e)
                            moved = True
                            break
                        if link.can_observe_loss(e):
                            link.observe_loss(e)
                            moved = True
                            break
                    if moved:
                        break
            if not moved and self.units_first:
                moved = self._run_out_turns()
            self.run_auto_timers()
            self._new_attempts()
            self.pump_mailbox()
            # (the timers just run may have produced new work - an eventual-queue turn that writes records: at rest means
            # two rounds in a row in which nothing moved)
            idle = 0 if moved else idle + 1
            if idle >= 2:
                self.snapshot()
                return True
        self.snapshot()
        return False

    # which comes first when both are possible: a queued eventual-queue turn (Connector.accept(), a loss being noticed), or
    # the next unit in flight on some link.  units_first: records sent right behind the KCM reach a Follower whose accept()
    # turn has not run yet
    units_first = False
    join_units = False      # whatever is queued behind a unit on its link arrives with it, in one read
    rev_links = False       # which link is served first when several have something in flight

    def _run_out_turns(self):
        if self.natural:
            return False
        for n in ("L", "F"):
            if self._run_eq_call(n, "accept") or self._run_eq_call(n, "lost"):
                while self._run_eq_call(n, "lost"):
                    pass
                return True
        return False

    def network_cut_all_current(self):
        """the statement's proviso, on the real objects: there are connections belonging to the current Connector of both
        sides and the network cut every one of them (then nobody retries, by design)"""
        cur = []
        for i, link in self.links.items():
            if link is None:
                continue
            ok = True
            for e in (0, 1):
                p = getattr(link.ends[e].protocol, "_wrappedProtocol", link.ends[e].protocol)
                c = getattr(p, "_connector", None)
                m = getattr(c, "_manager", None)
                if c is None or m is None or getattr(m, "_connector", None) is not c:
                    ok = False
            if ok:
                cur.append(link)
        # (cut by the *network*: a link that one of its ends closed by its own decision - or whose protocol raised - also has
        # link.cut set by the simulator, and is not the network's doing)
        return bool(cur) and all(id(l) in getattr(self, "network_cuts", ()) for l in cur)

    # ---- observation ------------------------------------------------------------------------------------------------------
    def selected_links(self, n):
        out = []
        for i, link in self.links.items():
            if link is None:
                continue
            e = self.end_of(link, n)
            if e is None:
                continue
            p = self.proto(link, n)
            if machine_state(p) == "selected" and link.ends[e].connected and not link.ends[e].disconnecting:
                out.append(i)
        return out

    def dcp_state(self, i, n):
        link = self.links.get(i)
        if link is None:
            return "-"
        e = self.end_of(link, n)
        if e is None:
            return "-"
        return machine_state(self.proto(link, n))

    def state(self):
        out = {}
        for n in ("L", "F"):
            m = self.manager(n)
            ctr = getattr(m, "_connector", None) if m is not None else None
            sel = 0
            if m is not None and m._connection is not None:
                for i, link in self.links.items():
                    if link is not None and self.end_of(link, n) is not None and self.proto(link, n) is m._connection:
                        sel = i
            closed = any(k == "closed" for k, _ in self.cl[n].events) or bool(self.cl[n].close_results and self.cl[n].close_results[0])
            ds = getattr(self, "dstatus", {}).get(n, [])
            out[n] = {"dstat": ds[-1] if ds else ("none" if n not in self.api else "nopeer"),
                      "mgr": machine_state(m) if m is not None else "none",
                      "ctr": machine_state(ctr) if ctr is not None else "none",
                      "sel": sel, "role": ("LEADER" if "LEADER" in str(m._my_role) else "FOLLOWER") if (m is not None and m._my_role is not None) else "-",
                      "closed": bool(closed)}
        return out

    def snapshot(self):
        st = self.state()
        snap = {"L": st["L"], "F": st["F"], "selectedL": self.selected_links("L"), "selectedF": self.selected_links("F"),
                "dcp": {str(i): {"L": self.dcp_state(i, "L"), "F": self.dcp_state(i, "F")} for i in self.links},
                "listeners": {n: 0 for n in ("L", "F")}, "pendingAttempts": {n: 0 for n in ("L", "F")},
                "openDialled": {n: 0 for n in ("L", "F")}}
        # connections this side dialled whose end is still open (connected, not closing)
        for i, link in self.links.items():
            if link is None:
                continue
            t = link.ends[0]           # end 0 is the dialling end
            if t.connected and not t.disconnecting:
                p = getattr(t.protocol, "_wrappedProtocol", t.protocol)
                c = getattr(p, "_connector", None)
                for n in ("L", "F"):
                    if c is not None and c._manager is self.manager(n):
                        snap["openDialled"][n] += 1
        for port, lp in reactor.listeners.items():
            owner = getattr(lp.factory, "_connector", None)
            for n in ("L", "F"):
                if owner is not None and owner._manager is self.manager(n):
                    snap["listeners"][n] += 1
        for att in reactor.pending_attempts():
            if att.port == RELAY_PORT:
                continue
            f = getattr(att.factory, "_wrappedFactory", att.factory)
            owner = getattr(f, "_connector", None)
            for n in ("L", "F"):
                if owner is not None and owner._manager is self.manager(n):
                    snap["pendingAttempts"][n] += 1
        self.snaps.append(snap)

    def finish(self):
        internal = list(self.internal)
        for e in self.mb.logged:
            internal.append("%s: %s" % (type(e).__name__, str(e)[:100]))
        for (n, entry, e) in self.mb.internal:
            internal.append("%s:%s:%s" % (n, entry, type(e).__name__))
        self.mb.shutdown()
        return internal


def convergence_due(st):
    """DilationL3.tla's antecedent of NoDeadlock, evaluated on the final state of the behaviour: nothing in flight,
    both dilating and not stopping, resources left, no dial pending, and the network did not cut every current link"""
    sides = ("L", "F")
    links = [l for l in st["links"] if l["phase"] != "none"]

    def can_lose(l, x):
        o = "F" if x == "L" else "L"
        return l["endst"][x] in ("cut", "closing") or (l["endst"][x] == "up" and l["endst"][o] in ("closing", "down"))
    quiet = all(not st["mq"][x] and not st["accepts"][x] and not st["lostq"][x] for x in sides)
    quiet = quiet and all(l["phase"] in ("dead", "both") or not (l["endst"]["L"] == "up" and l["endst"]["F"] == "up") for l in links)
    quiet = quiet and all(not can_lose(l, x) or l["phase"] == "dial" for l in links for x in sides)
    started = all(st["mgr"][x] != "none" and st["versions"][x] and not st["stopReq"][x] for x in sides)
    resources = st["nlinks"] < len(st["links"]) and all(st["cgen"][x] < 4 for x in sides)
    dialing = any(l["phase"] == "dial" for l in links)
    current = [l for l in links if l["gen"]["L"] == st["cgen"]["L"] and l["gen"]["F"] == st["cgen"]["F"]]
    cut_all = bool(current) and all(l["wascut"] for l in current)
    return quiet and started and resources and not dialing and not cut_all


def stop_due(st, x):
    """the statement requires the closed notification by now: stop was requested and nothing that side still waits for
    (queued callbacks, loss of its connection ends) is outstanding"""
    if not st["stopReq"][x]:
        return False
    o = "F" if x == "L" else "L"
    if st["lostq"][x] or st["accepts"][x]:
        return False
    for l in st["links"]:
        if l["phase"] in ("none", "dial"):
            continue
        if l["endst"][x] in ("cut", "closing") or (l["endst"][x] == "up" and l["endst"][o] in ("closing", "down")):
            return False
    return True


def spec_state(st):
    out = {}
    for n in ("L", "F"):
        out[n] = {"mgr": st["mgr"][n], "ctr": st["ctr"][n], "sel": st["sel"][n], "closed": st["stopped"][n] and st["stopReq"][n],
                  "dstat": st["dstat"][n]}
    return out


BENIGN = ("no transition for MethodicalInput(method=<function Connector.accept",
          "no transition for MethodicalInput(method=<function Connector.add_candidate")


def replay_behaviour(tid, states, no_listen=(), then_stop=(), track=False, gets_before_stop=(), after=None):
    w = FullWorld(variant=tid, no_listen=no_listen, track=track)
    w.gets_before_stop = tuple(gets_before_stop)
    w.natural_after_stop = bool(track)
    w.traffic = (tid % 2 == 0)
    w.frag = tid % 9                          # most replays fragment the handshake units (FullWorld.deliver_unit)
    drift = None
    for i, st in enumerate(states[1:], start=1):
        la = st["last"]
        try:
            w.do(tuple(la), prev=states[i - 1])
        except Exception as e:
            drift = drift or {"step": i, "action": list(la), "diff": ["cannot apply: %r" % (e,)]}
            break
        if drift is None:
            rs, ss = w.state(), spec_state(st)
            d = []
            for n in ("L", "F"):
                for k in ("mgr", "ctr", "sel", "dstat"):
                    if rs[n][k] != ss[n][k]:
                        d.append("%s.%s: spec=%s real=%s" % (n, k, ss[n][k], rs[n][k]))
                if ss[n]["closed"] != rs[n]["closed"]:
                    d.append("%s.closed: spec=%s real=%s" % (n, ss[n]["closed"], rs[n]["closed"]))
            if d:
                drift = {"step": i, "action": list(la), "diff": d[:5]}
    if after is not None:
        try:
            after(w)
        except Exception as e:
            w.internal.append("after: %r" % (e,))
    if track and not w.natural:
        w.go_natural()
    for x in then_stop:
        # beyond the behaviour: the application closes now (judged at rest only)
        try:
            w.do(("Stop", x, 0))
        except Exception as e:
            w.internal.append("then_stop: %r" % (e,))
    # the judgement by the behaviour's own final state first ...
    at_end = w.state()
    # ... then let everything that can still happen by itself happen (no new faults, no new application calls) and look
    # at where the real system comes to rest: an oracle that does not depend on the model's bounds or on the replay
    # having kept in step
    try:
        rested = w.run_out()
    except Exception as e:
        rested = False
        w.internal.append("run_out: %r" % (e,))
    final = w.state()
    # the statement's proviso excuses a standstill in which the network cut every current connection *and both sides are
    # waiting for one* (nobody retries, by design); a Manager that still believes it is connected is not waiting
    excused = w.network_cut_all_current() and all(final[n]["mgr"] == "CONNECTING" for n in ("L", "F"))
    dilated = all(n in w.api for n in ("L", "F")) and not excused
    if track:
        # late questions after everything has come to rest, then the mailbox group's record of what the applications saw
        for n in ("L", "F"):
            if n in w.stop_called:
                for kind in ("message", "versions"):
                    w.mb.apply({"a": "AppGet", "c": n, "kind": kind})
        try:
            w.run_out()
        except Exception as e:
            w.internal.append("run_out (late gets): %r" % (e,))
        w.mailbox_record = w.tracker.record(tid, drained=bool(rested), goal=False, extra={"origin": "full-stack"})
    internal = w.finish()
    benign = [x for x in internal if any(b in x for b in BENIGN)]
    fin = states[-1]
    rec = {"tid": tid, "snaps": w.snaps, "final": final, "internal": [x for x in internal if x not in benign], "benign": len(benign),
           "stopCalled": {n: n in w.stop_called for n in ("L", "F")},
           "atEnd": at_end, "rested": bool(rested),
           "specStopped": {n: bool(drift is None and stop_due(fin, n)) for n in ("L", "F")},
           "convergenceDue": bool(drift is None and convergence_due(fin)),
           # at rest after a fair completion: a requested close must have completed; two dilating sides nobody stopped
           # must be connected to each other
           "restStopDue": {n: bool(rested and n in w.stop_called) for n in ("L", "F")},
           "restConvergenceDue": bool(rested and dilated and not w.stop_called)}
    return w, rec, drift


def app_events_family(wd, prop, quick, seed):
    """The mailbox group's question asked of the whole stack (C18 and friends): applications with get_*() calls outstanding close
    their wormholes - or see their peer close - while Dilation is in the middle of something (an accept() queued for a Connector
    that is being stopped, a connection being abandoned, dialling, connected).  The situations are witness behaviours of
    DilationL3.tla (TLC), executed on two real dilating wormholes; returns the mailbox-group records (judged by MailboxObs.tla)
    and the schedules."""
    both = {"L", "F"}
    goals = {
        "stop_with_accept_queued": "\\E x \\in Sides : stopReq[x] /\\ last[1] = \"Stop\" /\\ accepts[x] # <<>>",
        "stop_while_abandoning": 'stopReq.F /\\ last[1] = "Stop" /\\ mgr.F \\in {"ABANDONING", "STOPPING"} /\\ cuts >= 1',
        "stop_connected_both": 'stopReq.L /\\ last[1] = "Stop" /\\ sel.L > 0 /\\ sel.F = sel.L',
        "stop_while_dialling": "\\E x \\in Sides : stopReq[x] /\\ last[1] = \"Stop\" /\\ \\E i \\in LinkIds : links[i].phase = \"dial\" /\\ links[i].dialer = x",
    }
    if not quick:
        goals["both_stop"] = "stopReq.L /\\ stopReq.F /\\ nlinks >= 1"
        goals["stop_with_two_links_up"] = ("\\E x \\in Sides : stopReq[x] /\\ last[1] = \"Stop\" /\\ "
                                           "Cardinality({i \\in LinkIds : links[i].endst[x] = \"up\"}) >= 2")
    # an accept() queued for a Connector that has been replaced meanwhile (it will raise when its turn comes) - and in that
    # very turn the application's messages arrive through the mailbox
    goals["stale_accept_queued"] = "\\E x \\in Sides : accepts[x] # <<>> /\\ Head(accepts[x]).gen < cgen[x]"
    wit, unreached = common.witnesses(wd, "DilationL3", dict(MaxLinks=3, MaxCuts=1, Dilaters=both, AllowStop=both, NoListen=set()),
                                      goals, "MC_%s_appgoal" % prop, timeout=900)
    out = []
    tid = 700000

    def messages_now(w):
        # both applications are waiting for a message (their get_message() is outstanding, as always in this world) and send
        # two each; the frames arrive while Dilation's calls are waiting for their turn
        for k in range(2):
            for x in ("L", "F"):
                w.mb.apply({"a": "AppSend", "c": x, "data": ("m:%s:%d" % (x, k)).encode().hex()})
            w.pump_mailbox()
    for g, tr in wit:
        if g == "stale_accept_queued":
            for then_stop in ((), ("L", "F")):
                tid += 1
                try:
                    w, rec, drift = replay_behaviour(tid, tr, then_stop=list(then_stop), track=True, after=messages_now)
                except Exception as e:
                    out.append((None, {"goal": g, "error": repr(e)[:200]}))
                    continue
                mrec = w.mailbox_record
                mrec["tid"] = tid
                mrec["origin"] = "family:full-stack:" + g
                out.append((mrec, {"goal": g, "schedule": w.schedule, "after": "messages_now", "then_stop": list(then_stop)}))
            continue
        for gets in ((("L", "message"), ("L", "message"), ("L", "versions"), ("F", "message"), ("F", "versions")),
                     (("F", "message"), ("L", "verifier"), ("L", "message"))):
            for then_stop in ((), ("L", "F")):
                tid += 1
                try:
                    w, rec, drift = replay_behaviour(tid, tr, then_stop=[x for x in then_stop], track=True, gets_before_stop=gets)
                except Exception as e:
                    out.append((None, {"goal": g, "error": repr(e)[:200]}))
                    continue
                mrec = w.mailbox_record
                mrec["tid"] = tid
                mrec["origin"] = "family:full-stack:" + g
                out.append((mrec, {"goal": g, "schedule": w.schedule, "gets_before_stop": [list(x) for x in gets],
                                   "then_stop": list(then_stop)}))
    return out, {"reached": [g for g, _ in wit], "unreached": unreached}


TRANSIT_RELAY_PORT = 4801


def relay_case(tid, has_relay, cuts, units_first=False, join=False, rev=False):
    """Neither side can be dialled (no_listen on both): the only path is a transit relay, configured on the sides in
    `has_relay` (the other side learns it from the peer's hints - the same hint in every generation).  Connect, then `cuts`
    times: the network cuts the Leader's leg, everything is run out fairly.  At rest the two sides must be connected to
    each other again (the relay legs are not connections "between the two Connectors", so the proviso never applies)."""
    from .transit_select import RelayStub
    from twisted.internet import protocol as tproto
    w = FullWorld(variant=tid, no_listen=("L", "F"))
    w.units_first = units_first
    # join: the relay's "ok" and what the peer sent right behind it reach an end in one read (on whichever leg is served last)
    w.join_units, w.rev_links = join, rev
    RelayStub.waiting = {}
    stub = type("DilRelayStub", (RelayStub,), {"waiting": {}})
    reactor.listenTCP(TRANSIT_RELAY_PORT, tproto.Factory.forProtocol(stub))
    w.dilate_kwargs_by_side = {n: {"transit_relay_location": "tcp:10.9.9.9:%d" % TRANSIT_RELAY_PORT} for n in has_relay}
    w.schedule.append(["relay-only", sorted(has_relay), cuts, units_first, join, rev])
    try:
        w.do(("AppDilate", "L", 0))
        w.do(("AppDilate", "F", 0))
        rested = w.run_out()
        first = w.state()
        for _ in range(cuts):
            sel = w.selected_links("L")
            if not sel:
                break
            w.do(("Cut", "-", sel[0]))
            rested = w.run_out() and rested
    except Exception as e:
        rested = False
        w.internal.append("relay_case: %r" % (e,))
        first = w.state()
    final = w.state()
    # the two legs the relay glued together are one peer connection: name both by the smaller link number
    relay_end = {}
    for i, link in w.links.items():
        if link is None:
            continue
        for e in (0, 1):
            pr = getattr(link.ends[e].protocol, "_wrappedProtocol", link.ends[e].protocol)
            if isinstance(pr, RelayStub):
                relay_end[id(pr)] = (i, pr)
    canon = {}
    for i, pr in relay_end.values():
        j = relay_end.get(id(pr.peer), (i, None))[0] if pr.peer is not None else i
        canon[i] = min(i, j)

    def c(i):
        return canon.get(i, i)
    for snap in w.snaps + [{"L": final["L"], "F": final["F"], "selectedL": [], "selectedF": [], "dcp": {}}]:
        for n in ("L", "F"):
            snap[n]["sel"] = c(snap[n]["sel"]) if snap[n]["sel"] else 0
        snap["selectedL"] = sorted(set(c(i) for i in snap["selectedL"]))
        snap["selectedF"] = sorted(set(c(i) for i in snap["selectedF"]))
        merged = {}
        for k, v in snap["dcp"].items():
            m = merged.setdefault(str(c(int(k))), {"L": "-", "F": "-"})
            for n in ("L", "F"):
                if v[n] != "-":
                    m[n] = v[n]
        snap["dcp"] = merged
    internal = w.finish()
    benign = [x for x in internal if any(b in x for b in BENIGN)]
    rec = {"tid": tid, "snaps": w.snaps, "final": final, "internal": [x for x in internal if x not in benign], "benign": len(benign),
           "stopCalled": {"L": False, "F": False}, "atEnd": final, "rested": bool(rested),
           "specStopped": {"L": False, "F": False}, "convergenceDue": False,
           "restStopDue": {"L": False, "F": False}, "restConvergenceDue": bool(rested),
           "firstConnected": all(first[n]["mgr"] == "CONNECTED" for n in ("L", "F"))}
    return w, rec


def reconnect_then_close_case(tid, first, closers, cuts=1):
    """Connected; the network cuts the link and side `first` notices first (the other side learns of the new generation through
    the mailbox while it still believes it is connected); everything is run out fairly (second generation connected); `cuts`
    times over; then the sides in `closers` close.  Closing must complete and leave nothing behind."""
    w = FullWorld(variant=tid)
    w.schedule.append(["reconnect-then-close", first, list(closers), cuts])
    other = "F" if first == "L" else "L"
    rested = True
    try:
        w.do(("AppDilate", "L", 0))
        w.do(("AppDilate", "F", 0))
        rested = w.run_out()
        for _ in range(cuts):
            sel = w.selected_links(first)
            if not sel:
                break
            i = sel[0]
            w.do(("Cut", "-", i))
            w.do(("ObserveLoss", first, i))
            while w._run_eq_call(first, "lost"):
                pass
            w.run_auto_timers()
            w.pump_mailbox()
            # the other side gets the control messages while its own end of the link still looks alive
            for _ in range(4):
                if not w.held[other]:
                    break
                w.do(("MailboxDeliver", other, 0))
            rested = w.run_out() and rested
        second = w.state()
        for x in closers:
            w.do(("Stop", x, 0))
        rested = w.run_out() and rested
    except Exception as e:
        rested = False
        w.internal.append("reconnect_then_close_case: %r" % (e,))
        second = w.state()
    final = w.state()
    internal = w.finish()
    benign = [x for x in internal if any(b in x for b in BENIGN)]
    rec = {"tid": tid, "snaps": w.snaps, "final": final, "internal": [x for x in internal if x not in benign], "benign": len(benign),
           "stopCalled": {n: n in w.stop_called for n in ("L", "F")}, "atEnd": final, "rested": bool(rested),
           "specStopped": {"L": False, "F": False}, "convergenceDue": False,
           "restStopDue": {n: bool(rested and n in w.stop_called) for n in ("L", "F")}, "restConvergenceDue": False,
           "secondConnected": all(second[n]["mgr"] == "CONNECTED" for n in ("L", "F"))}
    return w, rec


def incompatible_peer_case(tid, odd, closers, cut):
    """A peer that dilates but shares no Dilation version with us (side `odd` runs another build: its "can-dilate" list and what
    it accepts are disjoint from ours).  Each side reports the incapable peer to its application (OldPeerCannotDilateError) -
    and both go on through the motions all the same: PLEASE, hints, the connection race.  Whatever comes of that, close() on the
    sides in `closers` must complete and leave nothing behind (optionally after the network cut whatever link was in use)."""
    w = FullWorld(variant=tid)
    w.schedule.append(["incompatible-peer", odd, list(closers), bool(cut)])
    b = w.cl[odd].boss
    b._versions["can-dilate"] = ["another-build"]          # (one dict, shared by Boss and Key: what the version message says)
    b._D._acceptable_versions = ["another-build"]
    rested = True
    try:
        w.do(("AppDilate", "L", 0))
        w.do(("AppDilate", "F", 0))
        rested = w.run_out()
        if cut:
            sel = w.selected_links("L") or w.selected_links("F")
            if sel:
                w.do(("Cut", "-", sel[0]))
                rested = w.run_out() and rested
        second = w.state()
        for x in closers:
            w.do(("Stop", x, 0))
        rested = w.run_out() and rested
    except Exception as e:
        rested = False
        w.internal.append("incompatible_peer_case: %r" % (e,))
        second = w.state()
    final = w.state()
    internal = w.finish()
    # On the pinned tree connector_connection_made() ends with `_main_channel.fire(None)` although that observer already
    # carries OldPeerCannotDilateError: OneShotObserver.fire() asserts, the Connector's eventual-queue turn logs the
    # AssertionError, and nothing else comes of it (the connection is in use by then).  C17 states nothing about the log: what is
    # judged here is that close() completes and nothing is left (DESIGN 7.3); the logged assertion is counted, not judged.
    benign = [x for x in internal if any(bn in x for bn in BENIGN) or x.startswith("AssertionError")]
    rec = {"tid": tid, "snaps": w.snaps, "final": final, "internal": [x for x in internal if x not in benign], "benign": len(benign),
           "stopCalled": {n: n in w.stop_called for n in ("L", "F")}, "atEnd": final, "rested": bool(rested),
           "specStopped": {"L": False, "F": False}, "convergenceDue": False,
           "restStopDue": {n: bool(rested and n in w.stop_called) for n in ("L", "F")}, "restConvergenceDue": False,
           "secondConnected": all(second[n]["mgr"] == "CONNECTED" for n in ("L", "F"))}
    return w, rec


def scared_close_case(tid, victim, after_cut):
    """A wormhole that closes by itself while Dilation is busy: both sides dilated and connected (or, `after_cut`, re-connecting after a
    loss) when a message arrives on the peer's side of the mailbox that does not decrypt (garbled in storage, forged, a buggy peer):
    the victim closes with WrongPasswordError - and Dilation has to be shut down like at any other close."""
    w = FullWorld(variant=tid)
    w.schedule.append(["scared-close", victim, bool(after_cut)])
    other = "F" if victim == "L" else "L"
    rested = True
    try:
        w.do(("AppDilate", "L", 0))
        w.do(("AppDilate", "F", 0))
        rested = w.run_out()
        if after_cut:
            sel = w.selected_links(victim)
            if sel:
                w.do(("Cut", "-", sel[0]))
                w.do(("ObserveLoss", victim, sel[0]))
                while w._run_eq_call(victim, "lost"):
                    pass
        conn = w.mb.live_conn(w.cl[victim])
        if conn is None or not conn.srv.get("mailbox"):
            raise RuntimeError("no mailbox connection to inject into")
        w.mb.apply({"a": "Inject", "side": w.cl[other].side, "phase": "7", "body": "00" * 64, "mailbox": conn.srv["mailbox"],
                    "appid": getattr(w.cl[victim], "appid", "appid")})
        w.pump_mailbox()
        w.snapshot()
        rested = w.run_out() and rested
        # (a Deferred-mode wormhole shows that it has closed - and with which verdict - only through close())
        w.do(("Stop", victim, 0))
        rested = w.run_out() and rested
    except Exception as e:
        rested = False
        w.internal.append("scared_close_case: %r" % (e,))
    final = w.state()
    w.snapshot()
    internal = w.finish()
    benign = [x for x in internal if any(b in x for b in BENIGN)]
    rec = {"tid": tid, "snaps": w.snaps, "final": final, "internal": [x for x in internal if x not in benign], "benign": len(benign),
           "stopCalled": {"L": False, "F": False}, "atEnd": final, "rested": bool(rested),
           "specStopped": {"L": False, "F": False}, "convergenceDue": False,
           "restStopDue": {n: bool(rested and n == victim) for n in ("L", "F")}, "restConvergenceDue": False}
    return w, rec


def generations_case(tid, ncuts, pattern):
    """A long life: the connection in use is lost `ncuts` times, the sides taking turns (`pattern`) at noticing first; after every loss
    everything is run out fairly and the two sides must be connected again on one shared link (control messages, generations and
    whatever else counts up with every loss have had time to grow)."""
    w = FullWorld(variant=tid)
    w.schedule.append(["generations", ncuts, pattern])
    rested = True
    reconverged = 0
    try:
        w.do(("AppDilate", "L", 0))
        w.do(("AppDilate", "F", 0))
        rested = w.run_out()
        for k in range(ncuts):
            first = pattern[k % len(pattern)]
            other = "F" if first == "L" else "L"
            sel = w.selected_links(first)
            if not sel:
                break
            w.do(("Cut", "-", sel[0]))
            w.do(("ObserveLoss", first, sel[0]))
            while w._run_eq_call(first, "lost"):
                pass
            w.run_auto_timers()
            w.pump_mailbox()
            for _ in range(4):
                if not w.held[other]:
                    break
                w.do(("MailboxDeliver", other, 0))
            rested = w.run_out() and rested
            st = w.state()
            if all(st[n]["mgr"] == "CONNECTED" for n in ("L", "F")) and st["L"]["sel"] == st["F"]["sel"] and st["L"]["sel"] > 0:
                reconverged += 1
            else:
                break
    except Exception as e:
        rested = False
        w.internal.append("generations_case: %r" % (e,))
    final = w.state()
    internal = w.finish()
    benign = [x for x in internal if any(b in x for b in BENIGN)]
    # the snapshots of a long run are many: every fifth and the last ones are kept for the per-moment clauses
    snaps = w.snaps[::5] + w.snaps[-3:]
    rec = {"tid": tid, "snaps": snaps, "final": final, "internal": [x for x in internal if x not in benign], "benign": len(benign),
           "stopCalled": {"L": False, "F": False}, "atEnd": final, "rested": bool(rested),
           "specStopped": {"L": False, "F": False}, "convergenceDue": False,
           "restStopDue": {"L": False, "F": False}, "restConvergenceDue": bool(rested), "reconverged": reconverged}
    return w, rec


def old_peer_case(tid, dilate_when="first"):
    """the peer cannot dilate: pending and future subchannel connect() calls fail with OldPeerCannotDilateError - whether the
    application calls dilate() first thing (`first`) or only once the peer's versions are in (`after-versions`: an application that
    looks at get_versions() before deciding)"""
    from ..mbworld import MailboxWorld as MW
    from twisted.internet import protocol
    mb = MW(seed=1, clients=(("F", "deferred"), ("L", "deferred")), sides=SIDE_BYTES, dilation=True)
    # F is an old peer: no dilation in its versions (created without dilation)
    mb.shutdown()
    import wormhole
    from ..mbworld import Client
    mb = MW.__new__(MW)
    MW.__init__(mb, seed=1, clients=(("L", "deferred"),), sides=SIDE_BYTES, dilation=True)
    old = Client(mb, "F", "appid", "deferred", SIDE_BYTES["F"], dilation=False)
    mb.clients["F"] = old
    results = []
    if dilate_when == "first":
        api = mb.clients["L"].w.dilate()
        d1 = api.connector_for("proto").connect(protocol.Factory.forProtocol(protocol.Protocol))
        d1.addBoth(results.append)
    for n in ("L", "F"):
        mb.apply({"a": "ConnOpen", "c": n})
        mb.apply({"a": "AppSetCode", "c": n, "code": "4-alpha-beta"})
    mb.drain()
    if dilate_when != "first":
        api = mb.clients["L"].w.dilate()
        d1 = api.connector_for("proto").connect(protocol.Factory.forProtocol(protocol.Protocol))
        d1.addBoth(results.append)
        mb.settle()
        mb.drain()
    d2 = api.connector_for("proto").connect(protocol.Factory.forProtocol(protocol.Protocol))
    d2.addBoth(results.append)
    mb.settle()
    mb.apply({"a": "AppClose", "c": "L"})
    mb.drain()
    closed = any(k == "closed" for k, _ in mb.clients["L"].events)
    mb.shutdown()
    from twisted.python.failure import Failure
    ok = [isinstance(r, Failure) and r.check(OldPeerCannotDilateError) is not None for r in results]
    return {"tid": tid, "results": [type(getattr(r, "value", r)).__name__ for r in results], "ok": len(ok) == 2 and all(ok),
            "closed": bool(closed)}


def run(prop, tier):
    quick = tier == "quick"
    seed = common.seed()
    v = common.Verdict(prop, tier)
    cov = {"tlc_configs": {}, "samples": [], "drift": []}
    INV = ["AtMostOneSelected", "FollowerFollowsLeader", "OnlyBenignInternal", "NoDeadlock", "NothingLeftAfterStop"]
    records, meta = [], {}
    states = transitions = 0
    ndrift = 0
    tid = 0
    with common.Workdir(prop) as wd:
        wd.gen_tables()
        cov["tables"] = wd.tables_info
        both = {"L", "F"}
        if prop == "C11":
            cfgs = {"two_links": (dict(MaxLinks=2, MaxCuts=1, Dilaters=both, AllowStop=set()), []),
                    "three_links_cut": (dict(MaxLinks=3, MaxCuts=1, Dilaters=both, AllowStop=set()), []),
                    # one side cannot be dialled (no_listen=True: behind NAT): the other's hints are the only way to connect
                    "leader_no_listen": (dict(MaxLinks=3, MaxCuts=1, Dilaters=both, AllowStop=set(), NoListen={"L"}), []),
                    "follower_no_listen": (dict(MaxLinks=3, MaxCuts=1, Dilaters=both, AllowStop=set(), NoListen={"F"}), [])}
            if not quick:
                cfgs["four_links_two_cuts"] = (dict(MaxLinks=4, MaxCuts=2, Dilaters=both, AllowStop=set()), [])
            gen = dict(MaxLinks=6, MaxCuts=2, Dilaters=both, AllowStop=set())
        else:
            cfgs = {"stop_L": (dict(MaxLinks=3, MaxCuts=1, Dilaters=both, AllowStop={"L"}), []),
                    "stop_F": (dict(MaxLinks=2, MaxCuts=1, Dilaters=both, AllowStop={"F"}), ["StopCompletes"]),
                    "stop_undilated": (dict(MaxLinks=2, MaxCuts=0, Dilaters={"L"}, AllowStop=both), ["StopCompletes"])}
            if not quick:
                cfgs["stop_both"] = (dict(MaxLinks=3, MaxCuts=1, Dilaters=both, AllowStop=both), [])
            gen = dict(MaxLinks=6, MaxCuts=2, Dilaters=both, AllowStop=both)
        behaviours = []
        gen.setdefault("NoListen", set())
        for name, (consts, props) in cfgs.items():
            consts.setdefault("NoListen", set())
            m = "MC_%s_%s" % (prop, name)
            common.write_model(wd, m, "DilationL3", consts, invariants=INV, properties=props)
            r = tlc.run(m + ".tla", m + ".cfg", cwd=wd.path, timeout=3000)
            cov["tlc_configs"][name] = {"distinct_states": r.distinct, "states_generated": r.generated, "depth": r.depth,
                                        "wall_s": round(r.wall, 1), "result": "ok" if r.ok else (r.violated or "error")}
            states += r.distinct
            transitions += r.generated
            if r.violated:
                behaviours.append(("tlc-cex:" + name, r.trace, consts["NoListen"]))
            elif not r.ok:
                raise RuntimeError("TLC failed on %s: %s" % (m, r.error or r.stdout[-1500:]))
        # supplementary (no listed property): the DilationStatus the application is given agrees with the Manager - checked by TLC
        # here, and compared step by step in every replay (`dstat`); a failure never produces a VIOLATION line
        supp = {}
        sc = dict(MaxLinks=3 if prop == "C17" else 2, MaxCuts=1, Dilaters=both, AllowStop=({"L"} if prop == "C17" else set()), NoListen=set())
        for inv in ("DStatusStopped", "DStatusConnected", "DStatusNone", "DStatusStoppedConverse"):
            common.write_model(wd, "MC_supp_" + inv, "DilationL3", sc, invariants=[inv])
            rs = tlc.run("MC_supp_%s.tla" % inv, "MC_supp_%s.cfg" % inv, cwd=wd.path, timeout=900)
            supp[inv] = "holds (%d states)" % rs.distinct if rs.ok else ("violated: %s" % [st_["last"] for st_ in rs.trace][-3:] if rs.violated else "not decided")
        cov["supplementary"] = {"note": "DilationStatus.peer_connection is modelled in DilationL3.tla (dstat) and compared after every replayed step; "
                                        "DStatusStoppedConverse is known not to hold on the pinned tree (WAITING/WANTING x stop do not report StoppedPeer): "
                                        "an observation outside the listed properties", "model_invariants": supp}
        g = "MC_%s_gen" % prop
        common.write_model(wd, g, "DilationL3", gen)
        simdir = wd.file("sim")
        os.makedirs(simdir)
        tlc.run(g + ".tla", g + ".cfg", cwd=wd.path, workers=6, simulate={"num": (60 if quick else 600) // 6, "file": os.path.join(simdir, "tr")},
                depth=70, seed=seed + 11, timeout=900)
        behaviours += [("tlc-sim", tr, ()) for tr in tlc.read_sim_traces(os.path.join(simdir, "tr"))]
        if prop == "C11":
            for nl in ("L", "F"):
                g2 = "MC_%s_gen_nl%s" % (prop, nl)
                common.write_model(wd, g2, "DilationL3", dict(gen, NoListen={nl}))
                sd = wd.file("sim_nl" + nl)
                os.makedirs(sd)
                tlc.run(g2 + ".tla", g2 + ".cfg", cwd=wd.path, workers=6, simulate={"num": (30 if quick else 300) // 6, "file": os.path.join(sd, "tr")},
                        depth=70, seed=seed + 12, timeout=900)
                behaviours += [("tlc-sim:no_listen=" + nl, tr, (nl,)) for tr in tlc.read_sim_traces(os.path.join(sd, "tr"))]
        # coverage goals: shortest behaviours reaching situations random simulation seldom does; each is then completed
        # fairly on the real stack (run_out) and judged at rest
        goals = {
            "loss_seen_before_accept_L": 'accepts.L # <<>> /\\ links[Head(accepts.L).link].endst.L = "down"',
            "loss_seen_before_accept_F": 'accepts.F # <<>> /\\ links[Head(accepts.F).link].endst.F = "down"',
            "cut_before_accept_F": 'accepts.F # <<>> /\\ links[Head(accepts.F).link].endst.F = "cut"',
            "two_candidates_queued_L": "Len(accepts.L) >= 2",
            "follower_abandoning": 'mgr.F = "ABANDONING"',
            "leader_flushing_follower_connecting": 'mgr.L = "FLUSHING" /\\ mgr.F = "CONNECTING"',
            "follower_lonely": 'mgr.F = "LONELY"',
            "third_generation": "cgen.L >= 3 /\\ cgen.F >= 3",
            "stale_accept_queued": "\\E x \\in Sides : accepts[x] # <<>> /\\ Head(accepts[x]).gen < cgen[x]",
            "reconverged": 'cuts >= 1 /\\ mgr.L = "CONNECTED" /\\ mgr.F = "CONNECTED" /\\ sel.L = sel.F /\\ sel.L > 1',
            "monitor_gave_up": 'last[1] = "MonitorDrop"',
            "monitor_gave_up_follower_already_lost": 'last[1] = "MonitorDrop" /\\ mgr.F # "CONNECTED"',
        }
        if prop == "C17":
            goals = {
                "stop_while_abandoning": 'stopReq.F /\\ last[1] = "Stop" /\\ mgr.F \\in {"ABANDONING", "STOPPING"} /\\ cuts >= 1',
                "stop_with_accept_queued": "\\E x \\in Sides : stopReq[x] /\\ last[1] = \"Stop\" /\\ accepts[x] # <<>>",
                "stop_with_two_links_up": "\\E x \\in Sides : stopReq[x] /\\ last[1] = \"Stop\" /\\ Cardinality({i \\in LinkIds : links[i].endst[x] = \"up\"}) >= 2",
                "stop_while_flushing": 'stopReq.L /\\ last[1] = "Stop" /\\ cuts >= 1 /\\ sel.L = 0 /\\ mgr.L # "CONNECTING"',
                "stop_while_lonely": 'stopReq.F /\\ last[1] = "Stop" /\\ cuts >= 1 /\\ sel.F = 0 /\\ cgen.F = 1',
                "stop_while_dialling": "\\E x \\in Sides : stopReq[x] /\\ last[1] = \"Stop\" /\\ \\E i \\in LinkIds : links[i].phase = \"dial\" /\\ links[i].dialer = x",
                "stop_connected_both": 'stopReq.L /\\ last[1] = "Stop" /\\ sel.L > 0 /\\ sel.F = sel.L',
                "both_stop": "stopReq.L /\\ stopReq.F /\\ nlinks >= 1",
                # the Leader's monitor has given up on a silent peer (disconnect() asked for) and the application closes before
                # the loss of that connection has been seen; the same with the Follower closing
                "stop_after_monitor_gave_up_L": 'stopReq.L /\\ last[1] = "Stop" /\\ last[2] = "L" /\\ cuts >= 1 /\\ sel.L > 0 /\\ links[sel.L].endst.L = "closing" /\\ links[sel.L].endst.F = "up"',
                "stop_after_monitor_gave_up_F": 'stopReq.F /\\ last[1] = "Stop" /\\ last[2] = "F" /\\ cuts >= 1 /\\ sel.L > 0 /\\ links[sel.L].endst.L = "closing" /\\ ~stopReq.L',
                # a connection that has been up for a ping interval (the close itself is added on the real side: then_stop)
                # a connection that died between becoming a candidate and being selected: its Manager holds a dead connection
                # until the queued loss callback runs (closed by L / F / both afterwards, like the keepalive ones)
                "keepalive_selected_dead_L": 'sel.L > 0 /\\ links[sel.L].endst.L = "down" /\\ last[1] = "TurnAccept"',
                "keepalive_selected_dead_F": 'sel.F > 0 /\\ links[sel.F].endst.F = "down" /\\ last[1] = "TurnAccept"',
                "keepalive_first_connection": 'last[1] = "KeepAlive" /\\ cuts = 0',
                "keepalive_after_reconnect": 'last[1] = "KeepAlive" /\\ cuts >= 1',
            }
        wit, unreached = common.witnesses(wd, "DilationL3", dict(MaxLinks=3, MaxCuts=1, Dilaters=both, AllowStop=(both if prop == "C17" else set()), NoListen=set()),
                                          goals, "MC_%s_goal" % prop, timeout=900)
        cov["witness_goals"] = {"reached": [g_ for g_, _ in wit], "unreached": unreached}
        behaviours += [("tlc-witness:" + g_, tr, ()) for g_, tr in wit]
        if prop == "C11":
            # the same situations with one side unable to listen: whoever notices the loss first, the side that can dial must
            # learn the other's new hints
            for nl in ("L", "F"):
                sub = {k: goals[k] for k in ("follower_lonely", "follower_abandoning", "leader_flushing_follower_connecting", "reconverged")}
                wit2, unr2 = common.witnesses(wd, "DilationL3", dict(MaxLinks=3, MaxCuts=1, Dilaters=both, AllowStop=set(), NoListen={nl}),
                                              sub, "MC_%s_goal_nl%s" % (prop, nl), timeout=900)
                cov["witness_goals"]["no_listen_" + nl] = {"reached": [g_ for g_, _ in wit2], "unreached": unr2}
                behaviours += [("tlc-witness:no_listen=%s:%s" % (nl, g_), tr, (nl,)) for g_, tr in wit2]
        for origin, tr, nolisten in list(behaviours):
            if origin.startswith("tlc-witness:keepalive"):
                # the same connection, closed by the Leader's / the Follower's / both applications after that interval
                behaviours.append((origin + "+stop=L", tr, nolisten))
                behaviours.append((origin + "+stop=F", tr, nolisten))
                behaviours.append((origin + "+stop=LF", tr, nolisten))
        for origin, tr, nolisten in behaviours:
            tid += 1
            w, rec, drift = replay_behaviour(tid, tr, no_listen=nolisten, then_stop=tuple(origin.split("+stop=")[1]) if "+stop=" in origin else ())
            rec["origin"] = origin
            rec["oldpeer"] = {"ok": True, "closed": True}
            records.append(rec)
            meta[tid] = {"schedule": w.schedule, "no_listen": sorted(nolisten), "traffic": w.traffic, "frag": w.frag}
            if drift:
                ndrift += 1
                if len(cov["drift"]) < 8:
                    cov["drift"].append(dict(drift, tid=tid, origin=origin, schedule=w.schedule[:drift["step"] + 1], no_listen=sorted(nolisten)))
        for dilate_when in (("first", "after-versions") if prop == "C17" else ()):
            tid += 1
            op = old_peer_case(tid, dilate_when)
            records.append({"tid": tid, "snaps": [], "final": {"L": {"mgr": "-", "ctr": "-", "sel": 0, "role": "-", "closed": op["closed"]},
                                                                 "F": {"mgr": "-", "ctr": "-", "sel": 0, "role": "-", "closed": True}},
                            "internal": [], "benign": 0, "stopCalled": {"L": True, "F": False}, "origin": "old-peer",
                            "specStopped": {"L": True, "F": False}, "convergenceDue": False, "rested": True,
                            "atEnd": {"L": {"mgr": "-", "ctr": "-", "sel": 0, "role": "-", "closed": op["closed"]},
                                      "F": {"mgr": "-", "ctr": "-", "sel": 0, "role": "-", "closed": True}},
                            "restStopDue": {"L": False, "F": False}, "restConvergenceDue": False,
                            "oldpeer": {"ok": op["ok"], "closed": op["closed"]}})
            meta[tid] = {"schedule": [["old-peer-case", dilate_when]], "results": op["results"]}
        # family: the relay is the only path (nobody can be dialled), known to one side or both; reconnects through it
        nrelay = 0
        for has in (("L",), ("F",), ("L", "F")):
            for cuts in ((1, 2) if quick else (0, 1, 2, 3)):
                for uf in (False, True):
                    tid += 1
                    nrelay += 1
                    w, rec = relay_case(tid, has, cuts, uf)
                    rec["origin"], rec["config"] = "family:relay-only", "relay"
                    rec.setdefault("oldpeer", {"ok": True, "closed": True})
                    records.append(rec)
                    meta[tid] = {"schedule": w.schedule, "no_listen": ["F", "L"], "traffic": False, "frag": 0}
        for has in ((("L", "F"),) if quick else (("L",), ("F",), ("L", "F"))):
            for cuts in (1,) if quick else (0, 1, 2):
                for uf in (False, True):
                    for rev in (False, True):
                        tid += 1
                        nrelay += 1
                        w, rec = relay_case(tid, has, cuts, uf, join=True, rev=rev)
                        rec["origin"], rec["config"] = "family:relay-only-joined", "relay"
                        rec.setdefault("oldpeer", {"ok": True, "closed": True})
                        records.append(rec)
                        meta[tid] = {"schedule": w.schedule, "no_listen": ["F", "L"], "traffic": False, "frag": 0}
        cov["relay_only_cases"] = nrelay
        # family: reconnect (either side noticing first, once or twice), then close (either side, both)
        nrc = 0
        for first in ("L", "F"):
            for closers in (("L",), ("F",), ("L", "F"), ("F", "L")):
                for ncuts in (1, 2):
                    tid += 1
                    nrc += 1
                    w, rec = reconnect_then_close_case(tid, first, closers, ncuts)
                    rec["origin"], rec["config"] = "family:reconnect-then-close", "full"
                    rec.setdefault("oldpeer", {"ok": True, "closed": True})
                    records.append(rec)
                    meta[tid] = {"schedule": w.schedule, "no_listen": [], "traffic": False, "frag": 0}
        cov["reconnect_then_close_cases"] = nrc
        # family: a peer of another build (no Dilation version in common) that dilates all the same; then close
        ninc = 0
        for odd in ("L", "F"):
            for closers in ((("L", "F"), ("F",)) if quick else (("L",), ("F",), ("L", "F"), ("F", "L"))):
                for cut in (False, True):
                    tid += 1
                    ninc += 1
                    w, rec = incompatible_peer_case(tid, odd, closers, cut)
                    rec["origin"], rec["config"] = "family:incompatible-peer", "full"
                    rec.setdefault("oldpeer", {"ok": True, "closed": True})
                    records.append(rec)
                    meta[tid] = {"schedule": w.schedule, "no_listen": [], "traffic": False, "frag": 0}
        cov["incompatible_peer_cases"] = ninc
        # family: a wormhole that closes by itself (undecryptable peer message) while dilated
        nsc = 0
        for victim in ("L", "F"):
            for after_cut in (False, True):
                tid += 1
                nsc += 1
                w, rec = scared_close_case(tid, victim, after_cut)
                rec["origin"], rec["config"] = "family:scared-close", "full"
                rec.setdefault("oldpeer", {"ok": True, "closed": True})
                records.append(rec)
                meta[tid] = {"schedule": w.schedule, "no_listen": [], "traffic": False, "frag": 0}
        cov["scared_close_cases"] = nsc
        # family: many generations on one pair of wormholes
        ngen = 0
        for ncuts, pattern in (((7, "LF"), (6, "F")) if quick else ((7, "LF"), (6, "F"), (12, "L"), (9, "FFL"))):
            tid += 1
            ngen += 1
            w, rec = generations_case(tid, ncuts, pattern)
            rec["origin"], rec["config"] = "family:generations", "full"
            rec.setdefault("oldpeer", {"ok": True, "closed": True})
            records.append(rec)
            meta[tid] = {"schedule": w.schedule, "no_listen": [], "traffic": False, "frag": 0}
            cov.setdefault("generations_reconverged", []).append([ncuts, pattern, rec["reconverged"]])
        cov["generations_cases"] = ngen
        path = wd.file("obs.ndjson")
        with open(path, "w") as f:
            for rec in records:
                f.write(json.dumps(rec) + "\n")
        with open(wd.file("MC_L3Obs.cfg"), "w") as f:
            f.write("SPECIFICATION Spec\nCHECK_DEADLOCK FALSE\n")
        with open(wd.file("MC_L3Obs.tla"), "w") as f:
            f.write("---- MODULE MC_L3Obs ----\nEXTENDS DilationL3Obs\n====\n")
        r = tlc.run("MC_L3Obs.tla", "MC_L3Obs.cfg", workers=1, cwd=wd.path, env={"OBS_FILE": path}, timeout=1800)
        verdicts = {t[1]: dict(zip(OBS_NAMES, t[2])) for t in tlc.printed_tuples(r.stdout, "OBS")}
        if len(verdicts) != len(records):
            raise RuntimeError("observer evaluated %d of %d runs\n%s" % (len(verdicts), len(records), r.stdout[-2500:]))
    decides = {"C11": ["RolesAgree", "AtMostOneSelected", "FollowerFollowsLeader", "Converged", "NoInternal"],
               "C17": ["StopCompletes", "NothingLeft", "OldPeerReported", "NoInternal"]}[prop]
    failing = 0
    distinct = set()
    for rec in records:
        distinct.add(json.dumps(meta[rec["tid"]]["schedule"]))
        bad = [n for n in decides if not verdicts[rec["tid"]][n]]
        if bad:
            failing += 1
            v.violation({"clause": bad[0]}, "%s fails on the full Dilation stack: final %s ; internal %s ; schedule %s" % (
                ",".join(bad), json.dumps(rec["final"]), rec["internal"][:2], json.dumps(meta[rec["tid"]]["schedule"])[:400]),
                dict(meta[rec["tid"]], observation={k: rec[k] for k in ("final", "internal", "stopCalled", "oldpeer")}))
    cov.update(states=states, transitions=transitions, traces_validated_against_impl=len(records), evaluations=len(records),
               distinct_nontrivial=len(distinct), failing_runs=failing, replay_drift_count=ndrift,
               benign_internal_errors_seen=sum(rec["benign"] for rec in records),
               exercised={"convergence_due_by_spec": sum(1 for r_ in records if r_["convergenceDue"]),
                          "convergence_due_at_rest": sum(1 for r_ in records if r_["restConvergenceDue"]),
                          "stop_due_by_spec": sum(1 for r_ in records for n in ("L", "F") if r_["specStopped"][n]),
                          "stop_due_at_rest": sum(1 for r_ in records for n in ("L", "F") if r_["restStopDue"][n]),
                          "came_to_rest": sum(1 for r_ in records if r_["rested"])},
               rule="a run = one TLC behaviour of DilationL3.tla executed on two real dilating wormholes (mailbox twin, simulated TCP, "
                    "Noise stand-in); distinct = distinct action sequences; all involve several candidate links, cuts or stops")
    cov["samples"] = [{"schedule": meta[rec["tid"]]["schedule"][:50], "final": rec["final"]} for rec in records[:2]]
    return v.finish(cov, assumptions=[
        "mailbox control messages are FIFO per sender; the versions message precedes the peer's dilation messages",
        "NoTransition on a *stopped* Connector (queued accept / late KCM) is logged by the real code and has no further effect: "
        "reported in evidence, not judged (DESIGN 3.1)",
        "Noise stand-in; no relay; sides listen on 127.0.0.1 (configurations with one side no_listen=True included for C11)"])


def replay(prop, path):
    d = json.load(open(path))["replay"]
    print(json.dumps(d["schedule"]))
    print(json.dumps(d["observation"], indent=1)[:2500])
    return 0
