"""C07 - Transit picks exactly one connection, chosen by the sender, key holders only.

spec/Transit.tla is model-checked by TLC for several contender configurations; its behaviours are
replayed on a real TransitSender / TransitReceiver pair on the simulated TCP fabric (real listeners,
real dials, a scripted relay, scripted strangers and wrong-key peers), comparing the negotiation state of
every connection end after each step; TransitSelObs.tla decides on the recorded executions.
"""
import json
import os
import random

from .. import common, tlc, sim
from ..common import Raw
from .transit import reactor, Logged, transit, log

from twisted.internet import protocol  # noqa: E402
from twisted.python.failure import Failure  # noqa: E402

KEY = b"k" * 32
OTHERKEY = b"x" * 32
RELAY_PORT = 4001

UNIT_BYTES = {
    "SH": transit.build_sender_handshake(KEY), "RH": transit.build_receiver_handshake(KEY),
    "SHx": transit.build_sender_handshake(OTHERKEY), "RHx": transit.build_receiver_handshake(OTHERKEY),
    "go": b"go\n", "nevermind": b"nevermind\n", "junk": b"GET / HTTP/1.0\r\n\r\n", "ok": b"ok\n",
}


def classify(data):
    for u, b in UNIT_BYTES.items():
        if data == b:
            return u
    if data.startswith(b"please relay "):
        return "PR"
    return "other:" + data[:12].hex()


class RelayStub(protocol.Protocol):
    """Transit relay: pairs the two connections that ask for the same token, says ok, then forwards."""
    waiting = {}

    def connectionMade(self):
        self.buf = b""
        self.peer = None
        self.token = None

    def dataReceived(self, data):
        if self.peer is not None:
            self.peer.transport.write(data)
            return
        self.buf += data
        if self.token is None and b"\n" in self.buf:
            line, self.buf = self.buf.split(b"\n", 1)
            self.token = line.split(b" ")[2]
            other = type(self).waiting.pop(self.token, None)
            if other is None:
                type(self).waiting[self.token] = self
            else:
                self.peer, other.peer = other, self
                for x in (self, other):
                    x.transport.write(b"ok\n")
                    if x.buf:
                        x.peer.transport.write(x.buf)
                        x.buf = b""

    def connectionLost(self, reason=None):
        if self.peer is not None and self.peer.transport.connected:
            self.peer.transport.loseConnection()


class Stranger(protocol.Protocol):
    def dataReceived(self, data):
        pass


class StrangerFactory(protocol.ClientFactory):
    protocol = Stranger


def unwrap(p):
    return getattr(p, "_wrappedProtocol", p)


class SelWorld:
    def __init__(self, kinds, scripts, rng):
        reactor.reset()
        RelayStub.waiting = {}
        self.kinds, self.scripts, self.rng = kinds, scripts, rng
        self.logged = Logged()
        log.addObserver(self.logged)
        relays = sorted(l for l, k in kinds.items() if k == "relay")
        # one relay: both parties are configured with it.  Two relays: each party has its own and learns the other's
        # from the peer's hints, so both dial both (two relay contenders of equal priority)
        self.relay_port = {l: RELAY_PORT + i for i, l in enumerate(relays)}
        relay = "tcp:10.9.9.9:%d" % RELAY_PORT if relays else None
        relay_r = "tcp:10.9.9.10:%d" % (RELAY_PORT + 1) if len(relays) > 1 else relay
        nl = scripts.get("_no_listen", ())       # parties created with no_listen=True (configuration rides in `scripts`)
        self.S = transit.TransitSender(relay, no_listen="S" in nl, reactor=reactor)
        self.R = transit.TransitReceiver(relay_r, no_listen="R" in nl, reactor=reactor)
        self.S.set_transit_key(KEY)
        self.R.set_transit_key(KEY)
        # another transfer of the same process (another wormhole, another key) is being set up meanwhile: nothing of it may
        # show in this one
        self.bystander = transit.TransitReceiver(None, no_listen=True, reactor=reactor)
        self.bystander.set_transit_key(OTHERKEY)
        hs, hr = [], []
        self.S.get_connection_hints().addCallback(hs.append)
        self.R.get_connection_hints().addCallback(hr.append)
        self.portS = ([h["port"] for h in hs[0] if h["type"] == "direct-tcp-v1"] + [None])[0]
        self.portR = ([h["port"] for h in hr[0] if h["type"] == "direct-tcp-v1"] + [None])[0]
        for l in relays:
            f = protocol.Factory.forProtocol(type("RelayStub_" + l, (RelayStub,), {"waiting": {}}))
            reactor.listenTCP(self.relay_port[l], f)
        if len(relays) > 1:
            self.S.add_connection_hints([h for h in hr[0] if h["type"] == "relay-v1"])
            self.R.add_connection_hints([h for h in hs[0] if h["type"] == "relay-v1"])
        # a relay that is the outsider: the party was given a hint for it (with the peer's hints); it answers as scripted
        self.evil_port = {}
        for i, l in enumerate(sorted(l for l, k in kinds.items() if k.startswith("evilrelay"))):
            port = RELAY_PORT + 100 + i
            self.evil_port[l] = port
            reactor.listenTCP(port, protocol.Factory.forProtocol(Stranger))
            (self.S if kinds[l].endswith("S") else self.R).add_connection_hints(
                [{"type": "relay-v1", "hints": [{"type": "direct-tcp-v1", "hostname": "10.9.9.%d" % (66 + i), "port": port, "priority": 0.0}]}])
        self.out_end = {}
        if "s2r" in kinds.values():
            self.S.add_connection_hints([h for h in hr[0] if h["type"] == "direct-tcp-v1"])
        if "r2s" in kinds.values():
            self.R.add_connection_hints([h for h in hs[0] if h["type"] == "direct-tcp-v1"])
        self.party = {"S": self.S, "R": self.R}
        self.results = {}
        self.links = {}          # model link -> {"S": (SimLink, end) or None, "R": ...}
        self.got = {l: {"S": [], "R": []} for l in kinds}
        self.part = {l: {"S": False, "R": False} for l in kinds}
        self.deadline = {"S": False, "R": False}
        self.deadline_call = {}
        self.started = set()
        self.t0p = {}
        self.strangers = {}
        self.schedule = []
        self.script_pos = {l: 0 for l in kinds}
        self.t0 = reactor.seconds()
        self.result_time = {}

    # ---- helpers
    def _attempts_to(self, port, owner=None):
        out = []
        for c in reactor.pending_attempts():
            if c.port != port:
                continue
            f = c.factory
            own = getattr(getattr(f, "_wrappedFactory", f), "owner", None)
            if owner is None or own is owner:
                out.append(c)
        return out

    def _run_timers_until(self, pred, limit=10.0):
        t0 = reactor.seconds()
        for _ in range(200):
            if pred():
                return True
            fut = [c for c in reactor.getDelayedCalls() if c.getTime() <= t0 + limit]
            if not fut:
                return pred()
            reactor._sortCalls()
            reactor.run_call(reactor.calls[0])
        return pred()

    def end(self, l, p):
        """(SimLink, index of p's end) for model link l"""
        return self.links.get(l, {}).get(p)

    def conn(self, l, p):
        e = self.end(l, p)
        if e is None:
            return None
        link, i = e
        return unwrap(link.ends[i].protocol)

    # ---- model actions
    def do(self, la, prev=None):
        a, x, y = la
        self.prev = prev
        self.schedule.append(list(la))
        getattr(self, "_" + a)(x, y)
        for dc in list(reactor.due()):
            # deadline-class timers (per-connection TIMEOUT, _not_forever) fire only in Deadline actions
            if getattr(dc.func, "__name__", "") == "cancel" or hasattr(getattr(dc.func, "__self__", None), "owner"):
                continue
            if dc in reactor.calls:
                reactor.run_call(dc)
        for p in ("S", "R"):
            if p in self.results and p not in self.result_time:
                self.result_time[p] = reactor.seconds() - self.t0p.get(p, self.t0)

    def _Start(self, p, y):
        self.t0p[p] = reactor.seconds()
        self.started.add(p)
        before = set(id(c) for c in reactor.calls)
        try:
            self.party[p].connect().addBoth(lambda r, p=p: self.results.__setitem__(p, r))
        except Exception as e:          # connect() must return a Deferred, whatever has happened before
            self.results[p] = Failure(e)
        new = [c for c in reactor.calls if id(c) not in before and getattr(c.func, "__name__", "") == "cancel"]
        self.deadline_call[p] = new[0] if new else None

    def _Established(self, l, y):
        k = self.kinds[l]
        if k == "s2r":
            link = reactor.complete(self._attempts_to(self.portR, self.S)[0])
            self.links[l] = {"S": (link, 0), "R": (link, 1)}
        elif k == "r2s":
            link = reactor.complete(self._attempts_to(self.portS, self.R)[0])
            self.links[l] = {"R": (link, 0), "S": (link, 1)}
        elif k == "relay":
            port = self.relay_port[l]
            self._run_timers_until(lambda: len(self._attempts_to(port, self.S)) > 0 and len(self._attempts_to(port, self.R)) > 0)
            ls = reactor.complete(self._attempts_to(port, self.S)[0])
            lr = reactor.complete(self._attempts_to(port, self.R)[0])
            self.links[l] = {"S": (ls, 0), "R": (lr, 0)}
        elif k.startswith("evilrelay"):
            port, owner = self.evil_port[l], (self.S if k.endswith("S") else self.R)
            self._run_timers_until(lambda: len(self._attempts_to(port, owner)) > 0)
            link = reactor.complete(self._attempts_to(port, owner)[0])
            self.strangers[l] = link
            self.out_end[l] = 1
            self.links[l] = {("S" if k.endswith("S") else "R"): (link, 0)}
        else:
            port = self.portS if k.endswith("S") else self.portR
            c = reactor.connectTCP("127.0.0.1", port, StrangerFactory())
            link = reactor.complete(c)
            self.strangers[l] = link
            self.links[l] = {("S" if k.endswith("S") else "R"): (link, 1)}
        self._check_links(l)

    def _LateDial(self, l, y):
        """an outsider dials a party that is done: its listener must be closed by now (connection refused)"""
        k = self.kinds[l]
        port = self.portS if k.endswith("S") else self.portR
        c = reactor.connectTCP("127.0.0.1", port, StrangerFactory())
        link = reactor.complete(c)
        if link is not None:
            # accepted after all: from here on it is one more connection of that party, and is judged as such
            self.strangers[l] = link
            self.links[l] = {("S" if k.endswith("S") else "R"): (link, 1)}

    def _check_links(self, l):
        for p, e in list(self.links.get(l, {}).items()):
            if e[0] is None:
                del self.links[l]
                raise RuntimeError("connection attempt of link %s was refused (no listener)" % l)

    def _forward_relay(self, l):
        """party -> relay hops are instantaneous in the model"""
        for p in ("S", "R"):
            e = self.end(l, p)
            if e is None:
                continue
            link, i = e
            while link.can_deliver(i):
                link.deliver(i)

    def _RelayOk(self, l, y):
        self._forward_relay(l)

    def _src(self, l, p):
        """transport whose .out holds the units in flight towards p's end of l"""
        link, i = self.end(l, p)
        return link, 1 - i

    def _Deliver(self, l, p):
        if self.kinds[l] == "relay":
            self._forward_relay(l)
        link, frm = self._src(l, p)
        unit = link.ends[frm].out[0]
        try:
            link.deliver(frm)
        except sim._ProtocolRaised:
            link.do_cut()
            link.observe_loss(1 - frm)
        whole = classify(unit) if not self.part[l][p] else self.part[l][p]
        self.part[l][p] = False
        self.got[l][p].append(whole)
        if self.kinds[l] == "relay":
            self._forward_relay(l)

    def _DeliverJoined(self, l, p):
        """the two oldest units towards p's end arrive in one read"""
        if self.kinds[l] == "relay":
            self._forward_relay(l)
        link, frm = self._src(l, p)
        out = link.ends[frm].out
        u1, u2 = classify(out[0]), classify(out[1])
        out[0:2] = [out[0] + out[1]]
        try:
            link.deliver(frm)
        except sim._ProtocolRaised:
            link.do_cut()
            link.observe_loss(1 - frm)
        self.got[l][p] += [u1, u2]
        if self.kinds[l] == "relay":
            self._forward_relay(l)

    def _DeliverPart(self, l, p):
        if self.kinds[l] == "relay":
            self._forward_relay(l)
        link, frm = self._src(l, p)
        unit = link.ends[frm].out[0]
        k = self.rng.randrange(1, len(unit)) if len(unit) > 1 else 1
        if classify(unit) in ("SHx", "RHx"):
            k = min(k, 10)          # stay inside the textual prefix the two keys' handshakes share
        self.part[l][p] = classify(unit)
        try:
            link.deliver(frm, k)
        except sim._ProtocolRaised:
            link.do_cut()
            link.observe_loss(1 - frm)

    def _OutsiderSend(self, l, y):
        u = self.scripts[l][self.script_pos[l]]
        self.script_pos[l] += 1
        self.strangers[l].ends[self.out_end.get(l, 0)].write(UNIT_BYTES[u])

    def _PeerGone(self, l, p):
        link, i = self.end(l, p)
        other = 1 - i
        if self.kinds[l] == "relay":
            q = "R" if p == "S" else "S"
            ol, oi = self.end(l, q)
            if ol.ends[oi].disconnecting and ol.alive[oi]:
                ol.finish_close(oi)
                if ol.can_observe_loss(1 - oi):
                    ol.observe_loss(1 - oi)       # the stub sees it and closes the other leg
        # the model says whether this is an orderly close (nothing left in flight) or a cut
        inflight = bool(self.prev and self.prev["wire"][l]["toS" if p == "S" else "toR"])
        if link.ends[other].disconnecting and link.alive[other] and not link.cut and not inflight:
            while link.can_deliver(other):
                link.deliver(other)
            link.finish_close(other)
        elif not link.cut:
            link.do_cut()
        if link.can_observe_loss(i):
            link.observe_loss(i)

    def _Deadline(self, p, y):
        """p's per-connection TIMEOUT timers and then its 2*TIMEOUT _not_forever timer fire"""
        self.deadline[p] = True
        owner = self.party[p]
        for _ in range(100):
            mine = [dc for dc in reactor.calls
                    if getattr(getattr(dc.func, "__self__", None), "owner", None) is owner]
            if not mine:
                break
            reactor.run_call(mine[0])
        dc = self.deadline_call.get(p)
        if dc is not None and dc in reactor.calls:
            reactor.run_call(dc)

    # ---- observation
    def state_of(self, l, p):
        c = self.conn(l, p)
        if c is None:
            return "-"
        link, i = self.end(l, p)
        t = link.ends[i]
        if c.state == "hung up" or t.disconnecting:
            return "hung up"
        if not t.connected:
            return "lost"
        return c.state

    def coarse(self, s):
        return "down" if s in ("hung up", "lost") else s

    def sent_units(self, l, p):
        e = self.end(l, p)
        if e is None:
            return []
        link, i = e
        return [classify(d) for d in link.ends[i].history]

    def result_link(self, p):
        r = self.results.get(p)
        if r is None:
            return "-"
        if isinstance(r, Failure):
            return "failed"
        for l in self.kinds:
            if self.conn(l, p) is r:
                return l
        return "unknown-connection"

    def record(self, tid):
        internal = []
        for e in self.logged.items:
            n = type(e).__name__
            if n not in ("BadHandshake", "ConnectionDone", "ConnectionLost", "CancelledError", "ConnectionRefusedError",
                         "ConnectingCancelledError", "TransitError", "ConnectionClosed"):
                internal.append("%s: %s" % (n, str(e)[:100]))
        for p in ("S", "R"):
            r = self.results.get(p)
            # connect() may fail (no contender succeeded: the last contender's error); a programming error is not that
            if isinstance(r, Failure) and isinstance(r.value, (RuntimeError, TypeError, AttributeError, LookupError, AssertionError,
                                                                  NameError, ArithmeticError)):
                internal.append("connect() of %s failed with %s: %s" % (p, type(r.value).__name__, str(r.value)[:80]))
        # the link both connect() calls returned stays what they returned: with nothing else happening for three negotiation
        # time-outs (every timer that is due fires) it is still up at both ends
        stays = True
        ls, lr = self.result_link("S"), self.result_link("R")
        if ls in self.kinds and ls == lr and self.state_of(ls, "S") == "records" and self.state_of(ls, "R") == "records":
            t0 = reactor.seconds()
            for _ in range(2000):
                fut = [dc for dc in reactor.future() if dc.getTime() <= t0 + 200.0]
                if not fut:
                    break
                try:
                    reactor.run_call(fut[0])
                except Exception as e:
                    internal.append("timer after selection: %s: %s" % (type(e).__name__, str(e)[:80]))
            stays = self.state_of(ls, "S") == "records" and self.state_of(ls, "R") == "records"
        log.removeObserver(self.logged)
        rec = {"tid": tid, "selectedStays": stays, "honestDue": bool(getattr(self, "honest_due", False)), "l": {}, "startedS": "S" in self.started, "startedR": "R" in self.started, "resultS": self.result_link("S"), "resultR": self.result_link("R"),
               "deadlineS": self.deadline["S"], "deadlineR": self.deadline["R"], "internal": internal,
               "resultTime": self.result_time}
        for l, k in self.kinds.items():
            rec["l"][l] = {"kind": k, "sentS": self.sent_units(l, "S"), "gotS": self.got[l]["S"],
                           "sentR": self.sent_units(l, "R"), "gotR": self.got[l]["R"],
                           "stS": self.state_of(l, "S"), "stR": self.state_of(l, "R")}
        return rec


CONFIGS = {
    "two_direct": ({"a": "s2r", "b": "r2s"}, {}),
    "direct_relay": ({"a": "s2r", "c": "relay"}, {}),
    "relay_only": ({"c": "relay"}, {}),
    "strangers": ({"a": "s2r", "x": "strangerS", "y": "wrongkeyR"}, {"x": ["junk"], "y": ["SHx", "go"]}),
    "strangers2": ({"b": "r2s", "x": "wrongkeyS", "y": "strangerR"}, {"x": ["RHx"], "y": ["go", "junk"]}),
    "only_strangers": ({"x": "wrongkeyS", "y": "wrongkeyR"}, {"x": ["RHx"], "y": ["SHx", "go"]}),
    "three": ({"a": "s2r", "b": "r2s", "c": "relay"}, {}),
    # each party has its own relay: two relay contenders of equal priority on both sides
    "two_relays": ({"c": "relay", "d": "relay"}, {}),
    # without a listener on one side (no_listen=True): that party can only dial
    "sender_no_listen": ({"a": "s2r", "c": "relay", "y": "wrongkeyR"}, {"y": ["SHx", "go"], "_no_listen": ("S",)}),
    "receiver_no_listen": ({"b": "r2s", "c": "relay", "x": "wrongkeyS"}, {"x": ["RHx"], "_no_listen": ("R",)}),
    # a relay that is not honest: after its "ok" it sends what a party without the key can send
    "evil_relay": ({"a": "s2r", "e": "evilrelayS", "f": "evilrelayR"}, {"e": ["ok", "RHx"], "f": ["ok", "SHx", "go"]}),
    "evil_relay2": ({"b": "r2s", "e": "evilrelayS", "f": "evilrelayR"}, {"e": ["ok", "junk"], "f": ["junk"]}),
    # a sender of another implementation (a key holder) that takes the protocol's losing branch towards R
    "alt_sender": ({"a": "s2r", "y": "altsenderR"}, {"y": ["SH", "nevermind"]}),
    # a crowd at the sender's listener: idle strangers (they connect and say nothing) next to the one honest contender
    "crowd": ({"b": "r2s", "x1": "strangerS", "x2": "strangerS", "x3": "strangerS", "x4": "strangerS", "x5": "strangerS",
               "x6": "strangerS"}, {}),
}
NO_CUT = ("three", "crowd")

INVARIANTS = ["AtMostOneGo", "GoOnlyAfterRH", "ReceiverNeedsGo", "SameLink", "KeyHoldersOnly", "ResultIsRecords", "OthersClosed",
              "DeadlineDecides", "WinnerReturned", "HonestWins"]
OBS_NAMES = ["AtMostOneGo", "GoOnlyAfterRH", "ReceiverNeedsGo", "SameLink", "KeyHoldersOnly", "OthersClosed", "Deadline", "NoInternal",
             "WinnerReturned", "HonestWins"]


GOALS = {
    # S said nevermind somewhere (a second complete receiver handshake after the choice)
    "nevermind_sent": "\\E l \\in Links : \\E i \\in 1..Len(sent[l].S) : sent[l].S[i] = \"nevermind\"",
    # an early inbound winner, and connect() called afterwards on that party
    "early_winner_then_start": "winner # \"-\" /\\ started.S /\\ last[1] = \"Start\" /\\ last[2] = \"S\"",
    "early_rwin_then_start": "rwin # \"-\" /\\ started.R /\\ last[1] = \"Start\" /\\ last[2] = \"R\"",
    # the winner's connection is lost after the choice
    "winner_lost": "winner # \"-\" /\\ st[winner].S = \"lost\"",
    # a deadline with a half-delivered unit pending
    "deadline_with_partial": "\\E p \\in Party : deadline[p] /\\ \\E l \\in Links : buf[l][p] = \"part\"",
    # units coalesced by the network: handshake and decision in one read at R, both parties then hold the link; the relay's ok and
    # the peer's handshake in one read
    "joined_go_then_both": "last[1] = \"DeliverJoined\" /\\ last[3] = \"R\" /\\ result.R \\in Links /\\ result.S = result.R",
    "joined_at_S": "last[1] = \"DeliverJoined\" /\\ last[3] = \"S\" /\\ result.S \\in Links",
    # units coalesced on a link whose far end is an outsider
    "joined_from_outsider_S": "last[1] = \"DeliverJoined\" /\\ last[3] = \"S\" /\\ ~Honest(last[2])",
    "joined_from_outsider_R": "last[1] = \"DeliverJoined\" /\\ last[3] = \"R\" /\\ ~Honest(last[2])",
    # both failed
    "both_failed": "result.S = \"failed\" /\\ result.R = \"failed\"",
    # one has a link, the other failed
    "split_outcome": "(result.S \\in Links /\\ result.R = \"failed\") \\/ (result.R \\in Links /\\ result.S = \"failed\")",
}


HONEST = ("s2r", "r2s", "relay")
SEL_T_PROJ = ('[st |-> [l \\in Links |-> [S |-> IF st[l].S \\in {"hung up", "lost"} THEN "down" ELSE st[l].S, '
              'R |-> IF st[l].R \\in {"hung up", "lost"} THEN "down" ELSE st[l].R]], '
              'result |-> result, started |-> started, deadline |-> deadline]')


def sel_projection(w):
    return {"st": {l: {p: w.coarse(w.state_of(l, p)) for p in ("S", "R")} for l in w.kinds},
            "result": {p: w.result_link(p) for p in ("S", "R")},
            "started": {p: p in w.started for p in ("S", "R")}, "deadline": dict(w.deadline)}


def sel_wire(w):
    """units in flight towards each of our ends, shaped like the model's `wire` (what _PeerGone wants to know)"""
    out = {}
    for l in w.kinds:
        out[l] = {"toS": [], "toR": []}
        for p in ("S", "R"):
            e = w.end(l, p)
            if e is not None and e[0] is not None and e[0].ends[1 - e[1]] is not None and not e[0].cut:
                out[l]["to" + p] = list(e[0].ends[1 - e[1]].out)
    return out


def sel_enabled(w, cut, partial, faults=True):
    """environment actions the real parties offer right now (no relay kinds: the walks use the other configurations)"""
    acts = []

    def listening(p):
        port = w.portS if p == "S" else w.portR
        lp = reactor.listeners.get(port)
        return port is not None and lp is not None and lp.listening
    for p in ("S", "R"):
        if p not in w.started:
            acts += [("Start", p, "-")] * 2
        elif faults and not w.deadline[p] and p not in w.results:
            acts.append(("Deadline", p, "-"))
    for l, k in w.kinds.items():
        if l not in w.links:
            if k == "s2r":
                if "S" in w.started and w._attempts_to(w.portR, w.S) and listening("R"):
                    acts += [("Established", l, "-")] * 2
            elif k == "r2s":
                if "R" in w.started and w._attempts_to(w.portS, w.R) and listening("S"):
                    acts += [("Established", l, "-")] * 2
            elif k in ("strangerS", "wrongkeyS", "strangerR", "wrongkeyR", "altsenderR"):
                p = "S" if k.endswith("S") else "R"
                if listening(p):
                    acts += [("Established", l, "-")] * 2
                elif l not in getattr(w, "late_dialled", ()):
                    acts.append(("LateDial", l, "-"))
            continue
        for p in ("S", "R"):
            e = w.end(l, p)
            if e is None:
                continue
            link, i = e
            live = w.coarse(w.state_of(l, p)) not in ("down", "-")
            if live and link.can_deliver(1 - i):
                acts += [("Deliver", l, p)] * 4
                c = w.conn(l, p)
                if partial and faults and not w.part[l][p] and getattr(c, "state", "") in ("relay", "handshake", "wait-for-decision") \
                        and len(link.ends[1 - i].out[0]) > 1:
                    acts.append(("DeliverPart", l, p))
            if live and link.alive[i]:
                far = link.ends[1 - i]
                orderly = k in HONEST and far is not None and (far.disconnecting or not far.connected) and not far.out
                if orderly:
                    acts += [("PeerGone", l, p)] * 2
                elif cut and faults:
                    acts.append(("PeerGone", l, p))
        if k not in HONEST and w.script_pos[l] < len(w.scripts.get(l, ())):
            acts += [("OutsiderSend", l, "-")] * 2
    return acts


def sel_walk(tid, kinds, scripts, cut, partial, rng, nsteps=30, policy=None):
    """Code -> spec for C07: a seeded walk over what a real TransitSender / TransitReceiver pair and the network around them
    offer (the walk never consults the model), recorded step by step for validation against Transit.tla; after the random
    part everything that was written is delivered, with no further faults, and the run is judged where it comes to rest."""
    w = SelWorld(kinds, scripts, rng)
    lines = []
    env_cut = env_deadline = False

    def step(la):
        nonlocal env_cut, env_deadline
        if la[0] == "PeerGone":
            e = w.end(la[1], la[2])
            far = e[0].ends[1 - e[1]]
            if not (kinds[la[1]] in HONEST and far is not None and (far.disconnecting or not far.connected) and not far.out):
                env_cut = True
        if la[0] == "Deadline":
            env_deadline = True
        if la[0] == "LateDial":
            w.late_dialled = set(getattr(w, "late_dialled", ())) | {la[1]}
        w.do(tuple(la), prev={"wire": sel_wire(w)})
        lines.append({"a": list(la), "proj": sel_projection(w)})
    for n in range(nsteps):
        acts = sel_enabled(w, cut, partial)
        if not acts:
            break
        la = policy(w, acts, n) if policy is not None else rng.choice(acts)
        if la is None:
            break
        step(la)
    # fair completion: no cuts, no partial units, no deadline while anything else can still happen
    for _ in range(200):
        acts = [a for a in sel_enabled(w, False, False, faults=False) if a[0] != "LateDial"]
        if not acts:
            break
        step(acts[0] if policy is not None else rng.choice(acts))
    honest_up = any(kinds[l] in HONEST for l in w.links)
    w.honest_due = honest_up and not env_cut and not env_deadline and w.started == {"S", "R"}
    return w, lines


def late_handshake_case(tid, who):
    """A party gives up (its deadline strikes, its contenders are cancelled: the transport has been told to close, connectionLost
    has not come yet) and the peer's handshake arrives in just that gap - on a transport whose close is asynchronous (TLS, Tor, a
    wrapping transport), which still hands over what arrives in between.  A cancelled contender must stay cancelled: no `go` after
    connect() has failed, no winner nobody is told about."""
    kinds = {"a": "s2r"}
    w = SelWorld(kinds, {}, random.Random(tid))
    w.do(("Start", "S", "-"))
    w.do(("Start", "R", "-"))
    w.do(("Established", "a", "-"))
    if who == "S":
        w.do(("Deliver", "a", "R"))          # the sender's handshake reaches the receiver, which answers
    w.do(("Deadline", who, "-"))
    link, frm = w._src("a", who)
    t = link.ends[1 - frm]
    forced = 0
    while link.ends[frm].out and link.alive[1 - frm] and t.connected and forced < 3:
        unit = link.ends[frm].out.pop(0)
        forced += 1
        try:
            reactor.call_protocol(t.protocol.dataReceived, unit)
        except sim._ProtocolRaised:
            break
        w.got["a"][who].append(classify(unit))
    w.schedule.append(["ForcedDeliverInClosingGap", "a", who, forced])
    for _ in range(200):
        acts = [a for a in sel_enabled(w, False, False, faults=False) if a[0] != "LateDial"]
        if not acts:
            break
        w.do(acts[0])
    return w, forced


def crowd_policy(w, acts, n):
    """every idle stranger gets in first, then both parties start and the honest contender arrives"""
    for want in ("Established",):
        for a in acts:
            if a[0] == want and w.kinds[a[1]] not in HONEST:
                return a
    for a in acts:
        if a[0] == "Start":
            return a
    for a in acts:
        if a[0] == "Established":
            return a
    return None


def consts_for(kinds, scripts, cut, partial):
    return dict(Links=set(kinds), Kind=Raw("[" + ", ".join('%s |-> "%s"' % (l, k) for l, k in kinds.items()) + "]"),
                Script=Raw("[" + ", ".join("%s |-> %s" % (l, common.tla_value(scripts[l]) if scripts.get(l) else "<<>>")
                                           for l in kinds) + "]"),
                AllowCut=cut, AllowPartial=partial)


def replay_behaviour(tid, kinds, scripts, states, rng):
    w = SelWorld(kinds, scripts, rng)
    drift = None
    for i, st in enumerate(states[1:], start=1):
        la = st["last"]
        try:
            w.do(tuple(la), prev=states[i - 1])
        except Exception as e:
            drift = drift or {"step": i, "action": la, "diff": ["cannot apply: %r" % (e,)]}
            break
        if drift is None:
            d = []
            for l in kinds:
                for p in ("S", "R"):
                    ms = st["st"][l][p]
                    rs = w.state_of(l, p)
                    if w.coarse(ms) != w.coarse(rs):
                        d.append("%s.%s: spec=%s real=%s" % (l, p, ms, rs))
            for p in ("S", "R"):
                if st["result"][p] != w.result_link(p):
                    # a party without a listener has nothing left to wait for once every connection it dialled is down:
                    # connect() fails at once, where the model (whose parties always have the listener as a last contender)
                    # waits for the deadline - an abstraction of the model, not a difference of behaviour
                    if p in scripts.get("_no_listen", ()) and st["result"][p] == "-" and w.result_link(p) == "failed" and \
                            all(w.coarse(st["st"][l][p]) in ("down", "-") for l in kinds):
                        continue
                    d.append("result.%s: spec=%s real=%s" % (p, st["result"][p], w.result_link(p)))
            if d:
                drift = {"step": i, "action": la, "diff": d[:6]}
    rec = w.record(tid)
    return w, rec, drift


def run(prop, tier):
    quick = tier == "quick"
    seed = common.seed()
    rng = random.Random(seed + 7)
    v = common.Verdict(prop, tier)
    cov = {"tlc_configs": {}, "samples": [], "drift": []}
    records, runs = [], {}
    states = transitions = 0
    tid = 0
    ndrift = 0
    nontrivial = set()
    with common.Workdir(prop) as wd:
        for name, (kinds, scripts) in CONFIGS.items():
            if quick and name in ("three",):
                continue
            m = "MC_C07_" + name
            common.write_model(wd, m, "Transit", consts_for(kinds, scripts, cut=(name not in NO_CUT), partial=(name != "crowd")),
                               invariants=INVARIANTS, properties=["NoHang"] if name in ("two_direct", "only_strangers") else [])
            r = tlc.run(m + ".tla", m + ".cfg", cwd=wd.path, timeout=1800)
            cov["tlc_configs"][name] = {"distinct_states": r.distinct, "states_generated": r.generated, "depth": r.depth,
                                        "wall_s": round(r.wall, 1), "result": "ok" if r.ok else (r.violated or "error")}
            states += r.distinct
            transitions += r.generated
            behaviours = []
            if r.violated:
                behaviours.append(("tlc-cex", r.trace))
            elif not r.ok:
                raise RuntimeError("TLC failed on %s: %s" % (m, r.error or r.stdout[-1500:]))
            simdir = wd.file("sim_" + name)
            os.makedirs(simdir)
            n = 40 if quick else 400
            tlc.run(m + ".tla", m + ".cfg", cwd=wd.path, workers=4, simulate={"num": n // 4, "file": os.path.join(simdir, "tr")},
                    depth=40, seed=seed + 11, timeout=900)
            for tr in tlc.read_sim_traces(os.path.join(simdir, "tr")):
                behaviours.append(("tlc-sim", tr))
            # coverage goals: shortest behaviours reaching situations random simulation seldom does
            goals = dict(GOALS)
            # (a goal the configuration cannot reach costs an exhaustive run to learn just that: asked only where it can apply)
            ks = set(kinds.values())
            two_to_S = bool(ks & {"relay"})
            two_to_R = bool(ks & {"relay", "evilrelayR", "altsenderR", "wrongkeyR", "s2r", "r2s"})
            if name != "two_direct":
                goals.pop("nevermind_sent")
            if "r2s" not in ks:
                goals.pop("early_winner_then_start")
            if "s2r" not in ks:
                goals.pop("early_rwin_then_start")
            if not two_to_S:
                goals.pop("joined_at_S")
            if not (ks & {"evilrelayS"}):
                goals.pop("joined_from_outsider_S")
            if not (ks & {"altsenderR"}) and name != "evil_relay":
                goals.pop("joined_from_outsider_R")
            if not (ks & {"s2r", "r2s", "relay"}):
                for g in ("winner_lost", "joined_go_then_both", "split_outcome"):
                    goals.pop(g)
            for l, k in kinds.items():
                if k in ("s2r", "r2s", "relay"):
                    goals["both_on_" + l] = 'result.S = "%s" /\\ result.R = "%s"' % (l, l)
                if k == "r2s":
                    goals["early_winner_" + l] = '~started.S /\\ winner = "%s"' % l
                if k == "s2r":
                    goals["early_rwin_" + l] = '~started.R /\\ rwin = "%s"' % l
            wit, unreached = common.witnesses(wd, "Transit", consts_for(kinds, scripts, cut=(name not in NO_CUT), partial=(name != "crowd")), goals,
                                              "MC_C07_goal_" + name)
            cov.setdefault("witness_goals", {})[name] = {"reached": [g for g, _ in wit], "unreached": unreached}
            for g, tr in wit:
                behaviours.append(("tlc-witness:" + g, tr))
            for origin, tr in behaviours:
                tid += 1
                w, rec, drift = replay_behaviour(tid, kinds, scripts, tr, random.Random(seed * 31 + tid))
                rec["origin"], rec["config"] = origin, name
                records.append(rec)
                runs[tid] = w
                nontrivial.add((name, tuple(tuple(s["last"]) for s in tr[1:])))
                if drift:
                    ndrift += 1
                    if len(cov["drift"]) < 8:
                        cov["drift"].append(dict(drift, tid=tid, config=name, origin=origin, schedule=w.schedule[:drift["step"] + 1]))
        # family: the peer's handshake arriving between a cancelled contender's loseConnection() and its connectionLost()
        ngap = 0
        for who in ("S", "R"):
            for k in range(2):
                tid += 1
                try:
                    w, forced = late_handshake_case(tid, who)
                except Exception as e:
                    cov["walk_errors"] = cov.get("walk_errors", []) + [("late-handshake: %r" % (e,))[:160]]
                    continue
                rec = w.record(tid)
                rec["origin"], rec["config"] = "family:late-handshake", "closing_gap"
                records.append(rec)
                runs[tid] = w
                ngap += int(forced > 0)
        cov["late_handshake_cases_with_a_unit_in_the_gap"] = ngap
        # code -> spec: seeded walks over the real parties, validated by TLC against Transit.tla
        wrng = random.Random(seed * 7919 + 7)
        tv = {"walks": 0, "accepted": 0, "rejected": []}
        for name in ("two_direct", "strangers", "strangers2", "only_strangers", "alt_sender", "crowd"):
            kinds, scripts = CONFIGS[name]
            cut, partial = name not in NO_CUT, name != "crowd"
            traces = {}
            nwalks = (12 if quick else 120) if name != "crowd" else (6 if quick else 40)
            for k in range(nwalks):
                tid += 1
                pol = crowd_policy if (name == "crowd" and k % 2 == 0) else None
                try:
                    w, lines = sel_walk(tid, kinds, scripts, cut, partial, random.Random(wrng.random()), policy=pol)
                except Exception as e:
                    cov["walk_errors"] = cov.get("walk_errors", []) + [("%s: %r" % (name, e))[:160]]
                    continue
                rec = w.record(tid)
                rec["origin"], rec["config"] = "real-walk" + (":crowd-first" if pol else ""), name
                records.append(rec)
                runs[tid] = w
                traces[tid] = lines
            if not traces:
                continue
            res, _r = common.trace_validate(wd, "Transit", consts_for(kinds, scripts, cut=cut, partial=partial), traces, SEL_T_PROJ,
                                            "MC_C07_trace_" + name)
            for t, (reached, total) in sorted(res.items()):
                tv["walks"] += 1
                if reached == total:
                    tv["accepted"] += 1
                elif len(tv["rejected"]) < 6:
                    tv["rejected"].append({"tid": t, "config": name, "matched_lines": reached, "of": total,
                                           "next_line": traces[t][reached] if reached < total else None,
                                           "schedule": runs[t].schedule[:reached + 1]})
        cov["trace_validation"] = dict(tv, rule="each walk = up to 30 environment steps chosen among what the real parties and the network "
                                       "offer (connect(), TCP establishment, unit delivery whole or in part, outsiders' scripted units, "
                                       "orderly closes, cuts, deadlines) followed by a fair completion; accepted = Transit.tla has a "
                                       "behaviour with the same actions and the same projection (negotiation state of every connection "
                                       "end, both connect() results, started, deadlines) after every step")
        path = wd.file("obs.ndjson")
        with open(path, "w") as f:
            for rec in records:
                f.write(json.dumps(rec) + "\n")
        with open(wd.file("MC_SObs.cfg"), "w") as f:
            f.write("SPECIFICATION Spec\nCHECK_DEADLOCK FALSE\n")
        with open(wd.file("MC_SObs.tla"), "w") as f:
            f.write("---- MODULE MC_SObs ----\nEXTENDS TransitSelObs\n====\n")
        r = tlc.run("MC_SObs.tla", "MC_SObs.cfg", workers=1, cwd=wd.path, env={"OBS_FILE": path}, timeout=1800)
        verdicts = {t[1]: dict(zip(OBS_NAMES, t[2])) for t in tlc.printed_tuples(r.stdout, "OBS")}
        if len(verdicts) != len(records):
            raise RuntimeError("observer evaluated %d of %d runs\n%s" % (len(verdicts), len(records), r.stdout[-2000:]))
        failing = 0
        for rec in records:
            bad = [n for n in OBS_NAMES if not verdicts[rec["tid"]][n]]
            # the deadline clause is also a bound on virtual time
            late = [p for p, t in rec["resultTime"].items() if t > 2 * transit.TIMEOUT + transit.TIMEOUT]
            if late:
                bad.append("DeadlineTime")
            if bad:
                failing += 1
                v.violation({"clause": bad[0], "config": rec["config"]},
                            "%s fails on a real Transit negotiation (%s): %s" % (",".join(bad), rec["config"],
                                                                                 json.dumps({k: rec[k] for k in ("resultS", "resultR", "l")})[:600]),
                            {"config": rec["config"], "schedule": runs[rec["tid"]].schedule, "observation": rec})
        cov.update(states=states, transitions=transitions, traces_validated_against_impl=len(records), evaluations=len(records),
                   distinct_nontrivial=len(nontrivial), failing_runs=failing, replay_drift_count=ndrift,
                   rule="a run = one TLC behaviour of Transit.tla (contender configuration + delivery order incl. partial units, "
                        "cuts, outsiders, deadlines) executed on a real TransitSender/TransitReceiver pair; every run is "
                        "non-trivial (>= 2 contenders or an outsider); distinct = distinct action sequences")
        for rec in records[:2]:
            cov["samples"].append({"config": rec["config"], "schedule": runs[rec["tid"]].schedule, "resultS": rec["resultS"],
                                   "resultR": rec["resultR"]})
    return v.finish(cov, assumptions=[
        "HKDF/transit key: a party without the key cannot produce the handshake (modelled as distinct units SHx/RHx)",
        "TLC bounds: <=3 contenders per configuration, one unit split at most once",
        "the relay is a scripted stand-in that pairs two connections and forwards bytes"])


def replay(prop, path):
    d = json.load(open(path))["replay"]
    kinds, scripts = CONFIGS[d["config"]]
    w = SelWorld(kinds, scripts, random.Random(1))
    for la in d["schedule"]:
        w.do(tuple(la))
        print(la, {l: (w.state_of(l, "S"), w.state_of(l, "R")) for l in kinds}, w.result_link("S"), w.result_link("R"))
    print(json.dumps(w.record(1), indent=1)[:3000])
    return 0
