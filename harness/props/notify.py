"""Notify.tla <-> the real notification layer: _DeferredWormhole's observers (wormhole.py), OneShotObserver / SequenceObserver /
EmptyableSet (observer.py) over a real EventualQueue (eventual.py) on a twisted Clock that is stepped one delayed call at a time.

Three bindings, used by the mailbox group for C18 and C03:
  * TLC checks Notify.tla exhaustively on small constants (invariants, an action property, two liveness properties);
  * spec -> code: behaviours of TLC's simulator are stepped through the real objects - an action the model takes between two calls
    of a turn is performed from inside the callback of the first - and the projected state is compared after every step (drift);
  * code -> spec: seeded random walks chosen among what the real objects offer, the application acting re-entrantly from inside
    its callbacks by the same random policy, validated by TLC against Notify.tla (common.trace_validate);
and NotifyObs.tla judges every recorded execution on its own (what the harness did, what its callbacks were told, in order):
only that verdict produces a VIOLATION."""
import json
import random

from .. import common, tlc

ONESHOTS = ["welcome", "code", "key", "verifier", "versions"]
LATCHES = ONESHOTS + ["closed"]
HAPPY, ERR, WCLOSED, NIL, JUNK = 100, 101, 102, 103, 999

OBS_NAMES = ["OnceEach", "NotSync", "MsgFIFO", "LateGets", "ErrOnlyAfterClosed", "OneShotAgree", "ClosedVerdict", "FireOrder",
             "AtRest", "NoInternal"]
DECIDES = {"C18": ["OnceEach", "NotSync", "LateGets", "ErrOnlyAfterClosed", "OneShotAgree", "ClosedVerdict", "FireOrder", "AtRest",
                   "NoInternal"],
           "C03": ["OnceEach", "MsgFIFO", "FireOrder", "AtRest"],
           "C08": ["OnceEach", "LateGets", "ClosedVerdict", "AtRest"]}
INVARIANTS = ["NoInternal", "CallsDistinct", "MsgFIFO", "MsgErrSticky", "LateGets", "ErrOnlyAfterClosed", "OneShotAgree",
              "ClosedVerdict", "FireOrder", "NoneLeftBehind"]
PROPERTIES = ["FiresOnlyInTurn", "NoHang", "Answered"]

T_PROJ = ('[os |-> os, wait |-> osWait, sqRes |-> sqRes, sqErr |-> sqErr, sqWait |-> sqWait, closed |-> isClosed, neq |-> Len(eq), '
          'dfr |-> [i \\in DOMAIN dfr |-> <<dfr[i].kind, dfr[i].st, dfr[i].v>>], eset |-> SetToSortSeq(eset, <), esObs |-> esObs, '
          'esWait |-> esWait]')


class _Marker(Exception):
    pass


class _Boss:
    def __init__(self):
        self.closes = 0

    def close(self):
        self.closes += 1


def _payload(i):
    return b"" if i == 2 else b"msg-%d" % i


def _oneshot_value(k, v):
    if k in ("welcome", "versions"):
        return {} if v == 1 else {"n": v}
    if k == "code":
        return "%d-code" % v
    return b"\x00" * 4 if v == 1 else b"k" * 4           # key / verifier


class World:
    def __init__(self, tid, max_d=40):
        from twisted.internet.task import Clock
        from twisted.python import log
        from wormhole.eventual import EventualQueue
        from wormhole.observer import EmptyableSet
        from wormhole.wormhole import _DeferredWormhole
        self.tid, self.max_d = tid, max_d
        self.clock = Clock()
        self.eq = EventualQueue(self.clock)
        self.w = _DeferredWormhole(self.clock, self.eq)
        self.boss = _Boss()
        self.w._set_boss(self.boss)
        self.es = EmptyableSet(_eventual_queue=self.eq)
        self.shadow = set()
        self.dfr, self.dobj = [], []
        self.lines, self.ev, self.internal, self.schedule = [], [], [], []
        self.nmsg = self.nraw = self.nbelow = 0
        self.closed = False
        self.given = {}             # (kind, spec value) the harness handed down
        self.inside = None          # policy run from inside callbacks
        self._log = log
        self._obs = self._on_log
        log.addObserver(self._obs)

    def done(self):
        self._log.removeObserver(self._obs)

    def _on_log(self, e):
        if e.get("isError"):
            f = e.get("failure")
            if f is not None and f.check(_Marker):
                return
            self.internal.append("log:" + (repr(f.value) if f is not None else str(e.get("message")))[:200])

    # ---- projection of the real state, shaped like T_PROJ
    def _latch(self, o):
        from wormhole.observer import NoResult
        from twisted.python.failure import Failure
        r = o._result
        if r is NoResult:
            return ["none", 0]
        if isinstance(r, Failure):
            return ["err", self._errval(r)]
        return ["val", self._val(r)]

    def _errval(self, f):
        from wormhole.errors import WormholeClosed
        if f.check(WormholeClosed):
            return WCLOSED
        if f.check(_ClosedWith):
            return ERR
        return JUNK

    def _val(self, r, kind=None):
        if r == "happy" and isinstance(r, str):
            return HAPPY
        if r is None:
            return NIL
        for (k, v), obj in self.given.items():
            if obj is r and (kind is None or k == kind or kind == "any"):
                return v
        for (k, v), obj in self.given.items():          # equal but not the object that was handed down
            if type(obj) is type(r) and obj == r and (kind is None or k == kind):
                return v
        return JUNK

    def _ids(self, ds):
        out = []
        for d in ds:
            out.append(next((i + 1 for i, o in enumerate(self.dobj) if o is d), 0))
        return out

    def proj(self):
        w = self.w
        obs = {"welcome": w._welcome_observer, "code": w._code_observer, "key": w._key_observer, "verifier": w._verifier_observer,
               "versions": w._version_observer, "closed": w._closed_observer}
        so = w._received_observer
        eobs = self.es._observer
        return {"os": {k: self._latch(o) for k, o in obs.items()},
                "wait": {k: self._ids(o._observers) for k, o in obs.items()},
                "sqRes": [self._val(r, "msg") for r in so._results],
                "sqErr": self._errval(so._error) if so._error else 0,
                "sqWait": self._ids(so._observers),
                "closed": bool(w._closed), "neq": len(self.eq._calls),
                "dfr": [[d[0], d[1], d[2]] for d in self.dfr],
                "eset": sorted(self.es), "esObs": bool(eobs), "esWait": self._ids(eobs._observers) if eobs else []}

    def line(self, a, chk=True):
        self.lines.append({"a": a, "proj": self.proj(), "chk": chk})
        self.schedule.append(a)

    def event(self, t, d=0, k="", v=0, how=""):
        self.ev.append({"t": t, "d": d, "k": k, "v": v, "how": how})

    # ---- callbacks of the Deferreds handed out
    def _attach(self, d, kind):
        self.dobj.append(d)
        self.dfr.append([kind, "pending", 0, self.closed])
        n = len(self.dobj)

        def fire(how, r):
            v = self._errval(r) if how == "eb" else self._val(r, "msg" if kind == "msg" else (kind if kind in ONESHOTS else None))
            if self.dfr[n - 1][1] == "pending":
                self.dfr[n - 1][1], self.dfr[n - 1][2] = how, v
            self.event("fire", d=n, how=how, v=v)
            self.line(["Run", how, n, v])
            if self.inside:
                self.inside(self)
            return None
        d.addCallbacks(lambda r: fire("cb", r), lambda f: fire("eb", f))
        return n

    def _api(self, name, f, *a):
        try:
            return f(*a)
        except Exception as e:              # an exception out of the layer's own API
            self.internal.append("api:%s:%r" % (name, e))
            return None

    # ---- actions (named like Notify.tla's)
    def enabled(self, top):
        acts = []
        if len(self.dfr) < self.max_d:
            acts += [["Get", k] for k in LATCHES] + [["GetMsg"]] * 3 + [["WhenEmpty"]]
        if not self.closed:
            acts += [["Below", k, v] for k in ONESHOTS for v in (1, 2)] + [["Received", self.nmsg + 1]] * 4
            acts += [["Closed", "happy"], ["Closed", "err"]]
        acts += [["RawRaise", self.nraw + 1]]
        acts += [["SetAdd", x] for x in (1, 2, 3) if x not in self.shadow] + [["SetDiscard", x] for x in (1, 2, 3)]
        if top and self.eq._calls:
            acts += [["StartTurn", len(self.eq._calls)]] * 8
        return acts

    def do(self, a):
        w = self.w
        kind = a[0]
        if kind == "Get":
            k = a[1]
            f = {"welcome": w.get_welcome, "code": w.get_code, "key": w.get_unverified_key, "verifier": w.get_verifier,
                 "versions": w.get_versions, "closed": w.close}[k]
            d = self._api("get_" + k, f)
            if d is not None:
                n = self._attach(d, k)
                self.event("get", d=n, k=k)
            self.line(a)
        elif kind == "GetMsg":
            d = self._api("get_message", w.get_message)
            if d is not None:
                n = self._attach(d, "msg")
                self.event("get", d=n, k="msg")
            self.line(a)
        elif kind == "Below":
            k, v = a[1], a[2]
            obj = self.given.setdefault((k, v), _oneshot_value(k, v))
            self.nbelow += 1
            self.event("below", k=k, v=v)
            self._api("got_" + k, {"welcome": w.got_welcome, "code": w.got_code, "key": w.got_key, "verifier": w.got_verifier,
                                   "versions": w.got_versions}[k], obj)
            self.line(a)
        elif kind == "Received":
            self.nmsg += 1
            obj = self.given.setdefault(("msg", self.nmsg), _payload(self.nmsg))
            self.event("recv", v=self.nmsg)
            self._api("received", w.received, obj)
            self.line(["Received", self.nmsg])
        elif kind == "Closed":
            self.closed = True
            self.event("closed", how=a[1])
            self._api("closed", w.closed, "happy" if a[1] == "happy" else _ClosedWith("lonely"))
            self.line(a)
        elif kind == "RawRaise":
            self.nraw += 1
            n = self.nraw

            def raiser():
                self.event("raise", v=n)
                self.line(["Run", "raise", 0, n])
                if self.inside:
                    self.inside(self)
                raise _Marker(n)
            self.eq.eventually(raiser)
            self.line(["RawRaise", n])
        elif kind == "SetAdd":
            self.shadow.add(a[1])
            self.es.add(a[1])
            self.event("add", v=a[1])
            self.line(a)
        elif kind == "SetDiscard":
            self.shadow.discard(a[1])
            self.event("discard", v=a[1], how="empties" if not self.shadow else "")
            self._api("discard", self.es.discard, a[1])
            self.line(a)
        elif kind == "WhenEmpty":
            d = self._api("when_next_empty", self.es.when_next_empty)
            if d is not None:
                n = self._attach(d, "empty")
                self.event("get", d=n, k="empty")
            self.line(a)
        elif kind == "StartTurn":
            self.turn()
        else:
            raise ValueError(a)

    def turn(self):
        """one delayed call of the clock = one turn of the eventual queue"""
        self.event("turn")
        self.line(["StartTurn", len(self.eq._calls)], chk=False)
        calls = sorted(self.clock.calls, key=lambda c: c.getTime())
        if not calls:
            if self.eq._calls:
                self.internal.append("queue holds %d calls but no turn is scheduled" % len(self.eq._calls))
            return False
        c = calls[0]
        self.clock.calls.remove(c)
        c.called = 1
        try:
            c.func(*c.args, **c.kw)
        except Exception as e:
            self.internal.append("turn:%r" % (e,))
        return True

    def drain(self):
        self.inside = None
        n = 0
        while (self.eq._calls or self.clock.calls) and n < 200:
            n += 1
            if not self.turn():
                break

    def record(self, origin):
        return {"tid": self.tid, "origin": origin, "ev": self.ev, "internal": self.internal, "rest": True}


class _ClosedWith(Exception):
    pass


def random_walk(tid, rng, steps):
    wd = World(tid)
    try:
        def inside(w_):
            for _ in range(rng.choice([0, 0, 1, 1, 2])):
                acts = w_.enabled(top=False)
                w_.do(rng.choice(acts))
        wd.inside = inside
        burst = rng.random() < 0.3          # several get_message() in a row / several messages in a row
        for _ in range(steps):
            acts = wd.enabled(top=True)
            a = rng.choice(acts)
            wd.do(a)
            if burst and a[0] in ("GetMsg", "Received") and rng.random() < 0.6 and len(wd.dfr) < wd.max_d and not wd.closed:
                wd.do(list(a) if a[0] == "GetMsg" else ["Received", wd.nmsg + 1])
        if not wd.closed and rng.random() < 0.7:
            wd.do(["Closed", rng.choice(["happy", "err"])])
            for _ in range(rng.choice([0, 1, 3])):
                if len(wd.dfr) < wd.max_d:
                    wd.do(rng.choice([["GetMsg"], ["Get", rng.choice(LATCHES)]]))
        wd.drain()
        return wd
    finally:
        wd.done()


def family_cases():
    """situations written down: k messages buffered and k+j get_message() calls in one turn; a call outstanding, a message, another
    call before the turn; the same across closed; every latch asked before / after its value and before / after closed"""
    out = []
    for k in (0, 1, 2, 3):
        for j in (0, 1, 2):
            for close in (None, "happy", "err"):
                for turn_between in (False, True):
                    s = [["Received", i + 1] for i in range(k)]
                    if turn_between:
                        s.append(["GetMsg"])
                        s.append(["StartTurn", 0])
                    s += [["GetMsg"]] * (k + j)
                    if close:
                        s.append(["Closed", close])
                        s += [["GetMsg"], ["Get", "closed"], ["Get", "code"]]
                    out.append(s)
    for k in range(1, 3):
        for order in range(4):
            out.append([["GetMsg"]] * k + [["Received", 1]] + [["GetMsg"]] + ([["StartTurn", 0]] if order & 1 else []) +
                       [["Received", 2]] + ([["GetMsg"]] if order & 2 else []) + [["Received", 3], ["Closed", "happy"], ["GetMsg"]])
    for latch in ONESHOTS:
        for close in ("happy", "err"):
            out.append([["Get", latch], ["Below", latch, 1], ["Get", latch], ["Below", latch, 2], ["StartTurn", 0], ["Get", latch],
                        ["Get", "closed"], ["Closed", close], ["Get", latch], ["Get", "closed"], ["StartTurn", 0], ["Get", "closed"]])
    out.append([["WhenEmpty"], ["SetAdd", 1], ["SetAdd", 2], ["SetDiscard", 1], ["WhenEmpty"], ["SetDiscard", 2], ["StartTurn", 0],
                ["WhenEmpty"], ["SetDiscard", 3]])
    out.append([["GetMsg"], ["RawRaise", 1], ["Received", 1], ["GetMsg"], ["RawRaise", 2], ["Received", 2], ["Closed", "err"], ["GetMsg"]])
    return out


def scripted(tid, script):
    wd = World(tid)
    try:
        for a in script:
            if a[0] == "StartTurn":
                if wd.eq._calls:
                    wd.turn()
                continue
            if a[0] == "Received":
                a = ["Received", wd.nmsg + 1]
            if a[0] in ("Below", "Received", "Closed") and wd.closed:
                continue
            wd.do(a)
        wd.drain()
        return wd
    finally:
        wd.done()


def replay_behaviour(tid, states):
    """spec -> code: the sequence of `last` values of a TLC behaviour, performed on the real objects; what the model does between two
    calls of a turn is done from inside the callback of the first"""
    acts = [list(s["last"]) for s in states[1:]]
    specs = states[1:]
    wd = World(tid)
    drift = None
    pos = [0]

    def compare(i):
        nonlocal drift
        if drift is None:
            got = wd.lines[-1]["proj"]
            exp = spec_proj(specs[i])
            if got != exp and acts[i][0] != "StartTurn":
                diff = [k for k in exp if exp[k] != got.get(k)]
                drift = {"step": i, "action": acts[i], "differs": diff, "spec": {k: exp[k] for k in diff}, "real": {k: got[k] for k in diff}}

    def inside(w_):
        # the Run line for acts[pos] has just been recorded; perform what follows up to the next Run / StartTurn
        i = pos[0]
        if i >= len(acts) or acts[i][0] != "Run":
            return                          # the real turn goes on where the behaviour has ended
        compare(i)
        i += 1
        while i < len(acts) and acts[i][0] not in ("Run", "StartTurn"):
            w_.do(acts[i])
            compare(i)
            i += 1
        pos[0] = i
    try:
        wd.inside = inside
        while pos[0] < len(acts):
            a = acts[pos[0]]
            if a[0] == "StartTurn":
                pos[0] += 1
                if pos[0] >= len(acts) or acts[pos[0]][0] != "Run":
                    break                   # the behaviour ends between the start of a turn and its first call
                wd.turn()
                # a turn the behaviour leaves unfinished has run to its end in the real world: stop comparing there
                if pos[0] < len(acts) and acts[pos[0]][0] == "Run":
                    break
            elif a[0] == "Run":
                break                       # out of step (reported as drift below)
            else:
                wd.do(a)
                compare(pos[0])
                pos[0] += 1
        wd.drain()
        return wd, drift
    finally:
        wd.done()


def spec_proj(s):
    def seq(x):
        return list(x) if x else []
    return {"os": {k: list(s["os"][k]) for k in LATCHES}, "wait": {k: seq(s["osWait"][k]) for k in LATCHES},
            "sqRes": seq(s["sqRes"]), "sqErr": s["sqErr"], "sqWait": seq(s["sqWait"]), "closed": s["isClosed"], "neq": len(s["eq"] or ()),
            "dfr": [[d["kind"], d["st"], d["v"]] for d in seq(s["dfr"])], "eset": sorted(s["eset"] or ()), "esObs": s["esObs"],
            "esWait": seq(s["esWait"])}


MODEL_CFGS = {
    "latches": dict(MaxD=3, MaxMsg=1, MaxBelow=2, MaxRaw=0, Items=set(), UseK={"code", "closed"}),
    "messages": dict(MaxD=4, MaxMsg=2, MaxBelow=0, MaxRaw=0, Items=set(), UseK={"closed"}),
    "emptyset": dict(MaxD=3, MaxMsg=0, MaxBelow=0, MaxRaw=0, Items={1, 2}, UseK=set()),
}
THOROUGH_CFGS = {
    "latches_raw": dict(MaxD=3, MaxMsg=2, MaxBelow=2, MaxRaw=1, Items=set(), UseK={"code", "closed"}),
    "latches2": dict(MaxD=4, MaxMsg=1, MaxBelow=2, MaxRaw=0, Items=set(), UseK={"code", "key", "closed"}),
    "messages3": dict(MaxD=4, MaxMsg=3, MaxBelow=0, MaxRaw=1, Items=set(), UseK={"closed"}),
}
TRACE_CONSTS = dict(MaxD=40, MaxMsg=60, MaxBelow=80, MaxRaw=60, Items={1, 2, 3}, UseK=set(LATCHES))


def run_family(wd, quick, seed, v, prop):
    """returns the coverage dict; registers violations of `prop` on v"""
    cov = {"tlc_configs": {}}
    cfgs = dict(MODEL_CFGS)
    if not quick:
        cfgs.update(THOROUGH_CFGS)
    for name, consts in cfgs.items():
        m = "MC_Notify_" + name
        common.write_model(wd, m, "Notify", consts, invariants=INVARIANTS, properties=PROPERTIES)
        r = tlc.run(m + ".tla", m + ".cfg", cwd=wd.path, timeout=1500, workers=8, metadir=wd.file("meta_" + m))
        cov["tlc_configs"][name] = {"constants": {k: (sorted(x) if isinstance(x, set) else x) for k, x in consts.items()},
                                    "distinct_states": r.distinct, "states_generated": r.generated, "depth": r.depth,
                                    "wall_s": round(r.wall, 1), "result": "ok" if r.ok else (r.violated or "error"),
                                    "invariants": INVARIANTS, "properties": PROPERTIES}
        if not r.ok:
            cov["tlc_configs"][name]["detail"] = (r.error or r.stdout[-600:])
    records, runs = [], {}
    tid = 0
    # spec -> code
    ndrift, drifts, nsim = 0, [], 0
    simc = dict(MaxD=6, MaxMsg=3, MaxBelow=3, MaxRaw=2, Items={1, 2}, UseK=set(LATCHES))
    common.write_model(wd, "MC_Notify_sim", "Notify", simc, init_next=("Init", "Next"))
    prefix = wd.file("nsim/tr")
    import os
    os.makedirs(os.path.dirname(prefix), exist_ok=True)
    tlc.run("MC_Notify_sim.tla", "MC_Notify_sim.cfg", cwd=wd.path, workers=1, timeout=600,
            simulate={"file": prefix, "num": 150 if quick else 1500}, depth=40, seed=seed + 11)
    for states in tlc.read_sim_traces(prefix):
        tid += 1
        nsim += 1
        w_, drift = replay_behaviour(tid, states)
        runs[tid] = w_
        records.append(w_.record("tlc-sim"))
        if drift:
            ndrift += 1
            if len(drifts) < 5:
                drifts.append(dict(drift, tid=tid))
    cov["spec_to_code"] = {"behaviours": nsim, "drift_count": ndrift, "drift": drifts}
    # written-down family
    for s in family_cases():
        tid += 1
        w_ = scripted(tid, s)
        runs[tid] = w_
        records.append(w_.record("family"))
    cov["family_cases"] = len(family_cases())
    # code -> spec
    rng = random.Random(seed * 104729 + 18)
    traces = {}
    for _ in range(120 if quick else 1200):
        tid += 1
        w_ = random_walk(tid, rng, rng.choice([15, 30, 50]))
        runs[tid] = w_
        traces[tid] = w_.lines
        records.append(w_.record("real-walk"))
    for t in list(runs):
        if runs[t].lines and t not in traces and records[t - 1]["origin"] == "family":
            traces[t] = runs[t].lines
    res, _r = common.trace_validate(wd, "Notify", TRACE_CONSTS, traces, T_PROJ, "MC_Notify_trace")
    rejected = []
    for t, (reached, total) in sorted(res.items()):
        if reached != total and len(rejected) < 5:
            rejected.append({"tid": t, "matched_lines": reached, "of": total,
                             "next_line": traces[t][reached] if reached < total else None,
                             "schedule": runs[t].schedule[max(0, reached - 6):reached + 1]})
    cov["trace_validation"] = {"walks": len(res), "lines": sum(len(l) for l in traces.values()),
                               "accepted": sum(1 for a, b in res.values() if a == b), "rejected": rejected,
                               "rule": "a walk = up to 50 top-level steps chosen among what the real objects offer (get_*(), close(), "
                                       "got_*/received/closed from below, a raising eventual call, EmptyableSet calls, one turn of the "
                                       "queue), the callbacks acting re-entrantly; every step and every call run in a turn is one line; "
                                       "accepted = Notify.tla has a behaviour with the same actions and the same projected state after "
                                       "every line"}
    # the observer decides
    path = wd.file("notify_obs.ndjson")
    with open(path, "w") as f:
        for rec in records:
            f.write(json.dumps(rec) + "\n")
    with open(wd.file("MC_NotifyObs.cfg"), "w") as f:
        f.write("SPECIFICATION Spec\nCHECK_DEADLOCK FALSE\n")
    with open(wd.file("MC_NotifyObs.tla"), "w") as f:
        f.write("---- MODULE MC_NotifyObs ----\nEXTENDS NotifyObs\n====\n")
    r = tlc.run("MC_NotifyObs.tla", "MC_NotifyObs.cfg", workers=1, cwd=wd.path, env={"OBS_FILE": path}, timeout=1800)
    verdicts = {t[1]: dict(zip(OBS_NAMES, t[2])) for t in tlc.printed_tuples(r.stdout, "OBS")}
    if len(verdicts) != len(records):
        raise RuntimeError("Notify observer evaluated %d of %d runs\n%s" % (len(verdicts), len(records), r.stdout[-2500:]))
    failing = 0
    decides = DECIDES.get(prop, [])
    for rec in records:
        bad = [n for n in decides if not verdicts[rec["tid"]][n]]
        if bad:
            failing += 1
            v.violation({"clause": "Notify." + bad[0]},
                        "%s fails on the real notification layer (origin %s): %s" % (
                            ",".join(bad), rec["origin"], json.dumps({"internal": rec["internal"][:3], "schedule": runs[rec["tid"]].schedule[:40]})[:700]),
                        {"notify_schedule": runs[rec["tid"]].schedule, "observation": rec})
    cov.update(runs=len(records), failing_runs=failing, observer_predicates=decides,
               other_predicates_false_on={n: [t for t in sorted(verdicts) if not verdicts[t][n]][:5] for n in OBS_NAMES if n not in decides},
               events=sum(len(r_["ev"]) for r_ in records))
    return cov


def replay_schedule(prop, path, schedule):
    """re-execute a recorded schedule of the notification layer (top-level steps; calls run in a turn are the turn's)"""
    w_ = scripted(1, [a for a in schedule if a[0] != "Run"])
    with common.Workdir(prop + "_replay") as wd:
        p = wd.file("notify_obs.ndjson")
        with open(p, "w") as f:
            f.write(json.dumps(w_.record("replay")) + "\n")
        with open(wd.file("MC_NotifyObs.cfg"), "w") as f:
            f.write("SPECIFICATION Spec\nCHECK_DEADLOCK FALSE\n")
        with open(wd.file("MC_NotifyObs.tla"), "w") as f:
            f.write("---- MODULE MC_NotifyObs ----\nEXTENDS NotifyObs\n====\n")
        r = tlc.run("MC_NotifyObs.tla", "MC_NotifyObs.cfg", workers=1, cwd=wd.path, env={"OBS_FILE": p}, timeout=600)
        verdicts = {t[1]: dict(zip(OBS_NAMES, t[2])) for t in tlc.printed_tuples(r.stdout, "OBS")}
    for a in w_.schedule:
        print(json.dumps(a))
    print("internal=%s" % w_.internal)
    print("observer:", verdicts.get(1))
    if any(not verdicts[1][n] for n in DECIDES.get(prop, [])):
        print("VIOLATION property=%s replay=%s" % (prop, path))
        return 1
    return 0
