"""C16 - the Leader replaces a silent peer connection and never drops a responsive one.

spec/DilationTimer.tla (TrafficTimer's table is extracted from the tree; integer time) is model-checked
by TLC; its behaviours are replayed on a real Leader Manager with its real TrafficTimer on the virtual
clock, the Follower being a second real Manager that answers pings; timer deadline, TrafficTimer state,
pings sent and monitor-initiated disconnects are compared after every step; DilationTimerObs.tla decides.
"""
import json
import os
import random

from .. import common, tlc
from ..dilmid import DilMidWorld, reactor, Ping, Pong
from ..mbworld import machine_state

def C(**kw):
    """constants of DilationTimer.tla (back-pressure on the Leader's side is off unless a configuration turns it on)"""
    d = dict(MaxPause=0)
    d.update(kw)
    return d


OBS_NAMES = ["ResponsiveNeverDropped", "SilentDropped", "DroppedWithinThree", "NoTimerWithoutConn", "OneTimer", "NoInternal", "Monitored"]


class TimerRun:
    # which side's transport reports a full write buffer for the whole life of each connection (bulk data filling it):
    # keep-alive pings, pongs and acks are not queued behind application data and must go out regardless
    throttle = ()

    def __init__(self, interval, throttle=()):
        self.I = interval
        self.throttle = tuple(throttle)
        self.w = DilMidWorld(ping_interval=float(interval))
        self.L = self.w.sides["L"]
        self.F = self.w.sides["F"]
        self.pings = []          # [conn, sent, answered, lost, ping_id]
        self.dropped = []        # [conn, at]
        self.stopping = False
        self.lp = None           # a subchannel protocol on the Leader's side (opened at the first AppPause)
        self.hold = False        # the harness's own account: is the Leader's application asking for a pause?
        self.conn_no = 0
        self.gen_conn = {}       # FakeL2 generation -> connection number
        self.schedule = []
        self.errors = []
        m = self.L.m
        orig_send_ping = m.send_ping

        def send_ping(ping_id, on_pong=None):
            transmitted = m._outbound._connection is not None
            self.pings.append({"conn": self.conn_no if (self.live and m._connection is not None) else 0, "sent": int(reactor.seconds()), "answered": 0,
                               "lost": not transmitted, "id": ping_id})
            return orig_send_ping(ping_id, on_pong)
        m.send_ping = send_ping
        self.live = False

    def _timer_calls(self):
        return [dc for dc in reactor.getDelayedCalls() if getattr(dc.func, "__name__", "") == "timer_expired"]

    def do(self, la):
        w = self.w
        a, x = la
        self.schedule.append(list(la))
        ndis = len([n for n in w.notes if n[0] == "disconnect" and n[1] == "L"])
        try:
            if a == "Tick":
                reactor.rightNow = float(x)
            elif a == "TimerFires":
                reactor.run_call(self._timer_calls()[0])
            elif a == "Pong":
                p = self.pings[x - 1]
                # the ping travels to the Follower, whose real Manager answers; the pong travels back
                out = self.L.conn.out
                idx = [i for i, r in enumerate(out) if isinstance(r, Ping) and r.ping_id == p["id"]]
                if not idx:
                    raise RuntimeError("ping %d is not in flight" % x)
                for _ in range(idx[0] + 1):
                    w.deliver("L")
                fo = self.F.conn.out
                j = [i for i, r in enumerate(fo) if isinstance(r, Pong) and r.ping_id == p["id"]]
                if not j:
                    raise RuntimeError("no pong for ping %d" % x)
                for _ in range(j[0] + 1):
                    w.deliver("F")
                p["answered"] = int(reactor.seconds()) or 1
            elif a == "ConnMade":
                self.conn_no += 1
                self.live = True
                if self.conn_no == 1:
                    w.connect()
                else:
                    for _ in range(4):
                        if not w.mailbox_pump():
                            break
                    w.connect()
                self.gen_conn[self.L.conn.gen] = self.conn_no
                for side in self.throttle:
                    c = w.sides[side].conn
                    if c is not None and c.transport.producer is not None:
                        c.transport.producer.pauseProducing()
            elif a == "OtherTraffic":
                # a record that is not a pong reaches the Leader on the connection in use
                from ..dilmid import Ack
                self.L.m.got_record(Ack(0))
            elif a == "AppPause":
                if self.lp is None:
                    w.listen("F", "p")
                    self.lp = w.open("L", "p")
                self.lp.transport.pauseProducing()
                self.hold = True
            elif a == "AppResume":
                self.lp.transport.resumeProducing()
                self.hold = False
                # what waited in the socket is read now - unless the Leader has told this transport to go away (Twisted stops
                # reading at loseConnection())
                while self.L.conn is not None and not self.L.conn.closing and w.deliver("F"):
                    pass
            elif a == "ConnLost":
                w.cut()
                w.observe_loss("L")
                w.observe_loss("F")
                self.live = False
            elif a == "Stop":
                self.stopping = True
                self.L.m.stop()
                self.stopping = False
        except Exception as e:
            self.errors.append("%s in %s: %s" % (type(e).__name__, a, str(e)[:100]))
        w.settle_timers = None
        # zero-delay callbacks (eventual queue) only; the interval timer fires only in TimerFires
        for dc in list(reactor.due()):
            if getattr(dc.func, "__name__", "") != "timer_expired" and dc in reactor.calls:
                reactor.run_call(dc)
        new = [n for n in w.notes if n[0] == "disconnect" and n[1] == "L"][ndis:]
        for n in new:
            if a != "Stop":
                # which connection disconnect() was really called on
                self.dropped.append({"conn": self.gen_conn.get(n[2], 0), "at": int(reactor.seconds()), "held": bool(self.hold)})

    def projection(self):
        t = self.L.m._timer
        tt = self.L.m._traffic
        return {"tt": machine_state(tt) if tt is not None else "no_connection",
                "timer": int(t.getTime()) if t is not None and t.active() else 0,
                "conn": self.conn_no if self.live else 0,
                "pings": [[p["conn"], p["sent"], p["lost"]] for p in self.pings],
                "dropped": [[d["conn"], d["at"]] for d in self.dropped]}


def spec_projection(st):
    return {"tt": st["tt"], "timer": st["timer"], "conn": st["conn"],
            "pings": [[p["conn"], p["sent"], p["lost"]] for p in st["pings"]],
            "dropped": [[d["conn"], d["at"]] for d in st["dropped"]]}


def replay_behaviour(tid, states, interval):
    run = TimerRun(interval, throttle=[(), ("L",), ("F",), ("L", "F")][tid % 4])
    drift = None
    timers_max = 0
    snaps = []
    for i, st in enumerate(states[1:], start=1):
        run.do(tuple(st["last"]))
        timers_max = max(timers_max, len(run._timer_calls()))
        snaps.append({"now": int(reactor.seconds()), "conn": run.conn_no if run.live else 0, "stopped": bool(st["stopped"]),
                      "timer": run.projection()["timer"]})
        if drift is None:
            pr, ps = run.projection(), spec_projection(st)
            if pr != ps:
                drift = {"step": i, "action": list(st["last"]), "diff": ["%s: spec=%s real=%s" % (k, ps[k], pr[k]) for k in ps if ps[k] != pr[k]][:4]}
    now = int(reactor.seconds())
    rec = {"tid": tid, "I": interval, "now": now, "conn": run.conn_no if run.live else 0, "stopped": bool(states[-1]["stopped"]),
           "pings": [{"conn": p["conn"], "sent": p["sent"], "answered": p["answered"], "lost": p["lost"]} for p in run.pings],
           "dropped": run.dropped, "timer": run.projection()["timer"], "maxTimers": timers_max, "snaps": snaps,
           "internal": run.errors + [repr(e)[:100] for e in run.w.logged] + [repr(e)[:100] for s_ in run.w.sides.values() for e in s_.errors]}
    rec["appHoldsPause"] = any(d.get("held") for d in run.dropped)
    run.w.close()
    return run, rec, drift


T_PROJ = ("[tt |-> tt, timer |-> timer, conn |-> conn, "
          "pings |-> [i \\in 1..Len(pings) |-> <<pings[i].conn, pings[i].sent, pings[i].lost>>], "
          "dropped |-> [i \\in 1..Len(dropped) |-> <<dropped[i].conn, dropped[i].at>>]]")


def real_enabled(run, interval, horizon, max_conns, stopped, max_pause=0):
    """Environment actions the *real* objects offer right now (the walk does not consult the model)."""
    now = int(reactor.seconds())
    acts = []
    due = [dc for dc in run._timer_calls() if dc.getTime() <= reactor.seconds()]
    if due:
        acts.append(("TimerFires", now))
    elif now < horizon:
        acts += [("Tick", now + 1)] * 3
    if run.live:
        out = run.L.conn.out if run.L.conn is not None else []
        for k, p in enumerate(run.pings, start=1):
            if p["conn"] == run.conn_no and not p["answered"] and now < p["sent"] + interval and \
                    any(isinstance(r, Ping) and r.ping_id == p["id"] for r in out):
                acts += [("Pong", k)] * 3
        acts.append(("ConnLost", run.conn_no))
        if not stopped:
            acts += [("OtherTraffic", run.conn_no)] * 2
    elif not stopped and run.conn_no < max_conns:
        acts += [("ConnMade", run.conn_no + 1)] * 2
    if not stopped:
        acts.append(("Stop", now))
    if max_pause and not due:
        if run.hold:
            acts += [("AppResume", now)] * 2
        elif run.live and not stopped and getattr(run, "npause", 0) < max_pause:
            acts += [("AppPause", now)] * 2
    return acts


def half_open_script(interval, intervals, per_interval, answered_first):
    """a connection that goes half-open: (optionally after one answered ping) the peer's records keep arriving, `per_interval`
    of them in every ping interval, but no ping is answered any more"""
    acts = [("ConnMade", 1)]
    t = 0
    for n in range(intervals):
        for _ in range(interval):
            t += 1
            acts.append(("Tick", t))
        acts.append(("TimerFires", t))
        if answered_first and n == 0:
            acts.append(("Pong", 2))
        for _ in range(per_interval):
            acts.append(("OtherTraffic", 1))
    return acts


def generations_policy(interval, silent_first, per_conn=3):
    """A long history on one Leader Manager: connection after connection (the first `silent_first` of them with a peer that
    never answers, every later one with a peer that answers every transmitted ping at once), each lasting `per_conn` ping
    intervals before the network takes it away.  Returns a chooser among the actions the real objects offer."""
    born = {}

    def choose(run, acts):
        names = [a[0] for a in acts]
        now = int(reactor.seconds())
        if run.live:
            born.setdefault(run.conn_no, now)
            if "Pong" in names and run.conn_no > silent_first:
                return acts[names.index("Pong")]
            if "TimerFires" in names:
                return acts[names.index("TimerFires")]
            if now - born[run.conn_no] >= per_conn * interval and "ConnLost" in names:
                return acts[names.index("ConnLost")]
        elif "TimerFires" in names:
            return acts[names.index("TimerFires")]
        elif "ConnMade" in names:
            return acts[names.index("ConnMade")]
        if "Tick" in names:
            return acts[names.index("Tick")]
        return None
    return choose


def paused_gap_case(tid, interval, how, opener, intervals=6):
    """Back-pressure meets the monitor: a subchannel of the Leader has its producer paused when the connection is lost; during the gap
    the application lets go (resumeProducing / stopProducing / loseConnection); the next connection's peer answers every ping at once.
    Whatever the Leader remembers of the pause must not keep it from reading the pongs of a peer that answers."""
    run = TimerRun(interval)
    w = run.w
    snaps, lines = [], []
    timers_max = 0

    def step(la):
        nonlocal timers_max
        run.do(la)
        timers_max = max(timers_max, len(run._timer_calls()))
        snaps.append({"now": int(reactor.seconds()), "conn": run.conn_no if run.live else 0, "stopped": False, "timer": run.projection()["timer"]})
    step(("ConnMade", 1))
    try:
        w.listen("L", "p")
        w.listen("F", "p")
        res = w.open(opener, "p")
        w.pump()
        lp = res if opener == "L" else (w.sides["L"].factories["p"].built or [None])[-1]
        if lp is None or lp.transport is None:
            raise RuntimeError("no subchannel protocol on the Leader")
        lp.transport.pauseProducing()
        if how != "held":
            step(("ConnLost", 1))
            {"resume": lp.transport.resumeProducing, "stop": lp.transport.stopProducing, "close": lp.transport.loseConnection}[how]()
        w.settle()
    except Exception as e:
        run.errors.append("setup %s: %s" % (type(e).__name__, str(e)[:100]))
    policy = generations_policy(interval, 0, per_conn=intervals + 4)
    t_end = int(reactor.seconds()) + intervals * interval
    for _ in range(intervals * interval * 4 + 10):
        if int(reactor.seconds()) >= t_end:
            break
        acts = real_enabled(run, interval, t_end + 1, 2, False)
        la = policy(run, acts)
        if la is None or la[0] in ("ConnLost", "Stop"):
            break
        step(la)
    rec = {"tid": tid, "I": interval, "now": int(reactor.seconds()), "conn": run.conn_no if run.live else 0, "stopped": False,
           "pings": [{"conn": p["conn"], "sent": p["sent"], "answered": p["answered"], "lost": p["lost"]} for p in run.pings],
           "dropped": run.dropped, "timer": run.projection()["timer"], "maxTimers": timers_max, "snaps": snaps,
           "internal": run.errors + [repr(e)[:100] for e in run.w.logged] + [repr(e)[:100] for s_ in run.w.sides.values() for e in s_.errors]}
    # ground truth kept by the harness: is the Leader's application still asking for the pause (it never said resume / stop)?
    rec["appHoldsPause"] = how in ("close", "held")
    run.schedule.insert(0, ["paused-gap", how, opener])
    run.w.close()
    return run, rec


def real_walk(tid, interval, rng, horizon, max_conns, nsteps=40, script=None, policy=None, max_pause=0):
    """Code -> spec: a seeded random walk over what the real Leader Manager + TrafficTimer can do, recorded step by step
    (action + projection) for validation against DilationTimer.tla, and judged by the observer like every other run."""
    run = TimerRun(interval, throttle=[(), ("L",), ("F",), ("L", "F")][tid % 4])
    stopped = False
    lines, snaps = [], []
    timers_max = 0
    for step in range(len(script) if script is not None else nsteps):
        acts = real_enabled(run, interval, horizon, max_conns, stopped, max_pause)
        if not acts:
            break
        if policy is not None:
            la = policy(run, acts)
            if la is None:
                break
        elif script is not None:
            la = script[step]
            if la not in acts:
                break           # the real objects do not offer the scripted step any more (e.g. the connection was dropped)
        else:
            la = rng.choice(acts)
        run.do(la)
        if la[0] == "Stop":
            stopped = True
        if la[0] == "AppPause":
            run.npause = getattr(run, "npause", 0) + 1
        timers_max = max(timers_max, len(run._timer_calls()))
        pr = run.projection()
        lines.append({"a": list(la), "proj": pr})
        snaps.append({"now": int(reactor.seconds()), "conn": run.conn_no if run.live else 0, "stopped": stopped, "timer": pr["timer"]})
    rec = {"tid": tid, "I": interval, "now": int(reactor.seconds()), "conn": run.conn_no if run.live else 0, "stopped": stopped,
           "pings": [{"conn": p["conn"], "sent": p["sent"], "answered": p["answered"], "lost": p["lost"]} for p in run.pings],
           "dropped": run.dropped, "timer": run.projection()["timer"], "maxTimers": timers_max, "snaps": snaps,
           "internal": run.errors + [repr(e)[:100] for e in run.w.logged] + [repr(e)[:100] for s_ in run.w.sides.values() for e in s_.errors]}
    rec["appHoldsPause"] = any(d.get("held") for d in run.dropped)
    run.w.close()
    return run, rec, lines


def public_api_case(tid, interval, responsive, nintervals=5, mailbox_down=False):
    """The same question asked of the whole stack: two real wormholes, `w.dilate(ping_interval=interval)` on both, the real
    Connector / DilatedConnectionProtocol (harness Noise stand-in) over the simulated TCP fabric.  Once connected the Follower
    either goes silent (nothing is delivered any more) or keeps answering; the Leader's interval timer is let run for
    `nintervals` configured intervals and the record is judged by DilationTimerObs.tla against the *configured* interval."""
    from .dil_full import FullWorld
    fw = FullWorld(variant=tid)
    fw.dilate_kwargs = {"ping_interval": float(interval)}
    pings = []
    errors = []
    fw.do(("AppDilate", "L", 0))
    m = fw.manager("L")
    orig = m.send_ping

    def send_ping(ping_id, on_pong=None):
        pings.append({"conn": 1, "sent": int(reactor.seconds()), "answered": 0, "lost": m._outbound._connection is None, "id": ping_id})
        return orig(ping_id, on_pong)
    m.send_ping = send_ping
    fw.do(("AppDilate", "F", 0))
    connected = fw.run_out() and bool(fw.selected_links("L")) and bool(fw.selected_links("F"))
    snaps, dropped = [], []
    timers_max = 0
    t_end = reactor.seconds() + nintervals * interval + 1
    sel = fw.selected_links("L")
    link = fw.links[sel[0]] if sel else None
    e = fw.end_of(link, "L") if link is not None else None

    def timer_calls():
        return [dc for dc in reactor.getDelayedCalls() if getattr(dc.func, "__name__", "") == "timer_expired"]

    def snap():
        tc = timer_calls()
        snaps.append({"now": int(reactor.seconds()), "conn": 1, "stopped": False, "timer": int(tc[0].getTime()) if tc else 0})
    if connected and mailbox_down:
        # the whole network goes away: the Leader's connection to the mailbox server is lost as well and is being re-established
        # (its next attempt has started and goes nowhere) while the peer connection falls silent
        try:
            conn = fw.mb.live_conn(fw.cl["L"])
            if conn is not None:
                fw.mb.apply({"a": "Drop", "k": conn.id})
            if any(a_["a"] == "Retry" and a_["c"] == "L" for a_ in fw.mb.enabled(faults=False)):
                fw.mb.apply({"a": "Retry", "c": "L"})
        except Exception as ex:
            errors.append("mailbox_down: %r" % (ex,))
    if connected:
        snap()
        for _ in range(50):
            timers_max = max(timers_max, len(timer_calls()))
            if dropped:
                break
            nxt = min([dc.getTime() for dc in timer_calls()] + [t_end])
            reactor.rightNow = max(reactor.rightNow, nxt)
            try:
                fw.run_auto_timers()
                if responsive:
                    fw.run_out()
            except Exception as ex:
                errors.append(repr(ex)[:100])
            if responsive:
                for p_ in pings:
                    if not p_["answered"] and p_["id"] not in m._pings_outstanding:
                        p_["answered"] = int(reactor.seconds()) or 1
            if link.ends[e].disconnecting or not link.ends[e].connected:
                dropped.append({"conn": 1, "at": int(reactor.seconds())})
            snap()
            if reactor.seconds() >= t_end:
                break
    rec = {"tid": tid, "I": interval, "now": int(reactor.seconds()), "conn": 1 if connected else 0, "stopped": False,
           "pings": [{k: p_[k] for k in ("conn", "sent", "answered", "lost")} for p_ in pings], "dropped": dropped,
           "timer": snaps[-1]["timer"] if snaps else 0, "maxTimers": timers_max, "snaps": snaps,
           "internal": errors + fw.finish() + ([] if connected else ["public-api case: the two wormholes did not connect"]),
           "origin": "family:public-api:%s%s" % ("responsive" if responsive else "silent", "+mailbox-down" if mailbox_down else ""), "config": "public"}
    return rec


def run(prop, tier):
    quick = tier == "quick"
    seed = common.seed()
    v = common.Verdict(prop, tier)
    cov = {"tlc_configs": {}, "samples": [], "drift": []}
    INV = ["ResponsiveNeverDropped", "SilentDropped", "DroppedWithinThree", "NoTimerWithoutConn", "MonitoredWhenConnected", "NoInternal"]
    records, meta = [], {}
    states = transitions = 0
    ndrift = 0
    tid = 0
    with common.Workdir(prop) as wd:
        wd.gen_tables()
        cov["tables"] = wd.tables_info
        # (I2p: an application on the Leader's side may pause a subchannel - back-pressure stops the reading of the peer connection;
        # the statement's "never drops a responsive one" is then kept only while nobody holds a pause: known finding, DESIGN 7.4)
        INVP = ["ResponsiveNeverDroppedUnlessHeld"] + INV[1:]
        cfgs = {"I2": C(I=2, Horizon=10, MaxConns=2), "I3": C(I=3, Horizon=12, MaxConns=2), "I2p": C(I=2, Horizon=9, MaxConns=2, MaxPause=1)}
        if not quick:
            cfgs["I5"] = C(I=5, Horizon=22, MaxConns=3)
        for name, consts in cfgs.items():
            m = "MC_C16_" + name
            common.write_model(wd, m, "DilationTimer", consts, invariants=INVP if consts["MaxPause"] else INV)
            r = tlc.run(m + ".tla", m + ".cfg", cwd=wd.path, timeout=2400)
            cov["tlc_configs"][name] = {"distinct_states": r.distinct, "states_generated": r.generated, "depth": r.depth,
                                        "wall_s": round(r.wall, 1), "result": "ok" if r.ok else (r.violated or "error")}
            states += r.distinct
            transitions += r.generated
            behaviours = []
            if r.violated:
                behaviours.append(r.trace)
            elif not r.ok:
                raise RuntimeError("TLC failed on %s: %s" % (m, r.error or r.stdout[-1500:]))
            simdir = wd.file("sim_" + name)
            os.makedirs(simdir)
            tlc.run(m + ".tla", m + ".cfg", cwd=wd.path, workers=6, simulate={"num": (90 if quick else 900) // 6, "file": os.path.join(simdir, "tr")},
                    depth=60, seed=seed + 16, timeout=900)
            behaviours += list(tlc.read_sim_traces(os.path.join(simdir, "tr")))
            for tr in behaviours:
                tid += 1
                run_, rec, drift = replay_behaviour(tid, tr, consts["I"])
                rec["origin"], rec["config"] = "tlc-sim", name
                records.append(rec)
                meta[tid] = {"schedule": run_.schedule, "I": consts["I"], "throttle": list(run_.throttle)}
                if drift:
                    ndrift += 1
                    if len(cov["drift"]) < 6:
                        cov["drift"].append(dict(drift, tid=tid, config=name))
        # coverage goals: shortest behaviours reaching situations random simulation seldom does
        goals = {
            "second_conn_dropped": "\\E i \\in 1..Len(dropped) : dropped[i].conn = 2",
            "second_conn_answered_then_dropped": "\\E i \\in 1..Len(dropped) : dropped[i].conn = 2 /\\ Answered(2) # {}",
            "first_conn_answered_then_dropped": "\\E i \\in 1..Len(dropped) : dropped[i].conn = 1 /\\ Answered(1) # {}",
            "third_conn_dropped": "\\E i \\in 1..Len(dropped) : dropped[i].conn = 3",
            "two_drops": "Len(dropped) >= 2",
            "second_conn_three_answers": "conn = 2 /\\ Cardinality(Answered(2)) >= 3",
            "stop_on_second_conn_armed": "stopped /\\ conn = 2 /\\ Len(pings) >= 3",
            "lost_second_then_third_monitored": "conn = 3 /\\ timer > 0 /\\ Cardinality(Answered(3)) >= 1",
            # a loss in every TrafficTimer state, followed by the next connection
            "lost_while_ping_unanswered_then_reconnected": 'conn = 2 /\\ \\E k \\in Sent(1) : pings[k].answered = 0 /\\ Len(dropped) = 0',
            "lost_right_after_pong_then_reconnected": 'conn = 2 /\\ Answered(1) # {} /\\ Len(dropped) = 0 /\\ timer > 0',
        }
        for name, consts in (("I2", C(I=2, Horizon=16, MaxConns=3)), ("I3", C(I=3, Horizon=20, MaxConns=3))):
            wit, unreached = common.witnesses(wd, "DilationTimer", consts, goals, "MC_C16_goal_" + name)
            cov.setdefault("witness_goals", {})[name] = {"reached": [g for g, _ in wit], "unreached": unreached}
            for g, tr in wit:
                tid += 1
                run_, rec, drift = replay_behaviour(tid, tr, consts["I"])
                rec["origin"], rec["config"] = "tlc-witness:" + g, name
                records.append(rec)
                meta[tid] = {"schedule": run_.schedule, "I": consts["I"]}
                if drift:
                    ndrift += 1
                    if len(cov["drift"]) < 6:
                        cov["drift"].append(dict(drift, tid=tid, config=name, goal=g))
        # the model reproduces the known finding: a shortest behaviour in which a responsive connection is dropped (it holds a pause),
        # replayed on the real Manager like every other witness
        pconsts = C(I=2, Horizon=12, MaxConns=2, MaxPause=1)
        wit, unreached = common.witnesses(wd, "DilationTimer", pconsts, {"responsive_dropped_while_held": "~ResponsiveNeverDropped"}, "MC_C16_goalp")
        cov["witness_goals"]["I2p"] = {"reached": [g for g, _ in wit], "unreached": unreached}
        for g, tr in wit:
            tid += 1
            run_, rec, drift = replay_behaviour(tid, tr, 2)
            rec["origin"], rec["config"] = "tlc-witness:" + g, "I2p"
            records.append(rec)
            meta[tid] = {"schedule": run_.schedule, "I": 2}
            if drift:
                ndrift += 1
                if len(cov["drift"]) < 6:
                    cov["drift"].append(dict(drift, tid=tid, config="I2p", goal=g))
        # code -> spec: seeded random walks over the real objects, validated by TLC against DilationTimer.tla
        rng = random.Random(seed * 7919 + 16)
        tv = {"walks": 0, "accepted": 0, "rejected": []}
        for name, consts in (("I2", C(I=2, Horizon=30, MaxConns=4)), ("I3", C(I=3, Horizon=36, MaxConns=4)),
                             ("I2p", C(I=2, Horizon=30, MaxConns=4, MaxPause=4))):
            traces = {}
            scripts = [half_open_script(consts["I"], 5, k, af) for k in (1, 2) for af in (False, True)]
            for wn in range((40 if quick else 400) + len(scripts)):
                tid += 1
                script = scripts[wn] if wn < len(scripts) else None
                run_, rec, lines = real_walk(tid, consts["I"], rng, consts["Horizon"], consts["MaxConns"], script=script,
                                             max_pause=consts["MaxPause"])
                rec["origin"], rec["config"] = ("real-walk" if script is None else "half-open"), name
                records.append(rec)
                meta[tid] = {"schedule": run_.schedule, "I": consts["I"], "throttle": list(run_.throttle)}
                traces[tid] = lines
            # long histories: many generations on one Manager (whatever a Manager keeps from one connection to the next - ping
            # bookkeeping, timers, the monitor's state - has had time to pile up); the model's bounds are widened for these traces
            if name == "I2":
                gconsts = C(I=2, Horizon=70, MaxConns=9)
                gtraces = {}
                for silent_first in (0, 1, 2, 3):
                    tid += 1
                    run_, rec, lines = real_walk(tid, 2, rng, gconsts["Horizon"], gconsts["MaxConns"], nsteps=400,
                                                 policy=generations_policy(2, silent_first))
                    rec["origin"], rec["config"] = "generations:%d-silent-first" % silent_first, "I2-long"
                    records.append(rec)
                    meta[tid] = {"schedule": run_.schedule, "I": 2, "throttle": list(run_.throttle)}
                    gtraces[tid] = lines
                gres, _r = common.trace_validate(wd, "DilationTimer", gconsts, gtraces, T_PROJ, "MC_C16_trace_long")
                traces.update(gtraces)
            res, r = common.trace_validate(wd, "DilationTimer", consts, traces if name != "I2" else
                                           {t: l for t, l in traces.items() if t not in gtraces}, T_PROJ, "MC_C16_trace_" + name)
            if name == "I2":
                res.update(gres)
            for t, (reached, total) in sorted(res.items()):
                tv["walks"] += 1
                if reached == total:
                    tv["accepted"] += 1
                else:
                    ndrift += 1
                    if len(tv["rejected"]) < 6:
                        tv["rejected"].append({"tid": t, "config": name, "matched_lines": reached, "of": total,
                                               "next_line": traces[t][reached] if reached < total else None,
                                               "schedule": meta[t]["schedule"][:reached + 1]})
        cov["trace_validation"] = dict(tv, rule="each walk = up to 40 environment steps chosen among what the real Manager/TrafficTimer "
                                       "offers; accepted = DilationTimer.tla has a behaviour with the same actions and the same projected "
                                       "state (TrafficTimer state, deadline, connection, pings, monitor drops) after every step")
        # family: a pause that outlives its connection (back-pressure x monitor)
        n = 0
        for interval in (2, 3):
            for how in ("resume", "stop", "close", "held"):
                for opener in ("L", "F"):
                    tid += 1
                    n += 1
                    run_, rec = paused_gap_case(tid, interval, how, opener)
                    rec["origin"], rec["config"] = "paused-gap:%s:%s" % (how, opener), "I%d" % interval
                    records.append(rec)
                    meta[tid] = {"schedule": run_.schedule, "I": interval}
        cov["paused_gap_cases"] = n
        # family: the interval the application configures through the public API is the one the monitor keeps
        n = 0
        for interval in ((5, 47) if quick else (2, 5, 29, 47, 120)):
            for responsive in (False, True):
                tid += 1
                n += 1
                rec = public_api_case(tid, interval, responsive)
                records.append(rec)
                meta[tid] = {"schedule": [["public-api", interval, responsive]], "I": interval}
                if not responsive:
                    tid += 1
                    n += 1
                    rec = public_api_case(tid, interval, responsive, mailbox_down=True)
                    records.append(rec)
                    meta[tid] = {"schedule": [["public-api", interval, responsive, "mailbox-down"]], "I": interval}
        cov["public_api_cases"] = n
        path = wd.file("obs.ndjson")
        with open(path, "w") as f:
            for rec in records:
                f.write(json.dumps(rec) + "\n")
        with open(wd.file("MC_TTObs.cfg"), "w") as f:
            f.write("SPECIFICATION Spec\nCHECK_DEADLOCK FALSE\n")
        with open(wd.file("MC_TTObs.tla"), "w") as f:
            f.write("---- MODULE MC_TTObs ----\nEXTENDS DilationTimerObs\n====\n")
        r = tlc.run("MC_TTObs.tla", "MC_TTObs.cfg", workers=1, cwd=wd.path, env={"OBS_FILE": path}, timeout=1800)
        verdicts = {t[1]: dict(zip(OBS_NAMES, t[2])) for t in tlc.printed_tuples(r.stdout, "OBS")}
        if len(verdicts) != len(records):
            raise RuntimeError("observer evaluated %d of %d runs\n%s" % (len(verdicts), len(records), r.stdout[-2500:]))
    failing = 0
    distinct = set()
    for rec in records:
        distinct.add(json.dumps(meta[rec["tid"]]["schedule"]))
        bad = [n for n in OBS_NAMES if not verdicts[rec["tid"]][n]]
        if bad:
            failing += 1
            for clause in bad:          # each clause on its own: a known finding about one never hides another
                v.violation({"clause": clause, "I": rec["I"], "app_holds_pause": bool(rec.get("appHoldsPause"))},
                            "%s fails on the real Manager/TrafficTimer: %s" % (
                    clause, json.dumps({k: rec[k] for k in ("I", "now", "conn", "pings", "dropped", "timer", "internal")})[:600]),
                    dict(meta[rec["tid"]], observation=rec))
    cov.update(states=states, transitions=transitions, traces_validated_against_impl=len(records), evaluations=len(records),
               distinct_nontrivial=len(distinct), failing_runs=failing, replay_drift_count=ndrift,
               rule="a run = one TLC behaviour of DilationTimer.tla (pong latencies, silence, loss, reconnect, stop at every tick) "
                    "executed on a real Leader Manager + TrafficTimer on the virtual clock; distinct = distinct action sequences")
    cov["samples"] = [{"schedule": meta[rec["tid"]]["schedule"][:40], "pings": rec["pings"], "dropped": rec["dropped"]} for rec in records[:2]]
    return v.finish(cov, assumptions=[
        "integer time: one tick is one second of the simulated reactor; equality of instants (a pong exactly at an expiry) is "
        "ordered as the behaviour says",
        "the Follower is a real Manager answering pings over a scripted L2 connection"])


def replay(prop, path):
    d = json.load(open(path))["replay"]
    print(json.dumps(d["schedule"]))
    print(json.dumps(d["observation"], indent=1)[:2500])
    return 0
