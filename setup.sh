#!/bin/sh
# Nothing to compile: verify the toolchain the checks need, offline.
set -e
cd "$(dirname "$0")"
command -v tlc >/dev/null
command -v java >/dev/null
test -x /venv/bin/python
mkdir -p out evidence
PYTHONPATH="${VERIF_REPO:-/repo}/src:$(pwd)" /venv/bin/python - <<'PY'
import harness.sim, harness.tlc, harness.tables
import automat, twisted, nacl, spake2
print("setup ok")
PY
