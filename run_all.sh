#!/bin/sh
# run every registered quick (or $1) check in turn; prints one line per property
cd "$(dirname "$0")"
tier="${1:-quick}"
for p in $(python3 -c "import json;print(' '.join(c['property_id'] for c in json.load(open('MANIFEST.json'))['checks']))"); do
  s=$(date +%s); ./check $p $tier > out/last_$p.log 2>&1; rc=$?; e=$(date +%s)
  echo "$p rc=$rc $((e-s))s $(grep -c VIOLATION out/last_$p.log) violations $(grep -c KNOWN-FINDING out/last_$p.log) known"
done
