---- MODULE XferObs ----
\* Observer for real `wormhole send` / `wormhole receive` executions (C04): the properties of FileXfer.tla
\* evaluated on what the two commands reported and what the receiver's file system contains afterwards.
EXTENDS Naturals, Sequences, Json, IOUtils, TLC, TLCExt

All == ndJsonDeserialize(IOEnv.OBS_FILE)

\* both report success => the destination is byte-for-byte the source (files: content; trees: every path, kind,
\* size, hash and file mode)
P_BothOkExact(o) == (o.okS = "ok" /\ o.okR = "ok" /\ ~o.text) => (o.destExists /\ o.equal)
\* stream cut or corrupted before the receiver had every byte => nobody reports success, no destination appears
P_CutFails(o) == (o.fault \in {"cut", "corrupt"} /\ o.beforeAll) => (o.okS # "ok" /\ o.okR # "ok" /\ ~o.destExists)
\* acknowledgement lost / other hash / not ok => the sender does not report success
P_BadAckFails(o) == o.fault \in {"acklost", "badhash", "notok"} => o.okS # "ok"
P_NoTmpOnSuccess(o) == o.okR = "ok" => ~o.tmpLeft
\* a destination only ever appears complete, and nothing else is written next to it
P_NoDestUnlessOk(o) == (o.destExists => (o.equal /\ o.okR = "ok")) /\ o.others = <<>>
P_TextExact(o) == o.text => (o.okS = "ok" /\ o.okR = "ok" /\ o.textExact /\ ~o.tmpLeft)
\* no fault => both succeed (the commands do work)
P_CleanSucceeds(o) == (o.fault \in {"-", "nohash"}) => (o.okS = "ok" /\ o.okR = "ok")
P_NoInternal(o) == o.internal = <<>>

VARIABLE k
Init == k = 0
Next == k < Len(All) /\ k' = k + 1
        /\ PrintT(<<"OBS", All[k'].tid, <<P_BothOkExact(All[k']), P_CutFails(All[k']), P_BadAckFails(All[k']), P_NoTmpOnSuccess(All[k']),
                                          P_NoDestUnlessOk(All[k']), P_TextExact(All[k']), P_CleanSucceeds(All[k']), P_NoInternal(All[k'])>>>>)
Spec == Init /\ [][Next]_k
====
