---- MODULE XferProto ----
\* The application protocol of `wormhole send` / `wormhole receive` above the wormhole API (cli/cmd_send.py Sender._go,
\* _check_verifier, _handle_answer; cli/cmd_receive.py Receiver._go, _parse_offer, _ask_permission): who sends which message
\* when, what the users are asked, and what each command reports - for text, file and directory offers, with and without
\* `send --verify`, with the receiving user agreeing, refusing or having said --accept-file, with an existing destination,
\* and with codes that do not match.  Beyond the listed properties (FileXfer.tla covers the byte stream of C04); reported
\* under coverage.supplementary.
\*
\* One action per observable step of the real commands (harness/props/xferproto.py records exactly these from the real
\* cmd_send.send() / cmd_receive.receive() through a recording proxy around the wormhole object each of them creates):
\*   Code(p, t)      get_code() fired on that side; t is what the side has told its user to run on the other computer by then:
\*                   "code" (a command line that names the code), "zero" (a command line with -0 and no code), "-" (nothing)
\*   Verifier(p, r)  get_verifier() fired ("ok") or failed with WrongPasswordError ("wrong")
\*   Prompt(p, a)    input() was called and answered (S: "Verifier ... ok?"; R: "ok? (Y/n)")
\*   Send(p, k)      send_message() with a dict whose key is k: "transit" | "offer" | "answer" | "error"
\*   Recv(p, k)      get_message() fired with such a dict
\*   Done(p, o)      the command's Deferred fired: "ok" | "TransferError" | "WrongPasswordError"
\* The mailbox delivers each side's messages in order (C03); the transit phase is one step here.
EXTENDS Naturals, Sequences, FiniteSets, TLC

Modes == {"text", "file", "dir"}
\* flow: how the two sides come by their code.  "given": both are given it (--code X / receive X);  "salloc": the sender
\* allocates one and prints the command line for the receiving user, who runs *that*;  "ralloc": `receive --allocate` prints the
\* command line for the sending user;  "zero": both say -0 (the code is "0-", no code is printed);  "zeromix": only the
\* sender says -0 and the receiver was given a real code on nameplate 0 (they do not match)
Flows == {"given", "salloc", "ralloc", "zero", "zeromix"}
Configs == {[mode |-> m, verify |-> v, sanswer |-> sa, accept |-> a, match |-> mt, exists |-> ex, flow |-> fl] :
              m \in Modes, v \in BOOLEAN, sa \in {"yes", "no"}, a \in {"flag", "yes", "no"}, mt \in BOOLEAN, ex \in BOOLEAN, fl \in Flows}

VARIABLES cfg,       \* the configuration of this run (never changes)
          pc,        \* [S |-> .., R |-> ..] where each command is
          inbox,     \* [S |-> Seq(kind), R |-> Seq(kind)] messages on their way to that side, in order
          sent,      \* [S |-> Seq(kind), R |-> Seq(kind)] what each side has sent (history)
          prompted,  \* [S |-> "-" | answer, R |-> ...]
          printed,   \* the receiver has printed the text
          out,       \* [S |-> "-" | outcome, R |-> ...]
          told,      \* [S |-> "-" | "code" | "zero", R |-> ...] the command line that side has printed for the other user
          last
vars == <<cfg, pc, inbox, sent, prompted, printed, out, told, last>>

Other(p) == IF p = "S" THEN "R" ELSE "S"
Init == /\ cfg \in Configs
        /\ (cfg.flow = "zeromix" => ~cfg.match)
        /\ (cfg.flow \in {"salloc", "ralloc", "zero"} => cfg.match)       \* (the other user runs what was printed)
        /\ pc = [S |-> "code", R |-> "code"] /\ told = [S |-> "-", R |-> "-"]
        /\ inbox = [S |-> <<>>, R |-> <<>>] /\ sent = [S |-> <<>>, R |-> <<>>]
        /\ prompted = [S |-> "-", R |-> "-"] /\ printed = FALSE /\ out = [S |-> "-", R |-> "-"]
        /\ last = <<"Init", "-", "-">>

Goto(p, where) == pc' = [pc EXCEPT ![p] = where]
Keep == UNCHANGED <<cfg, inbox, sent, prompted, printed, out, told>>

\* ---- the code ------------------------------------------------------------------------------------------------------------
\* cmd_send always prints a command line for the other user (with the code, or with -0 and without one) before it waits for
\* the key; cmd_receive prints one only when it allocated the code itself.  A side that runs a printed command line cannot
\* start before that line exists.
Tells(p) == IF p = "S" THEN (IF cfg.flow \in {"zero", "zeromix"} THEN "zero" ELSE "code")
            ELSE (IF cfg.flow = "ralloc" THEN "code" ELSE "-")
Code(p) ==
  /\ pc[p] = "code"
  /\ (cfg.flow = "salloc" /\ p = "R") => told.S # "-"
  /\ (cfg.flow = "zero" /\ p = "R") => told.S # "-"
  /\ (cfg.flow = "ralloc" /\ p = "S") => told.R # "-"
  /\ told' = [told EXCEPT ![p] = Tells(p)]
  /\ Goto(p, "wait_ver")
  /\ last' = <<"Code", p, Tells(p)>>
  /\ UNCHANGED <<cfg, inbox, sent, prompted, printed, out>>

\* ---- key confirmation ------------------------------------------------------------------------------------------------
Verifier(p) ==
  /\ pc[p] = "wait_ver"
  /\ LET r == IF cfg.match THEN "ok" ELSE "wrong" IN
     /\ Goto(p, IF r = "wrong" THEN "fail_wp"
                ELSE IF p = "R" THEN "loop"
                ELSE IF cfg.verify THEN "prompt" ELSE "send_first")
     /\ last' = <<"Verifier", p, r>>
  /\ Keep

\* ---- the users ----------------------------------------------------------------------------------------------------------
Prompt(p) ==
  /\ pc[p] = "prompt"
  /\ LET a == IF p = "S" THEN cfg.sanswer ELSE cfg.accept IN
     /\ prompted' = [prompted EXCEPT ![p] = a]
     /\ Goto(p, IF a = "yes" THEN (IF p = "S" THEN "send_first" ELSE "send_answer") ELSE "send_error")
     /\ last' = <<"Prompt", p, a>>
  /\ UNCHANGED <<cfg, inbox, sent, printed, out, told>>

\* ---- sending ---------------------------------------------------------------------------------------------------------------
SendKind(p) ==
  CASE pc[p] = "send_first" -> IF cfg.mode = "text" THEN "offer" ELSE "transit"
    [] pc[p] = "send_offer" -> "offer"
    [] pc[p] = "send_transit" -> "transit"
    [] pc[p] = "send_answer" -> "answer"
    [] pc[p] = "send_error" -> "error"
    [] OTHER -> "-"
AfterSend(p) ==
  CASE pc[p] = "send_first" -> IF cfg.mode = "text" THEN "loop" ELSE "send_offer"
    [] pc[p] = "send_offer" -> "loop"
    [] pc[p] = "send_transit" -> "loop"
    [] pc[p] = "send_answer" -> IF cfg.mode = "text" THEN "done_ok" ELSE "xfer"
    [] pc[p] = "send_error" -> "fail_te"
    [] OTHER -> pc[p]
Send(p) ==
  /\ SendKind(p) # "-"
  /\ LET k == SendKind(p) IN
     /\ sent' = [sent EXCEPT ![p] = Append(@, k)]
     \* a side that is gone no longer reads; the frame is stored all the same
     /\ inbox' = [inbox EXCEPT ![Other(p)] = Append(@, k)]
     /\ Goto(p, AfterSend(p))
     /\ last' = <<"Send", p, k>>
  /\ UNCHANGED <<cfg, prompted, printed, out, told>>

\* ---- receiving -----------------------------------------------------------------------------------------------------------
\* the sender's loop: error -> TransferError; transit -> more hints; answer -> the transfer (or, for a text, done)
\* the receiver's loop: error -> TransferError; transit -> build the TransitReceiver and answer with its own hints;
\*   offer -> a text is printed and acknowledged; a file / directory is vetted (existing destination), the user is asked
\*   unless --accept-file was given, and then it is acknowledged
AfterRecv(p, k) ==
  IF k = "error" THEN "fail_te"
  ELSE IF p = "S" THEN (IF k = "answer" THEN (IF cfg.mode = "text" THEN "done_ok" ELSE "xfer") ELSE "loop")
  ELSE IF k = "transit" THEN "send_transit"
  ELSE IF k = "offer" THEN
       (IF cfg.mode = "text" THEN "send_answer"
        ELSE IF cfg.exists THEN "send_error"
        ELSE IF cfg.accept = "flag" THEN "send_answer" ELSE "prompt")
  ELSE "loop"
Recv(p) ==
  /\ pc[p] = "loop" /\ inbox[p] # <<>>
  /\ LET k == Head(inbox[p]) IN
     /\ inbox' = [inbox EXCEPT ![p] = Tail(@)]
     /\ Goto(p, AfterRecv(p, k))
     /\ printed' = (printed \/ (p = "R" /\ k = "offer" /\ cfg.mode = "text"))
     /\ last' = <<"Recv", p, k>>
  /\ UNCHANGED <<cfg, sent, prompted, out, told>>

\* ---- finishing --------------------------------------------------------------------------------------------------------------
\* the transit phase (FileXfer.tla's business) is one step: a side comes out of it once the other has entered it
Outcome(p) ==
  CASE pc[p] = "fail_wp" -> "WrongPasswordError"
    [] pc[p] = "fail_te" -> "TransferError"
    [] pc[p] = "done_ok" -> "ok"
    [] pc[p] = "xfer" /\ pc[Other(p)] \in {"xfer", "finished"} /\ out[Other(p)] \in {"-", "ok"} -> "ok"
    [] OTHER -> "-"
Done(p) ==
  /\ out[p] = "-" /\ Outcome(p) # "-"
  /\ out' = [out EXCEPT ![p] = Outcome(p)]
  /\ Goto(p, "finished")
  /\ last' = <<"Done", p, Outcome(p)>>
  /\ UNCHANGED <<cfg, inbox, sent, prompted, printed, told>>

Next == \E p \in {"S", "R"} : Code(p) \/ Verifier(p) \/ Prompt(p) \/ Send(p) \/ Recv(p) \/ Done(p)
Spec == Init /\ [][Next]_vars /\ WF_vars(Next)

\* ---- properties ----------------------------------------------------------------------------------------------------------------
InSeq(k, s) == \E i \in 1..Len(s) : s[i] = k
\* `send --verify`: nothing about the transfer leaves the sender before its user has confirmed the verifier
VerifyGate == cfg.verify => ((InSeq("offer", sent.S) \/ InSeq("transit", sent.S)) => prompted.S = "yes")
\* a refused or impossible transfer is not reported as a success by anybody
Refused == cfg.mode # "text" /\ (cfg.exists \/ cfg.accept = "no")
RefusedNoSuccess == Refused => (out.S # "ok" /\ out.R # "ok")
\* the sender of a text reports success only after the receiver has printed it
TextDelivered == (cfg.mode = "text" /\ out.S = "ok") => printed
\* codes that do not match: nothing is sent above the wormhole, nobody succeeds
WrongCodeSilent == ~cfg.match => (sent.S = <<>> /\ sent.R = <<>> /\ ~printed
                                  /\ out.S \in {"-", "WrongPasswordError"} /\ out.R \in {"-", "WrongPasswordError"})
\* the receiving user is asked exactly when a file or directory is offered, nothing is in the way and --accept-file was not given
AskedWhenDue == (prompted.R # "-") => (cfg.mode # "text" /\ ~cfg.exists /\ cfg.accept # "flag")
\* an error message makes both commands fail
ErrorMeansFailure == (InSeq("error", sent.S) \/ InSeq("error", sent.R)) => (out.S # "ok" /\ out.R # "ok")
\* a code is never printed in zero mode, and nobody who was given the code tells it to anybody... except cmd_send, which always
\* prints the command line; a side never gets to key confirmation without its code
ZeroPrintsNoCode == (cfg.flow \in {"zero", "zeromix"}) => (told.S # "code")
ReceiverTellsOnlyWhenAllocated == (told.R # "-") => cfg.flow = "ralloc"
CodeBeforeAnything == \A p \in {"S", "R"} : (pc[p] = "code") => (sent[p] = <<>> /\ out[p] = "-" /\ prompted[p] = "-")
\* both commands come to an end
Terminates == <>(out.S # "-" /\ out.R # "-")
====
