---- MODULE MailboxProps ----
\* The mailbox-level properties (C01 C02 C03 C08 C09 C14 C18) as pure operators over what the
\* application can observe.  Wormhole.tla applies them to the model state (TLC, exhaustive);
\* MailboxObs.tla applies the very same operators to observations recorded from real executions.
EXTENDS Naturals, Sequences, FiniteSets, SequencesExt

\* ev: sequence of [k |-> kind, v |-> value] in the order the application saw them
KindsOf(ev, k) == SelectSeq(ev, LAMBDA e : e.k = k)
CountOf(ev, k) == Len(KindsOf(ev, k))
ValuesOf(ev, k) == [i \in 1..CountOf(ev, k) |-> KindsOf(ev, k)[i].v]
BeforeEv(ev, k1, k2) == \A i, j \in 1..Len(ev) : (ev[i].k = k1 /\ ev[j].k = k2) => i < j

\* C18 -------------------------------------------------------------------------------------------
OnceEachEv(ev) == \A k \in {"code", "key", "verifier", "versions", "closed"} : CountOf(ev, k) <= 1
CausalOrderEv(ev) ==
    /\ BeforeEv(ev, "code", "key") /\ BeforeEv(ev, "key", "verifier")
    /\ BeforeEv(ev, "verifier", "versions") /\ BeforeEv(ev, "verifier", "message")
    /\ \A k \in {"welcome", "code", "key", "verifier", "versions", "message"} : BeforeEv(ev, k, "closed")
    /\ (CountOf(ev, "key") > 0 => CountOf(ev, "code") > 0)
    /\ (CountOf(ev, "verifier") > 0 => CountOf(ev, "key") > 0)
    /\ (CountOf(ev, "versions") > 0 => CountOf(ev, "verifier") > 0)
    /\ (CountOf(ev, "message") > 0 => CountOf(ev, "verifier") > 0)
VersionsFirstEv(ev) == BeforeEv(ev, "versions", "message")
\* late: sequence of [kind, res, closedBefore]: a get_*() issued at some moment; res is "ok" / "err" / "pending".
\* After closed, nothing may stay pending and nothing may succeed except values handed out before.
LateGetsOK(late, closedSeen) ==
    \A i \in 1..Len(late) :
        /\ (closedSeen => late[i].res # "pending")
        /\ (late[i].closedBefore => late[i].res = "err")

\* C03 / C02 --------------------------------------------------------------------------------------
\* what one side received is a prefix of what the other side passed to send_message
InOrderOnceSeq(received, sentByPeer) == IsPrefix(received, sentByPeer)

\* C08 -------------------------------------------------------------------------------------------
Verdicts == {"happy", "LonelyError", "WrongPasswordError", "ServerError", "WelcomeError", "ServerConnectionError"}
MoodOf(v) == CASE v = "happy" -> "happy" [] v = "LonelyError" -> "lonely" [] v = "WrongPasswordError" -> "scary"
               [] v = "ServerError" -> "errory" [] v = "WelcomeError" -> "unwelcome" [] OTHER -> "-"
ClosedOnceEv(ev) == CountOf(ev, "closed") <= 1
NothingAfterClosed(ev) == \A i, j \in 1..Len(ev) : (ev[i].k = "closed" /\ i < j) => FALSE
\* the verdict follows from what happened before closing started:
\*   cause = what started the shutdown: "welcome" / "server" / "scared" / "app" ; sawPeer = a peer message had been
\*   decrypted before
VerdictOK(v, cause, sawPeer) ==
    CASE cause = "welcome" -> v = "WelcomeError"
      [] cause = "server"  -> v = "ServerError"
      [] cause = "scared"  -> v = "WrongPasswordError"
      [] cause = "app"     -> v = IF sawPeer THEN "happy" ELSE "LonelyError"
      [] cause = "connfail" -> v = "ServerConnectionError"
      [] OTHER -> TRUE

\* C14 -------------------------------------------------------------------------------------------
\* ---- supplementary (not one of the listed properties): the WormholeStatus reports are consistent with the events
\*      st = <<conn, key, code>> as last reported; ev = the application's events so far
KeyRank(k) == CASE k = "nokey" -> 0 [] k = "alleged" -> 1 [] k = "confirmed" -> 2 [] OTHER -> -1
CodeRank(k) == CASE k = "nocode" -> 0 [] k = "allocated" -> 1 [] k = "consumed" -> 2 [] OTHER -> -1
StatusConsistentEv(st, ev, closedIsEvent) ==
    /\ CountOf(ev, "versions") > 0 => st[2] = "confirmed"
    /\ CountOf(ev, "verifier") > 0 => KeyRank(st[2]) >= 1
    /\ CountOf(ev, "key") > 0 => KeyRank(st[2]) >= 1
    /\ (closedIsEvent /\ CountOf(ev, "closed") > 0) => st[1] = "closed"
    /\ KeyRank(st[2]) >= 1 => CodeRank(st[3]) >= 1
    /\ KeyRank(st[2]) >= 0 /\ CodeRank(st[3]) >= 0 /\ st[1] \in {"connecting", "connected", "closed"}
\* a history of reports: never backwards, closed is final
StatusMonotoneSeq(h) == \A i, j \in 1..Len(h) : i < j =>
    /\ KeyRank(h[i][2]) <= KeyRank(h[j][2]) /\ CodeRank(h[i][3]) <= CodeRank(h[j][3])
    /\ (h[i][1] = "closed" => h[j][1] = "closed")

DocumentedVerdictEv(ev) == CountOf(ev, "closed") > 0 => KindsOf(ev, "closed")[1].v \in Verdicts
====
