---- MODULE Wormhole ----
\* Composition: real-client models (MailboxClient) + mailbox server (MailboxServer) + per-connection
\* FIFO network + application drivers + outsiders/adversary.  One environment action = one reactor
\* event of the implementation; the client's whole synchronous cascade is one step (Run).
EXTENDS MailboxClient, MailboxServer, MailboxProps

CONSTANTS Clients,          \* client names; a client's side string is its name
          Mode,             \* [Clients -> {"deferred","delegated"}]
          AppId,            \* [Clients -> STRING]
          CodeChoices,      \* [Clients -> set of <<nameplate, words>>] the codes set_code may be given
          AllowAllocate,    \* set of clients that may call allocate_code
          AllowInput,       \* set of clients that may call input_code
          MaxSend,          \* [Clients -> Nat] send_message calls per client
          MaxDrops,         \* [Clients -> Nat] connection losses per client
          AllowClose,       \* clients whose application may call close()
          MaxHelper,        \* input-helper calls (total)
          KnownErrs,        \* internal-error signatures listed in known_findings.json (reported, not re-alarmed)
          MaxDup,           \* duplicated message deliveries (total)
          MaxSwap,          \* reorderings of adjacent message frames (total)
          MaxInject,        \* messages added by an outsider / fabricated by the server (total)
          MaxTamper,        \* in-flight message frames modified by the server (total)
          InjectSet,        \* set of [side, phase, body] an outsider may add
          LateFrames,       \* BOOLEAN: frames that arrived in the same read as the frame whose handler called close()
                            \*          are still delivered after RC.stop() (Autobahn keeps parsing its buffer)
          ReentKinds,       \* event kinds whose delegate callback may call close() re-entrantly
          WelcomeErr,       \* BOOLEAN: the server may greet with welcome{error}
          ConnFails,        \* BOOLEAN: the very first connection attempt may fail
          SrvCloses,        \* BOOLEAN: the server may close a connection with a WebSocket closing handshake (counted as a drop)
          MaxAborts,        \* reconnect attempts whose TCP connection closes before the WebSocket handshake completes (total)
          MaxSrvErr,        \* unprovoked {"type": "error"} frames the server may send (total)
          MaxCloseAt        \* close() may be called while fewer than this many env steps ... (unused: 0)

VARIABLES cs, srv, net, bud, lastAct
vars == <<cs, srv, net, bud, lastAct>>
view == <<cs, srv, net, bud>>

Act(a, c, x, y) == [a |-> a, c |-> c, x |-> x, y |-> y]

Init ==
  /\ cs  = [c \in Clients |-> ClientInit(c, Mode[c], AppId[c])]
  /\ srv = SrvInit
  /\ net = [c \in Clients |-> DownConn]
  /\ bud = [drops |-> MaxDrops, helper |-> MaxHelper, dup |-> MaxDup, swap |-> MaxSwap, inject |-> MaxInject,
            tamper |-> MaxTamper, srverr |-> MaxSrvErr, aborts |-> MaxAborts, sends |-> [c \in Clients |-> 0], dead |-> [c \in Clients |-> FALSE],
            closeCalled |-> [c \in Clients |-> FALSE], codeCalls |-> [c \in Clients |-> 0],
            cause |-> [c \in Clients |-> "-"], peerSeen |-> [c \in Clients |-> FALSE], seenAtCause |-> [c \in Clients |-> FALSE],
            badSeen |-> [c \in Clients |-> FALSE], srvErrSeen |-> [c \in Clients |-> FALSE], welErrSeen |-> [c \in Clients |-> FALSE]]
  /\ lastAct = Act("Init", "-", "-", "-")

\* after a client cascade: frames it transmitted go onto its connection, towards the server
\* RC.stop() on a live connection = transport.loseConnection(): the connection is "closing"
\* If the stop happened inside the handler of a frame (re-entrant close), whatever else was already
\* in the read buffer (here: everything still queued) will be delivered all the same.
Flush(n, c, cl) == IF n[c].up
                   \* (during the server's closing handshake frames are no longer transmitted)
                   THEN [n EXCEPT ![c].c2s = IF n[c].wsclosing THEN @ ELSE @ \o cl.tx, ![c].closing = @ \/ cl.stopping,
                                  ![c].late = IF ~n[c].closing /\ cl.stopping /\ cl.reentFired /\ ~cs[c].reentFired /\ LateFrames
                                              THEN Len(n[c].s2c) ELSE @]
                   ELSE n
Clean(cl) == [cl EXCEPT !.tx = <<>>]

\* apply a cascade to client c: frames pushed on an empty stack
ClientStep(c, cl0, frames, wrapped, n) ==
  LET cl1 == RunEntry(cl0, frames, wrapped) IN
  /\ cs'  = [cs EXCEPT ![c] = Clean(cl1)]
  /\ net' = Flush(n, c, cl1)

ApiStep(c, frames) ==
  LET cl1 == RunApi(cs[c], frames) IN
  /\ cs'  = [cs EXCEPT ![c] = Clean(cl1)]
  /\ net' = Flush(net, c, cl1)

\* ---------------------------------------------------------------- application -------------------
CanApi(c) == ~bud.closeCalled[c] /\ ~cs[c].reentFired

\* the application arms the handler of one event kind to call close() from inside the callback
ArmClose(c, k) ==
  /\ CanApi(c) /\ c \in AllowClose /\ cs[c].mode = "delegated" /\ cs[c].reent = "-" /\ k \in ReentKinds
  /\ cs' = [cs EXCEPT ![c].reent = k]
  /\ lastAct' = Act("ArmClose", c, k, "-")
  /\ UNCHANGED <<srv, net, bud>>

\* Boss.set_code: validate_code (KeyFormatError) BEFORE the only-one-code test
AppSetCode(c, code) ==
  /\ CanApi(c) /\ bud.codeCalls[c] < 2
  /\ LET np == code[1]  w == code[2]
         a  == Args(w, np, NoBody) IN
     IF ~ValidNameplate(np) \/ w = "sp ace"
     THEN ApiStep(c, <<Call("API", "raise", Args("doc:KeyFormatError", "-", NoBody))>>)
     ELSE IF cs[c].didStart
     THEN ApiStep(c, <<Call("API", "raise", Args("doc:OnlyOneCodeError", "-", NoBody))>>)
     ELSE LET cl1 == RunApi([cs[c] EXCEPT !.didStart = TRUE], <<In("C", "_set_code", a)>>) IN
          /\ cs' = [cs EXCEPT ![c] = Clean(cl1)] /\ net' = Flush(net, c, cl1)
  /\ bud' = [bud EXCEPT !.codeCalls[c] = @ + 1]
  /\ lastAct' = Act("AppSetCode", c, code[1], code[2])
  /\ UNCHANGED srv

AppAllocate(c) ==
  /\ CanApi(c) /\ bud.codeCalls[c] < 2 /\ c \in AllowAllocate
  /\ IF cs[c].didStart
     THEN ApiStep(c, <<Call("API", "raise", Args("doc:OnlyOneCodeError", "-", NoBody))>>)
     ELSE LET cl1 == RunApi([cs[c] EXCEPT !.didStart = TRUE], <<In("C", "allocate_code", NoArgs)>>) IN
          /\ cs' = [cs EXCEPT ![c] = Clean(cl1)] /\ net' = Flush(net, c, cl1)
  /\ bud' = [bud EXCEPT !.codeCalls[c] = @ + 1]
  /\ lastAct' = Act("AppAllocate", c, "-", "-")
  /\ UNCHANGED srv

AppInput(c) ==
  /\ CanApi(c) /\ bud.codeCalls[c] < 2 /\ c \in AllowInput
  /\ IF cs[c].didStart
     THEN ApiStep(c, <<Call("API", "raise", Args("doc:OnlyOneCodeError", "-", NoBody))>>)
     ELSE LET cl1 == RunApi([cs[c] EXCEPT !.didStart = TRUE], <<In("C", "input_code", NoArgs)>>) IN
          /\ cs' = [cs EXCEPT ![c] = Clean(cl1)] /\ net' = Flush(net, c, cl1)
  /\ bud' = [bud EXCEPT !.codeCalls[c] = @ + 1]
  /\ lastAct' = Act("AppInput", c, "-", "-")
  /\ UNCHANGED srv

\* the input helper: any call in any order (documented errors are results, not failures)
HelperCalls(c) == {<<"refresh_nameplates", "-">>, <<"get_nameplate_completions", "-">>, <<"get_word_completions", "-">>}
                  \cup {<<"choose_nameplate", code[1]>> : code \in CodeChoices[c]}
                  \cup {<<"choose_words", code[2]>> : code \in CodeChoices[c]}
AppHelper(c, h) ==
  /\ CanApi(c) /\ cs[c].helper /\ bud.helper > 0
  /\ LET frames == IF h[1] = "choose_nameplate"
                   THEN IF ValidNameplate(h[2]) THEN <<In("I", "_choose_nameplate", Args(h[2], "-", NoBody))>>
                        ELSE <<Call("API", "raise", Args("doc:KeyFormatError", "-", NoBody))>>
                   ELSE <<In("I", h[1], Args(h[2], "-", NoBody))>> IN
     ApiStep(c, frames)
  /\ lastAct' = Act("AppHelper", c, h[1], h[2])
  /\ bud' = [bud EXCEPT !.helper = @ - 1]
  /\ UNCHANGED srv

AppSend(c) ==
  /\ CanApi(c) /\ bud.sends[c] < MaxSend[c]
  /\ ApiStep(c, <<In("B", "send", Args("m:" \o c \o ":" \o ToString(bud.sends[c]), "-", NoBody))>>)
  /\ bud' = [bud EXCEPT !.sends[c] = @ + 1]
  /\ lastAct' = Act("AppSend", c, "-", "-")
  /\ UNCHANGED srv

\* _DeferredWormhole.close(): calls Boss.close() unless closed() was already delivered
AppClose(c) ==
  /\ ~bud.closeCalled[c] /\ c \in AllowClose /\ ~cs[c].reentFired /\ cs[c].reent = "-"
  /\ IF cs[c].mode = "deferred" /\ cs[c].closedCalls > 0
     THEN cs' = cs /\ net' = net
     ELSE ApiStep(c, <<In("B", "close", NoArgs)>>)
  /\ bud' = [bud EXCEPT !.closeCalled[c] = TRUE,
                        !.cause[c] = IF @ = "-" THEN "app" ELSE @,
                        !.seenAtCause[c] = IF bud.cause[c] = "-" THEN bud.peerSeen[c] ELSE @]
  /\ lastAct' = Act("AppClose", c, "-", "-")
  /\ UNCHANGED srv

\* ---------------------------------------------------------------- connection life cycle ----------
WsOpenFrames == <<Call("RC", "ws_open", NoArgs), In("N", "connected", NoArgs), In("M", "connected", NoArgs),
                  In("L", "connected", NoArgs), In("A", "connected", NoArgs)>>

Welcome(err) == Frame("welcome", IF err THEN "error" ELSE "ok", "-", NoBody)

ConnOpen(c, werr) ==
  /\ ~net[c].up /\ ~cs[c].stopping /\ ~bud.dead[c]
  /\ werr => WelcomeErr
  /\ LET n1 == [net EXCEPT ![c] = [DownConn EXCEPT !.up = TRUE, !.gen = net[c].gen + 1, !.s2c = <<Welcome(werr)>>]] IN
     ClientStep(c, [cs[c] EXCEPT !.ws = TRUE, !.everConn = TRUE], WsOpenFrames, TRUE, n1)
  /\ lastAct' = Act("ConnOpen", c, IF werr THEN "error" ELSE "ok", "-")
  /\ UNCHANGED <<srv, bud>>

\* the very first attempt fails: whenConnected(failAfterFailures=1) errbacks -> Boss.error(ServerConnectionError)
ConnFail(c) ==
  /\ ConnFails /\ ~net[c].up /\ ~cs[c].everConn /\ ~cs[c].stopping /\ ~bud.dead[c]
  /\ ClientStep(c, cs[c], <<In("B", "error", Args("ServerConnectionError", "-", NoBody))>>, FALSE, net)
  /\ bud' = [bud EXCEPT !.dead[c] = TRUE]
  /\ lastAct' = Act("ConnFail", c, "-", "-")
  /\ UNCHANGED srv

\* a *re*connect attempt reaches something that is not (yet) a WebSocket server: Autobahn reports onClose without onOpen;
\* RendezvousConnector.ws_close tells nobody and ClientService tries again later.  (On the very first connection this is
\* ConnFail: ServerConnectionError.)
ConnAbort(c) ==
  /\ bud.aborts > 0 /\ ~net[c].up /\ cs[c].everConn /\ ~cs[c].stopping /\ ~bud.dead[c]
  /\ bud' = [bud EXCEPT !.aborts = @ - 1]
  /\ cs' = [cs EXCEPT ![c].status.conn = "connecting"]      \* the wrapped endpoint reports the attempt
  /\ lastAct' = Act("ConnAbort", c, "-", "-")
  /\ UNCHANGED <<srv, net>>

WsCloseFrames(cl) == IF cl.ws THEN <<In("N", "lost", NoArgs), In("M", "lost", NoArgs), In("L", "lost", NoArgs), In("A", "lost", NoArgs)>>
                     ELSE <<>>

Drop(c) ==
  /\ net[c].up /\ ~net[c].closing /\ bud.drops[c] > 0
  /\ LET n1 == [net EXCEPT ![c] = [DownConn EXCEPT !.gen = net[c].gen]] IN
     ClientStep(c, [cs[c] EXCEPT !.ws = FALSE], WsCloseFrames(cs[c]), FALSE, n1)
  /\ bud' = [bud EXCEPT !.drops[c] = @ - 1]
  /\ lastAct' = Act("Drop", c, "-", "-")
  /\ UNCHANGED srv

RECURSIVE ServeAll(_, _, _, _)
ServeAll(s, n, c, alloc) ==
  IF n[c].c2s = <<>> THEN [srv |-> s, net |-> n]
  ELSE LET r == Handle(s, [n EXCEPT ![c].c2s = Tail(@)], c, Head(n[c].c2s), alloc) IN ServeAll(r.srv, r.net, c, alloc)

AllocChoice == "4"      \* the nameplate the server hands out for `allocate` (harness: server.alloc_nameplate)

\* RC.stop() asked the transport to close: pending writes are flushed, then the connection is lost;
\* ws_close runs, then ClientService's stop Deferred fires -> Terminator.stoppedRC
CloseDone(c) ==
  /\ net[c].up /\ net[c].closing
  /\ LET r  == ServeAll(srv, net, c, AllocChoice)
         n1 == [r.net EXCEPT ![c] = [DownConn EXCEPT !.gen = net[c].gen]] IN
     /\ srv' = r.srv
     /\ ClientStep(c, [cs[c] EXCEPT !.ws = FALSE, !.stoppedRC = TRUE],
                   WsCloseFrames(cs[c]) \o <<In("T", "stoppedRC", NoArgs)>>, FALSE, n1)
  /\ lastAct' = Act("CloseDone", c, "-", "-")
  /\ UNCHANGED bud

Serve(c) ==
  /\ net[c].up /\ net[c].c2s # <<>> /\ ~net[c].wsclosing
  /\ LET r == Handle(srv, [net EXCEPT ![c].c2s = Tail(@)], c, Head(net[c].c2s), AllocChoice) IN
     srv' = r.srv /\ net' = r.net
  /\ lastAct' = Act("Serve", c, Head(net[c].c2s).t, Head(net[c].c2s).x)
  /\ UNCHANGED <<cs, bud>>

\* ---------------------------------------------------------------- server -> client ----------------
\* RendezvousConnector.ws_message dispatch
RxFrames(fr) ==
  CASE fr.t = "welcome"    -> IF fr.x = "error" THEN <<In("B", "rx_unwelcome", Args("WelcomeError", "-", NoBody))>>
                              ELSE <<Call("W", "got_welcome", NoArgs)>>
    [] fr.t = "claimed"    -> <<In("N", "rx_claimed", Args(fr.x, "-", NoBody))>>
    [] fr.t = "released"   -> <<In("N", "rx_released", NoArgs)>>
    [] fr.t = "closed"     -> <<In("M", "rx_closed", NoArgs)>>
    [] fr.t = "message"    -> <<Call("RC", "rx_message", Args(fr.x, fr.y, fr.z))>>
    [] fr.t = "allocated"  -> <<In("A", "rx_allocated", Args(fr.x, "-", NoBody))>>
    [] fr.t = "nameplates" -> <<In("L", "rx_nameplates", ArgsS(fr.s))>>
    [] fr.t = "error"      -> <<In("B", "rx_error", Args("ServerError", fr.x, NoBody))>>
    [] OTHER               -> <<>>

DeliverFrame(c, late) ==
  /\ net[c].up /\ net[c].s2c # <<>> /\ ~net[c].wsclosing
  /\ IF late THEN net[c].closing /\ net[c].late > 0 ELSE ~net[c].closing
  /\ LET fr == Head(net[c].s2c)
         n1 == [net EXCEPT ![c].s2c = Tail(@), ![c].late = IF late THEN @ - 1 ELSE @] IN
     ClientStep(c, cs[c], RxFrames(fr), TRUE, n1)
  /\ lastAct' = Act(IF late THEN "LateDeliver" ELSE "Deliver", c, Head(net[c].s2c).t, Head(net[c].s2c).y)
  /\ LET fr == Head(net[c].s2c)
         peerMsg == fr.t = "message" /\ fr.x # c
         good == peerMsg /\ fr.y # "pake" /\ cs[c].rkey # "-" /\ Decrypts(cs[c].rkey, fr.x, fr.y, fr.z)
         bad  == peerMsg /\ ~good /\ ~(fr.y = "pake" /\ fr.z.k = "pake")
         trig == CASE fr.t = "welcome" /\ fr.x = "error" -> "welcome" [] fr.t = "error" -> "server" [] OTHER -> "-" IN
     bud' = [bud EXCEPT !.peerSeen[c] = @ \/ good, !.badSeen[c] = @ \/ bad \/ (peerMsg /\ fr.y = "pake" /\ fr.z.key # cs[c].pwapp),
                        !.srvErrSeen[c] = @ \/ fr.t = "error", !.welErrSeen[c] = @ \/ (fr.t = "welcome" /\ fr.x = "error"),
                        !.cause[c] = IF @ = "-" /\ trig # "-" THEN trig ELSE @]
  /\ UNCHANGED srv

\* ---------------------------------------------------------------- conformant-but-unhelpful server ---
\* a stored message is delivered once more to a listener
Dup(c, i) ==
  /\ bud.dup > 0 /\ net[c].up /\ net[c].f.listening /\ net[c].f.mb # "-"
  /\ i \in 1..Len(srv.mb[net[c].f.mb].msgs)
  /\ LET m == srv.mb[net[c].f.mb].msgs[i] IN
     net' = Reply(net, c, Frame("message", m.side, m.phase, m.body))
  /\ bud' = [bud EXCEPT !.dup = @ - 1]
  /\ lastAct' = Act("Dup", c, ToString(i), "-")
  /\ UNCHANGED <<cs, srv>>

\* the server reports an error of its own accord (overload, internal fault, an operator's ban) at any moment
SrvError(c) ==
  /\ bud.srverr > 0 /\ net[c].up /\ ~net[c].closing
  /\ net' = ErrorReply(net, c, "unprovoked")
  /\ bud' = [bud EXCEPT !.srverr = @ - 1]
  /\ lastAct' = Act("SrvError", c, "-", "-")
  /\ UNCHANGED <<cs, srv>>

\* the server goes away gracefully (restart, idle timeout): it sends a WebSocket close frame; once the client has seen it
\* (everything sent before it has been delivered) the client's websocket is CLOSING: the server reads nothing more, and
\* whatever the client still tries to send is not transmitted (Autobahn refuses it); a moment later TCP closes (Drop).
\* Everything un-acknowledged is submitted again on the next connection, as after any loss.
SrvCloseBegin(c) ==
  /\ net[c].up /\ ~net[c].closing /\ ~net[c].wsclosing /\ net[c].s2c = <<>> /\ bud.drops[c] > 0 /\ SrvCloses
  /\ net' = [net EXCEPT ![c].wsclosing = TRUE, ![c].c2s = <<>>]
  /\ lastAct' = Act("SrvCloseBegin", c, "-", "-")
  /\ UNCHANGED <<cs, srv, bud>>

\* the mailbox is an unordered set: two adjacent message frames in flight change places
Swap(c, i) ==
  /\ bud.swap > 0 /\ net[c].up /\ i \in 1..(Len(net[c].s2c) - 1)
  /\ net[c].s2c[i].t = "message" /\ net[c].s2c[i + 1].t = "message"
  /\ net' = [net EXCEPT ![c].s2c = [@ EXCEPT ![i] = net[c].s2c[i + 1], ![i + 1] = net[c].s2c[i]]]
  /\ bud' = [bud EXCEPT !.swap = @ - 1]
  /\ lastAct' = Act("Swap", c, ToString(i), "-")
  /\ UNCHANGED <<cs, srv>>

\* an outsider (third participant or the server itself) puts a message into an existing mailbox
Inject(m, msg) ==
  /\ bud.inject > 0 /\ srv.mb[m].exists
  /\ LET r == AddMessage(srv, net, m, msg) IN srv' = r.srv /\ net' = r.net
  /\ bud' = [bud EXCEPT !.inject = @ - 1]
  /\ lastAct' = Act("Inject", m, msg.side \o "/" \o msg.phase, msg.body.k \o "/" \o msg.body.key \o "/" \o msg.body.side \o "/" \o msg.body.phase \o "/" \o msg.body.pt)
  /\ UNCHANGED cs

\* the server alters a message frame in flight: relabel side / phase, or replace the body
TamperOps == {"side", "phase", "flip"}
Tamper(c, i, op, v) ==
  /\ bud.tamper > 0 /\ net[c].up /\ i \in 1..Len(net[c].s2c) /\ net[c].s2c[i].t = "message"
  /\ LET fr == net[c].s2c[i]
         g  == CASE op = "side"  -> [fr EXCEPT !.x = v]
                 [] op = "phase" -> [fr EXCEPT !.y = v]
                 \* a flipped bit: ciphertexts no longer authenticate; a PAKE body either stops parsing ("junk"),
                 \* or still parses and is another group element ("elem") or no group element at all ("bad")
                 [] op = "flip"  -> [fr EXCEPT !.z = IF fr.z.k = "pake" /\ v = "elem" THEN Pake("flipped:" \o fr.z.key, "F")     \* nobody's message any more
                                                     ELSE IF fr.z.k = "pake" /\ v = "bad" THEN Body("pakeinv", "-", fr.z.side, "-", "-")
                                                     ELSE Junk("flip")] IN
     /\ (op = "flip" /\ v # "junk") => fr.z.k = "pake"
     /\ g # fr
     /\ net' = [net EXCEPT ![c].s2c[i] = g]
  /\ bud' = [bud EXCEPT !.tamper = @ - 1]
  /\ lastAct' = Act("Tamper", c, ToString(i), op \o ":" \o v)
  /\ UNCHANGED <<cs, srv>>

TamperValues(op) == CASE op = "side" -> Sides [] op = "phase" -> {"pake", "version", "0", "1"} [] OTHER -> {"junk", "elem", "bad"}

Next ==
  \/ \E c \in Clients :
        \/ \E code \in CodeChoices[c] : AppSetCode(c, code)
        \/ AppAllocate(c) \/ AppInput(c) \/ AppSend(c) \/ AppClose(c)
        \/ \E k \in ReentKinds : ArmClose(c, k)
        \/ \E h \in HelperCalls(c) : AppHelper(c, h)
        \/ \E w \in BOOLEAN : ConnOpen(c, w)
        \/ ConnFail(c) \/ ConnAbort(c) \/ Drop(c) \/ CloseDone(c) \/ Serve(c)
        \/ \E late \in BOOLEAN : DeliverFrame(c, late)
        \/ \E i \in 1..4 : Dup(c, i) \/ Swap(c, i)
        \/ SrvError(c) \/ SrvCloseBegin(c)
        \/ \E i \in 1..4, op \in TamperOps : \E v \in TamperValues(op) : Tamper(c, i, op, v)
  \/ \E m \in MailboxIds, msg \in InjectSet : Inject(m, msg)

Spec == Init /\ [][Next]_vars

\* fairness for the liveness checks: everything except the fault/app actions keeps moving
Progress(c) == ConnOpen(c, FALSE) \/ CloseDone(c) \/ Serve(c) \/ DeliverFrame(c, FALSE)
FairSpec == Spec /\ \A c \in Clients : WF_vars(Progress(c))

\* ================================================================== properties ======================
\* (the operators are those of MailboxProps, applied to the model's observable state)
Ev(c) == cs[c].events
Peer(c) == CHOOSE d \in Clients : d # c
SentBy(c) == [i \in 1..bud.sends[c] |-> "m:" \o c \o ":" \o ToString(i - 1)]
Msgs(c) == ValuesOf(Ev(c), "message")
Closed(c) == CountOf(Ev(c), "closed") > 0
ClosedResult(c) == KindsOf(Ev(c), "closed")[1].v
CleanCfg == MaxSwap = 0 /\ MaxInject = 0 /\ MaxTamper = 0 /\ MaxDup = 0

\* a re-entrant close() is an application close: cause "app" unless an error trigger came first
CauseOf(c) == IF bud.cause[c] = "-" /\ cs[c].reentFired THEN "app" ELSE bud.cause[c]
CloseAsked(c) == bud.closeCalled[c] \/ cs[c].reentFired

\* C14: no state machine receives an input it has no transition for, no assertion fires,
\*      and close never reports anything but a documented verdict
NoInternalError == \A c \in Clients : \A i \in 1..Len(cs[c].errs) : cs[c].errs[i] \in KnownErrs
\* enumeration aid: print every internal error reached (used with CONSTRAINT, never fails)
ReportErrs == \A c \in Clients : cs[c].errs = <<>> \/ PrintT(<<"ERR", cs[c].errs, lastAct.a>>)
DocumentedVerdict == \A c \in Clients : DocumentedVerdictEv(Ev(c))

\* supplementary: the status reports agree with what the application has been told, and never go backwards
StatusOf(c) == <<cs[c].status.conn, cs[c].status.key, cs[c].status.code>>
\* as compared with the implementation: while the connection is down, whether the last report still says "connected" or already
\* "connecting" depends on when ClientService's retry timer fires, which the model does not time
StatusView(c) == <<IF ~net[c].up /\ cs[c].status.conn \in {"connected", "connecting"} THEN "down" ELSE cs[c].status.conn,
                   cs[c].status.key, cs[c].status.code>>
StatusConsistent == \A c \in Clients : StatusConsistentEv(StatusOf(c), Ev(c), TRUE)
StatusMonotone == [][\A c \in Clients : StatusMonotoneSeq(<<StatusOf(c), StatusOf(c)'>>)]_vars

\* C18: at most once each, causal order
OnceEach == \A c \in Clients : OnceEachEv(Ev(c))
CausalOrder == \A c \in Clients : CausalOrderEv(Ev(c))
VersionsFirst == (MaxSwap = 0 /\ MaxInject = 0 /\ MaxTamper = 0) => \A c \in Clients : VersionsFirstEv(Ev(c))

\* C03 (and C02's "never twice, never altered"): received is a prefix of what the peer sent
InOrderOnce == Cardinality(Clients) = 2 => \A c \in Clients : InOrderOnceSeq(Msgs(c), SentBy(Peer(c)))

\* C08: once, nothing after, right verdict, server resources freed
ClosedOnce == \A c \in Clients : ClosedOnceEv(Ev(c))
NothingAfter == \A c \in Clients : NothingAfterClosed(Ev(c))
VerdictRight == \A c \in Clients : (Closed(c) /\ ClosedResult(c) \in Verdicts) =>
    LET v == ClosedResult(c) IN
    /\ (v = "happy" => bud.peerSeen[c])
    /\ (v = "LonelyError" => CauseOf(c) = "app" /\ ((CleanCfg /\ ~cs[c].reentFired) => ~bud.seenAtCause[c]))
    /\ (v = "WrongPasswordError" => bud.badSeen[c])
    /\ (v = "ServerError" => bud.srvErrSeen[c])
    /\ (v = "WelcomeError" => bud.welErrSeen[c])
    /\ ((CleanCfg /\ bud.cause[c] = "app" /\ bud.seenAtCause[c]) => v = "happy")
\* ... and with nobody forging frames it is one of the verdicts of the statement (an internal error in its place is a wrong verdict)
VerdictKnown == (MaxInject = 0 /\ MaxTamper = 0) => \A c \in Clients : Closed(c) => ClosedResult(c) \in Verdicts
ServerFreedAtClose == \A c \in Clients :
    (Closed(c) /\ ClosedResult(c) \in Verdicts \ {"ServerConnectionError"})
       => /\ (cs[c].nameplate # "-" => ~(srv.np[cs[c].nameplate].mb # "-" /\ srv.np[cs[c].nameplate].sides[c] = "claimed"))
          /\ ~net[c].up
          /\ (cs[c].mailbox # "-" /\ cs[c].st.M \in {"S4"} /\ \E r \in srv.closes : r.side = c) =>
                 \E r \in srv.closes : r.side = c /\ r.mb = cs[c].mailbox /\ r.mood = MoodOf(ClosedResult(c))
\* an explicitly opened mailbox is closed again before the closed notification

\* C01/C02: keys agree iff codes match; only honest, correctly labelled ciphertexts are delivered
KeyAgreement == \A c, d \in Clients : (c # d /\ CountOf(Ev(c), "verifier") > 0 /\ CountOf(Ev(d), "verifier") > 0)
                   => ValuesOf(Ev(c), "verifier")[1] = ValuesOf(Ev(d), "verifier")[1]
VerifiedImpliesSameCode == (Cardinality(Clients) = 2 /\ MaxInject = 0) => \A c \in Clients :
    (CountOf(Ev(c), "verifier") > 0 => (cs[c].code = cs[Peer(c)].code /\ cs[c].appid = cs[Peer(c)].appid))
MismatchSilent == Cardinality(Clients) = 2 /\ MaxInject = 0 => \A c \in Clients :
    (cs[c].code # "-" /\ cs[Peer(c)].code # "-" /\ (cs[c].code # cs[Peer(c)].code \/ cs[c].appid # cs[Peer(c)].appid))
       => CountOf(Ev(c), "verifier") = 0 /\ CountOf(Ev(c), "versions") = 0 /\ CountOf(Ev(c), "message") = 0
\* ... and nobody whose peer used another code (or application id) is ever told that all went well
MismatchNotHappy == Cardinality(Clients) = 2 /\ MaxInject = 0 => \A c \in Clients :
    (cs[c].code # "-" /\ cs[Peer(c)].code # "-" /\ (cs[c].code # cs[Peer(c)].code \/ cs[c].appid # cs[Peer(c)].appid) /\ Closed(c))
       => ClosedResult(c) # "happy"
NoForgery == InOrderOnce /\ \A c \in Clients : Cardinality(Clients) = 2 =>
    \A i \in 1..CountOf(Ev(c), "versions") : ValuesOf(Ev(c), "versions")[i] = "ver:" \o Peer(c)

\* liveness (checked only on the smallest constants, under FairSpec)
CloseCompletes == \A c \in Clients : (CloseAsked(c) /\ ~bud.dead[c]) ~> Closed(c)
====
