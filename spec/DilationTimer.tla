---- MODULE DilationTimer ----
\* C16: the Leader's connection monitor (dilation/manager.py: TrafficTimer - its transition table Tbl_TT is
\* extracted from the tree - plus Manager._send_ping_reset_timer / _signal_reconnect /
\* connector_connection_made / _stop_using_connection / abandon_connection), with explicit integer time.
\* One ping interval is I ticks.  The peer either answers a ping after a latency of 0..I-1 ticks or not at all.
EXTENDS Naturals, Sequences, FiniteSets, TLC, Tables

CONSTANTS I,          \* ping interval in ticks
          Horizon,    \* how far time runs
          MaxConns,   \* connections over the run
          MaxPause    \* times an application on the Leader's side pauses a subchannel (0: back-pressure not modelled)

VARIABLES now,
          tt,         \* TrafficTimer state
          timer,      \* deadline of Manager._timer, 0 = no timer
          conn,       \* number of the connection in use, 0 = none
          usable,     \* Outbound has been told to use the connection (pings are actually transmitted)
          pings,      \* sequence of [conn, sent, answered (time or 0), lost (never transmitted)]
          dropped,    \* sequence of [conn, at]: disconnect() called by the monitor
          stopped,
          conns,
          internal,   \* inputs the TrafficTimer had no transition for
          hold,       \* an application on the Leader's side is asking for a pause: Inbound has stopped reading the peer connection
                      \* (and, the request carrying over, will not read the next one either)
          unread,     \* pings whose pong the peer has written and the Leader has not read
          npause,
          last
vars == <<now, tt, timer, conn, usable, pings, dropped, stopped, conns, internal, hold, unread, npause, last>>

Init == /\ now = 0 /\ tt = Init_TT /\ timer = 0 /\ conn = 0 /\ usable = FALSE /\ pings = <<>> /\ dropped = <<>>
        /\ stopped = FALSE /\ conns = 0 /\ internal = <<>> /\ hold = FALSE /\ unread = {} /\ npause = 0 /\ last = <<"Init", 0>>

\* ---- TrafficTimer input: returns the new [tt, timer, pings, dropped]
\* begin_timing = Manager._send_ping_reset_timer: send a ping (transmitted only if Outbound has the connection),
\*   then start the timer or - if one is running - push its deadline back by one interval (DelayedCall.delay)
\* signal_reconnect = Manager._signal_reconnect: disconnect the connection in use
RECURSIVE RunOuts(_, _)
RunOuts(r, outs) ==
  IF outs = <<>> THEN r
  ELSE LET o == Head(outs)
           r1 == CASE o = "begin_timing" ->
                        [r EXCEPT !.pings = Append(@, [conn |-> conn, sent |-> now, answered |-> 0, lost |-> ~(usable /\ conn > 0)]),
                                  !.timer = IF @ = 0 THEN now + I ELSE @ + I]
                   [] o = "signal_reconnect" ->
                        IF conn > 0 THEN [r EXCEPT !.dropped = Append(@, [conn |-> conn, at |-> now, held |-> hold])] ELSE r
                   [] OTHER -> r
       IN RunOuts(r1, Tail(outs))
TTInput(inp, t0) ==
  IF <<tt, inp>> \in DOMAIN Tbl_TT
  THEN LET row == Tbl_TT[<<tt, inp>>] IN
       RunOuts([tt |-> row.next, timer |-> t0, pings |-> pings, dropped |-> dropped, err |-> ""], row.outs)
  ELSE [tt |-> tt, timer |-> t0, pings |-> pings, dropped |-> dropped, err |-> "NoTransition:TT." \o tt \o "." \o inp]

Set(r) == /\ tt' = r.tt /\ timer' = r.timer /\ pings' = r.pings /\ dropped' = r.dropped
          /\ internal' = IF r.err # "" THEN Append(internal, r.err) ELSE internal

\* ---- time
NextEvent == IF timer > 0 THEN timer ELSE Horizon + 1
Tick == /\ now < Horizon /\ (timer = 0 \/ now < timer)
        /\ now' = now + 1 /\ last' = <<"Tick", now + 1>>
        /\ UNCHANGED <<tt, timer, conn, usable, pings, dropped, stopped, conns, internal, hold, unread, npause>>

\* the interval timer expires: timer_expired() clears _timer and tells the TrafficTimer
TimerFires == /\ timer > 0 /\ now = timer
              /\ Set(TTInput("interval_elapsed", 0))
              /\ last' = <<"TimerFires", now>>
              /\ UNCHANGED <<now, conn, usable, stopped, conns, hold, unread, npause>>

\* a pong for ping k arrives (the peer answers within one interval, or never)
Pong(k) == /\ k \in 1..Len(pings) /\ pings[k].conn = conn /\ conn > 0 /\ ~pings[k].lost /\ pings[k].answered = 0
           /\ now < pings[k].sent + I /\ now >= pings[k].sent
           /\ IF hold
                THEN \* the peer has answered; the Leader is not reading: the pong waits in the socket
                     /\ pings' = [pings EXCEPT ![k].answered = IF now = 0 THEN 1 ELSE now]
                     /\ unread' = unread \cup {k}
                     /\ UNCHANGED <<tt, timer, dropped, internal>>
                ELSE LET r == TTInput("traffic_seen", timer) IN
                     /\ tt' = r.tt /\ timer' = r.timer /\ dropped' = r.dropped
                     /\ internal' = IF r.err # "" THEN Append(internal, r.err) ELSE internal
                     /\ pings' = [r.pings EXCEPT ![k].answered = IF now = 0 THEN 1 ELSE now]
                     /\ UNCHANGED unread
           /\ last' = <<"Pong", k>>
           /\ UNCHANGED <<now, conn, usable, stopped, conns, hold, npause>>

DroppedAtNow == {dropped[i].at : i \in {j \in 1..Len(dropped) : dropped[j].conn = conn}}
\* ---- back-pressure on the Leader's side (Inbound: the peer connection is not read while any subchannel asks for a pause)
\* (the harness performs these two between timer events: not at the very instant an expiry is due)
TimerDue == timer > 0 /\ now = timer
\* the Leader reads its connection unless it has told the transport to go away (stop, or the monitor's own disconnect())
Reading == conn > 0 /\ ~stopped /\ DroppedAtNow = {}
AppPause == /\ ~hold /\ npause < MaxPause /\ conn > 0 /\ ~stopped /\ ~TimerDue
            /\ hold' = TRUE /\ npause' = npause + 1
            /\ last' = <<"AppPause", now>>
            /\ UNCHANGED <<now, tt, timer, conn, usable, pings, dropped, stopped, conns, internal, unread>>
\* the application lets go: whatever waited in the socket of the connection in use is read at once
AppResume == /\ hold /\ hold' = FALSE /\ unread' = {} /\ ~TimerDue
             /\ IF unread # {} /\ Reading
                  THEN LET r == TTInput("traffic_seen", timer) IN Set(r)
                  ELSE UNCHANGED <<tt, timer, pings, dropped, internal>>
             /\ last' = <<"AppResume", now>>
             /\ UNCHANGED <<now, conn, usable, stopped, conns, npause>>

\* ---- connections
\* connector_connection_made: TrafficTimer.got_connection() FIRST (its ping is not transmitted: Outbound has no
\* connection yet), then Outbound.use_connection
ConnMade == /\ conn = 0 /\ ~stopped /\ conns < MaxConns
            /\ LET r == TTInput("got_connection", timer) IN Set(r)
            /\ conn' = conns + 1 /\ conns' = conns + 1 /\ usable' = TRUE
            /\ last' = <<"ConnMade", conns + 1>>
            /\ UNCHANGED <<now, stopped, hold, unread, npause>>
\* the connection is lost (for whatever reason, including our own disconnect()): lost_connection, timer cancelled
ConnLost == /\ conn > 0
            /\ LET r == TTInput("lost_connection", 0) IN Set(r)
            /\ conn' = 0 /\ usable' = FALSE /\ unread' = {}
            /\ last' = <<"ConnLost", conn>>
            /\ UNCHANGED <<now, stopped, conns, hold, npause>>
\* dilation is stopped: abandon_connection cancels the timer and disconnects; the loss follows
Stop == /\ ~stopped /\ stopped' = TRUE
        /\ timer' = 0
        /\ last' = <<"Stop", now>>
        /\ UNCHANGED <<now, tt, conn, usable, pings, dropped, conns, internal, hold, unread, npause>>

\* a record that is not a pong arrives on the connection in use (an ack, data of some subchannel).  It says nothing about whether
\* the peer answers our pings - a half-open connection still delivers such records - and leaves the monitor alone
OtherTraffic == /\ conn > 0 /\ ~stopped
                /\ last' = <<"OtherTraffic", conn>>
                /\ UNCHANGED <<now, tt, timer, conn, usable, pings, dropped, stopped, conns, internal, hold, unread, npause>>

Next == Tick \/ TimerFires \/ ConnMade \/ ConnLost \/ Stop \/ OtherTraffic \/ (\E k \in 1..(Horizon + 2) : Pong(k))
        \/ AppPause \/ AppResume
Spec == Init /\ [][Next]_vars

\* ---- properties ------------------------------------------------------------------------------------------------------
\* pings of connection c that were transmitted / answered
Sent(c) == {k \in 1..Len(pings) : pings[k].conn = c /\ ~pings[k].lost}
Answered(c) == {k \in Sent(c) : pings[k].answered > 0}
Unanswered(c) == Sent(c) \ Answered(c)
DroppedAt(c) == {dropped[i].at : i \in {j \in 1..Len(dropped) : dropped[j].conn = c}}
\* (b) a connection whose peer answers every ping within one interval is never dropped by the monitor
ResponsiveNeverDropped == \A i \in 1..Len(dropped) :
    \E k \in Sent(dropped[i].conn) : pings[k].answered = 0 /\ pings[k].sent + I <= dropped[i].at
\* ... which the code does not keep once back-pressure is in the picture (MaxPause > 0): a pause held across two expiries leaves
\* the pongs unread and the monitor gives up on a peer that answered (known finding, DESIGN 7.4).  What it does keep:
ResponsiveNeverDroppedUnlessHeld == \A i \in 1..Len(dropped) :
    dropped[i].held \/ \E k \in Sent(dropped[i].conn) : pings[k].answered = 0 /\ pings[k].sent + I <= dropped[i].at
\* (a) a silent connection is dropped no later than the second expiry after the last answered ping, i.e. under
\*     three intervals: if a transmitted ping has been unanswered for 2 intervals, the connection is gone or dropped
LastAnsweredSent(c) == IF Answered(c) = {} THEN 0 ELSE CHOOSE t \in {pings[k].sent : k \in Answered(c)} :
                                                         \A k \in Answered(c) : pings[k].sent <= t
SilentDropped == (conn > 0 /\ ~stopped) =>
    \A k \in Unanswered(conn) : (now > pings[k].sent + 2 * I) => DroppedAt(conn) # {}
DroppedWithinThree == \A i \in 1..Len(dropped) : \A k \in Unanswered(dropped[i].conn) :
    (pings[k].sent > LastAnsweredSent(dropped[i].conn) => dropped[i].at <= pings[k].sent + 2 * I)
       \/ \E k2 \in Unanswered(dropped[i].conn) : pings[k2].sent < pings[k].sent
\* (c) monitoring stops with the connection / with dilation, and there is never more than one timer
NoTimerWithoutConn == (conn = 0 \/ stopped) => timer = 0
NoInternal == internal = <<>>
MonitoredWhenConnected == (conn > 0 /\ ~stopped /\ DroppedAt(conn) = {}) => timer > 0
====
