---- MODULE WormholeTrace ----
\* Code -> spec: traces recorded from real wormhole objects (harness/mbworld.py, one NDJSON line per
\* environment step) are checked against Wormhole.tla.  Each line carries the environment action and
\* the projection of the real state after it; a trace is accepted iff the specification has a
\* behaviour that takes the same actions and whose projected state equals the recorded one after
\* every step.  All traces of a run are validated in one TLC invocation (variable tid).
EXTENDS Wormhole, Json, IOUtils, TLCExt

All == ndJsonDeserialize(IOEnv.TRACE_FILE)
Tids == {All[k].tid : k \in DOMAIN All}
\* constant-level, so TLC evaluates it once
TraceOf == [t \in Tids |-> SelectSeq(All, LAMBDA r : r.tid = t)]
LinesOf(t) == TraceOf[t]

VARIABLES tid, l
tvars == <<vars, tid, l>>

Line == LinesOf(tid)[l]

\* projection of the spec state of client c, shaped like harness/mbconf.project_real
ProjEvents(c) == LET ks == [i \in 1..Len(cs[c].events) |-> cs[c].events[i].k] IN
                 SelectSeq(ks, LAMBDA k : ~(Mode[c] = "deferred" /\ k = "closed"))
Proj(c) == [st |-> cs[c].st, nextTx |-> cs[c].nextTx, nextRx |-> cs[c].nextRx, up |-> net[c].up,
            closing |-> net[c].closing, ev |-> ProjEvents(c), errs |-> cs[c].errs # <<>>,
            pend |-> [i \in 1..Len(cs[c].pend) |-> cs[c].pend[i][1]],
            c2s |-> Len(net[c].c2s), s2c |-> Len(net[c].s2c),
            status |-> StatusView(c)]

TInit == Init /\ tid \in Tids /\ l = 1

MatchAct(la, w) == /\ la.a = w.a /\ la.c = w.c
                   /\ (w.x = "*" \/ la.x = w.x) /\ (w.y = "*" \/ la.y = w.y)

TNext == /\ l <= Len(LinesOf(tid))
         /\ Next
         /\ MatchAct(lastAct', Line.a)
         /\ \A c \in Clients : Proj(c)' = Line.proj[c]
         /\ l' = l + 1 /\ tid' = tid

TSpec == TInit /\ [][TNext]_tvars

\* acceptance: the furthest line reached per trace id (register tid) must be the last line
Mark == TLCSet(tid, IF TLCGet(tid) < l THEN l ELSE TLCGet(tid))
RegInit == \A t \in Tids : TLCSet(t, 0)
Post == \A t \in Tids : PrintT(<<"TRACE", t, TLCGet(t) - 1, Len(LinesOf(t))>>)
====
