---- MODULE DilationSub ----
\* C13: Dilation subchannels over a reliable, in-order record channel (C10's guarantee is the interface):
\* dilation/subchannel.py SubChannel (its Automat table Tbl_SC is extracted from the tree), the endpoints,
\* SubchannelDemultiplex (_factories / _pending_opens / _expected), dilation/inbound.py handle_open /
\* handle_data / handle_close / subchannel_closed, Manager.allocate_subchannel_id.
\* Two sides, "L" (Leader) and "F" (Follower).  A subchannel is named by its id; odd ids are the Leader's,
\* even ids the Follower's.  Each subchannel has an opener end and (once the OPEN arrived) an acceptor end.
EXTENDS Naturals, Sequences, FiniteSets, SequencesExt, TLC, Tables

CONSTANTS Names,        \* subprotocol names in play
          Expected,     \* [{"L","F"} -> [given |-> BOOLEAN, names |-> set of names]]: expected_subprotocols of dilate()
          MaxOpens,     \* connect() calls per side
          MaxWrites,    \* write() calls per subchannel end
          Half,         \* BOOLEAN: application protocols are IHalfCloseableProtocol
          Openers       \* sides whose application calls connect()

Sides == {"L", "F"}
Peer(s) == IF s = "L" THEN "F" ELSE "L"
Ids == 1..(2 * MaxOpens)
OwnerOf(id) == IF id % 2 = 1 THEN "L" ELSE "F"

VARIABLES
  nextId,     \* [Sides -> next subchannel id to allocate]
  ends,       \* [Ids -> [o |-> end record, a |-> end record]]  end = [st, ev, pend, pclose, writes, err, exists]
  name,       \* [Ids -> subprotocol name or "-"]
  wire,       \* [Sides -> Seq(record)] records in flight *towards* that side, in order
  listening,  \* [Sides -> set of names with a registered factory]
  pending,    \* [Sides -> Seq(id)] OPENs held until a listener appears (per name order is the deque order)
  openAt,     \* [Sides -> set of ids in that side's Inbound._open_subchannels]
  logged,     \* protocol-level complaints (DataForMissingSubchannelError ...): not failures
  internal,   \* NoTransition / assertion failures
  last
vars == <<nextId, ends, name, wire, listening, pending, openAt, logged, internal, last>>

\* lclosed: the application's loseConnection()/loseWriteConnection() was accepted; closes: CLOSE records this end
\* has emitted; lateok: writes accepted (no exception) after lclosed
NoEnd == [st |-> "none", ev |-> <<>>, pend |-> <<>>, pclose |-> FALSE, writes |-> 0, err |-> <<>>,
          lclosed |-> FALSE, closes |-> 0, lateok |-> 0]
FreshEnd == [NoEnd EXCEPT !.st = Init_SC]
Rec(t, id, x) == [t |-> t, id |-> id, x |-> x]

Init == /\ nextId = [s \in Sides |-> IF s = "L" THEN 1 ELSE 2]
        /\ ends = [i \in Ids |-> [o |-> NoEnd, a |-> NoEnd]]
        /\ name = [i \in Ids |-> "-"]
        /\ wire = [s \in Sides |-> <<>>] /\ listening = [s \in Sides |-> {}] /\ pending = [s \in Sides |-> <<>>]
        /\ openAt = [s \in Sides |-> {}] /\ logged = <<>> /\ internal = <<>> /\ last = <<"Init", "-", 0>>

\* which side holds which end
SideOfEnd(id, e) == IF e = "o" THEN OwnerOf(id) ELSE Peer(OwnerOf(id))

\* ---- running one input of the SubChannel machine on one end -------------------------------------------------
\* returns [end, out (records to send to the peer side), closed (close_subchannel ran), raised]
RECURSIVE RunOuts(_, _, _, _)
RunOuts(r, outs, id, arg) ==
  IF outs = <<>> \/ r.raised # "" THEN r
  ELSE LET o == Head(outs)
           r1 == CASE o = "queue_remote_data"  -> [r EXCEPT !.end.pend = Append(@, arg)]
                   [] o = "queue_remote_close" -> [r EXCEPT !.end.pclose = TRUE]
                   [] o = "send_data"          -> [r EXCEPT !.out = Append(@, Rec("data", id, arg))]
                   [] o = "send_close"         -> [r EXCEPT !.out = Append(@, Rec("close", id, "-")), !.end.closes = @ + 1]
                   [] o = "signal_dataReceived"      -> [r EXCEPT !.end.ev = Append(@, <<"data", arg>>)]
                   [] o = "signal_connectionLost"    -> [r EXCEPT !.end.ev = Append(@, <<"lost", "-">>)]
                   [] o = "signal_readConnectionLost"  -> [r EXCEPT !.end.ev = Append(@, <<"readlost", "-">>)]
                   [] o = "signal_writeConnectionLost" -> [r EXCEPT !.end.ev = Append(@, <<"writelost", "-">>)]
                   [] o = "close_subchannel"   -> [r EXCEPT !.closed = TRUE]
                   [] o \in {"error_closed_write", "error_closed_close"} -> [r EXCEPT !.raised = "AlreadyClosedError"]
                   [] OTHER -> [r EXCEPT !.raised = "unmodelled-output:" \o o]
       IN RunOuts(r1, Tail(outs), id, arg)

Input(end, inp, id, arg) ==
  IF <<end.st, inp>> \in DOMAIN Tbl_SC
  THEN LET row == Tbl_SC[<<end.st, inp>>] IN
       RunOuts([end |-> [end EXCEPT !.st = row.next], out |-> <<>>, closed |-> FALSE, raised |-> ""], row.outs, id, arg)
  \* writing to / closing a subchannel that is completely closed has no row: the application gets an
  \* exception (the statement only asks for "an error"), which is what AlreadyClosedError is elsewhere
  ELSE IF end.st = "closed" /\ inp \in {"local_data", "local_close"}
  THEN [end |-> end, out |-> <<>>, closed |-> FALSE, raised |-> "AlreadyClosedError"]
  ELSE [end |-> end, out |-> <<>>, closed |-> FALSE, raised |-> "NoTransition:SC." \o end.st \o "." \o inp]

\* apply the result of an Input on end e of subchannel id, located at side s
Apply(id, e, r) ==
  LET s == SideOfEnd(id, e) IN
  /\ ends' = [ends EXCEPT ![id][e] = IF r.raised = "AlreadyClosedError" THEN [r.end EXCEPT !.err = Append(@, "AlreadyClosedError")] ELSE r.end]
  /\ wire' = [wire EXCEPT ![Peer(s)] = @ \o r.out]
  /\ openAt' = IF r.closed THEN [openAt EXCEPT ![s] = @ \ {id}] ELSE openAt
  /\ internal' = IF r.raised \notin {"", "AlreadyClosedError"} THEN Append(internal, r.raised) ELSE internal

\* ---- application -------------------------------------------------------------------------------------------------
\* endpoint.connect(factory): allocate an id, send OPEN, register locally, build the protocol, makeConnection
AppOpen(s, n) ==
  /\ nextId[s] \in Ids /\ s \in Openers
  /\ LET id == nextId[s]
         e0 == Input(FreshEnd, IF Half THEN "connect_protocol_half" ELSE "connect_protocol_full", id, "-") IN
     /\ nextId' = [nextId EXCEPT ![s] = @ + 2]
     /\ name' = [name EXCEPT ![id] = n]
     /\ ends' = [ends EXCEPT ![id].o = [e0.end EXCEPT !.ev = <<<<"made", "-">>>>]]
     /\ wire' = [wire EXCEPT ![Peer(s)] = Append(@, Rec("open", id, n))]
     /\ openAt' = [openAt EXCEPT ![s] = @ \cup {id}]
     /\ last' = <<"AppOpen", s, id>>
  /\ UNCHANGED <<listening, pending, logged, internal>>

\* connect an acceptor end to a protocol: _set_protocol, makeConnection, then the queued data / close
RECURSIVE Replay(_, _, _)
Replay(r, id, pend) == IF pend = <<>> \/ r.raised # "" THEN r
                       ELSE LET x == Input(r.end, "remote_data", id, Head(pend)) IN
                            Replay([end |-> x.end, out |-> r.out \o x.out, closed |-> r.closed \/ x.closed, raised |-> x.raised], id, Tail(pend))
ConnectEnd(end, id) ==
  LET c  == Input(end, IF Half THEN "connect_protocol_half" ELSE "connect_protocol_full", id, "-")
      c1 == [c EXCEPT !.end.ev = Append(@, <<"made", "-">>)]
      c2 == Replay([c1 EXCEPT !.end.pend = <<>>], id, c1.end.pend) IN
  IF c2.raised = "" /\ c2.end.pclose
  THEN LET x == Input([c2.end EXCEPT !.pclose = FALSE], "remote_close", id, "-") IN
       [end |-> x.end, out |-> c2.out \o x.out, closed |-> c2.closed \/ x.closed, raised |-> x.raised]
  ELSE c2

\* listen(factory) for a name: pending OPENs of that name are connected now, in arrival order
RECURSIVE ConnectPending(_, _, _, _)
ConnectPending(es, w, oa, ids) ==
  IF ids = <<>> THEN [ends |-> es, wire |-> w, openAt |-> oa]
  ELSE LET id == Head(ids)
           s  == SideOfEnd(id, "a")
           r  == ConnectEnd(es[id].a, id) IN
       ConnectPending([es EXCEPT ![id].a = r.end], [w EXCEPT ![Peer(s)] = @ \o r.out],
                      IF r.closed THEN [oa EXCEPT ![s] = @ \ {id}] ELSE oa, Tail(ids))
AppListen(s, n) ==
  /\ n \notin listening[s]
  /\ listening' = [listening EXCEPT ![s] = @ \cup {n}]
  /\ LET mine == SelectSeq(pending[s], LAMBDA id : name[id] = n)
         r == ConnectPending(ends, wire, openAt, mine) IN
     /\ ends' = r.ends /\ wire' = r.wire /\ openAt' = r.openAt
  /\ pending' = [pending EXCEPT ![s] = SelectSeq(@, LAMBDA id : name[id] # n)]
  /\ last' = <<"AppListen", s, 0>>
  /\ UNCHANGED <<nextId, name, logged, internal>>

HasProtocol(end) == end.st \notin {"none", "unconnected", "refused"}
AppWrite(id, e) ==
  /\ HasProtocol(ends[id][e]) /\ ends[id][e].writes < MaxWrites
  /\ LET d == "w" \o ToString(id) \o e \o ToString(ends[id][e].writes)
         r == Input([ends[id][e] EXCEPT !.writes = @ + 1], "local_data", id, d) IN
     Apply(id, e, IF r.raised = "" /\ ends[id][e].lclosed THEN [r EXCEPT !.end.lateok = @ + 1] ELSE r)
  /\ last' = <<"AppWrite", e, id>>
  /\ UNCHANGED <<nextId, name, listening, pending, logged>>
\* loseConnection() (or loseWriteConnection() for half-closeable protocols)
AppClose(id, e) ==
  /\ HasProtocol(ends[id][e]) /\ Len(ends[id][e].err) < 2
  /\ LET r == Input(ends[id][e], "local_close", id, "-") IN
     Apply(id, e, IF r.raised = "" THEN [r EXCEPT !.end.lclosed = TRUE] ELSE r)
  /\ last' = <<"AppClose", e, id>>
  /\ UNCHANGED <<nextId, name, listening, pending, logged>>

\* ---- a record arrives at side s (Manager.got_record -> Inbound.handle_*) -------------------------------------------
ExpectedOK(s, n) == ~Expected[s].given \/ n \in Expected[s].names
Deliver(s) ==
  /\ wire[s] # <<>>
  /\ LET r  == Head(wire[s])
         id == r.id
         e  == IF OwnerOf(id) = s THEN "o" ELSE "a"
         w0 == [wire EXCEPT ![s] = Tail(@)] IN
     CASE r.t = "open" ->
            IF id \in openAt[s]
            THEN logged' = Append(logged, "DuplicateOpen") /\ wire' = w0
                 /\ UNCHANGED <<ends, openAt, pending, internal>>
            ELSE IF r.x \in listening[s]
            THEN LET c == ConnectEnd(FreshEnd, id) IN
                 /\ ends' = [ends EXCEPT ![id].a = c.end]
                 /\ wire' = [w0 EXCEPT ![Peer(s)] = @ \o c.out]
                 /\ openAt' = IF c.closed THEN openAt ELSE [openAt EXCEPT ![s] = @ \cup {id}]
                 /\ UNCHANGED <<pending, logged, internal>>
            ELSE IF ~ExpectedOK(s, r.x)
            THEN \* refused: answered by CLOSE, not held
                 /\ wire' = [w0 EXCEPT ![Peer(s)] = Append(@, Rec("close", id, "-"))]
                 /\ ends' = [ends EXCEPT ![id].a = [NoEnd EXCEPT !.st = "refused"]]
                 /\ UNCHANGED <<openAt, pending, logged, internal>>
            ELSE /\ ends' = [ends EXCEPT ![id].a = FreshEnd]
                 /\ openAt' = [openAt EXCEPT ![s] = @ \cup {id}]
                 /\ pending' = [pending EXCEPT ![s] = Append(@, id)]
                 /\ wire' = w0
                 /\ UNCHANGED <<logged, internal>>
       [] r.t \in {"data", "close"} ->
            IF id \notin openAt[s]
            THEN logged' = Append(logged, IF r.t = "data" THEN "DataForMissing" ELSE "CloseForMissing") /\ wire' = w0
                 /\ UNCHANGED <<ends, openAt, pending, internal>>
            ELSE LET x == Input(ends[id][e], IF r.t = "data" THEN "remote_data" ELSE "remote_close", id, r.x) IN
                 /\ ends' = [ends EXCEPT ![id][e] = x.end]
                 /\ wire' = [w0 EXCEPT ![Peer(s)] = @ \o x.out]
                 /\ openAt' = IF x.closed THEN [openAt EXCEPT ![s] = @ \ {id}] ELSE openAt
                 /\ internal' = IF x.raised # "" THEN Append(internal, x.raised) ELSE internal
                 /\ UNCHANGED <<pending, logged>>
  /\ last' = <<"Deliver", s, Head(wire[s]).id>>
  /\ UNCHANGED <<nextId, name, listening>>

Next == (\E s \in Sides : (\E n \in Names : AppOpen(s, n) \/ AppListen(s, n)) \/ Deliver(s))
        \/ (\E id \in Ids, e \in {"o", "a"} : AppWrite(id, e) \/ AppClose(id, e))
Spec == Init /\ [][Next]_vars

\* ---- properties ----------------------------------------------------------------------------------------------------
Count(ev, k) == Cardinality({i \in 1..Len(ev) : ev[i][1] = k})
AllEnds == {<<id, e>> : id \in Ids, e \in {"o", "a"}}
EvOf(p) == ends[p[1]][p[2]].ev
\* an OPEN surfaces at most once on the other side; each end sees connectionMade / connectionLost at most once
OpensOnce == \A p \in AllEnds : Count(EvOf(p), "made") <= 1 /\ Count(EvOf(p), "lost") <= 1
\* nothing is delivered to an application after its connectionLost
NothingAfterLost == \A p \in AllEnds : \A i, j \in 1..Len(EvOf(p)) : (EvOf(p)[i][1] = "lost" /\ i < j) => FALSE
\* the data an end receives is a prefix of what the other end wrote, in order (so: data written before a local close
\* is delivered before the peer's connectionLost, which is last)
DataOf(ev) == SelectSeq(ev, LAMBDA x : x[1] = "data")
Written(id, e) == [i \in 1..ends[id][e].writes |-> <<"data", "w" \o ToString(id) \o e \o ToString(i - 1)>>]
OtherEnd(e) == IF e = "o" THEN "a" ELSE "o"
DataInOrder == \A p \in AllEnds : IsPrefix(DataOf(EvOf(p)), Written(p[1], OtherEnd(p[2])))
\* the two sides never allocate the same id
IdsDisjoint == \A id \in Ids : name[id] # "-" => (OwnerOf(id) = "L") = (id % 2 = 1)
\* an OPEN for a subprotocol outside the declared set is refused by closing, not held open
UnexpectedRefused == \A s \in Sides : \A i \in 1..Len(pending[s]) : ExpectedOK(s, name[pending[s][i]])
NoInternal == internal = <<>>
\* a write issued after the application's own (accepted) close raises instead of being sent
WriteAfterCloseErrors == \A p \in AllEnds : ends[p[1]][p[2]].lateok = 0
\* each end emits CLOSE at most once
CloseOnce == \A p \in AllEnds : ends[p[1]][p[2]].closes <= 1
====
