---- MODULE TransitSelObs ----
\* Observer for real Transit negotiations (C07): the properties of Transit.tla evaluated on what the real
\* TransitSender / TransitReceiver and their Connection objects did.  One NDJSON line per run; o.l maps
\* a link name to [kind, sentS, gotS, sentR, gotR, stS, stR] (units as classified by the harness).
EXTENDS Naturals, Sequences, FiniteSets, Json, IOUtils, TLC, TLCExt

All == ndJsonDeserialize(IOEnv.OBS_FILE)
L(o) == DOMAIN o.l
InSeq(u, s) == \E i \in 1..Len(s) : s[i] = u
HonestKind(k) == k \in {"s2r", "r2s", "relay"}
Live(s) == s \notin {"-", "hung up", "lost"}

P_AtMostOneGo(o) == Cardinality({l \in L(o) : InSeq("go", o.l[l].sentS)}) <= 1
P_GoOnlyAfterRH(o) == \A l \in L(o) : InSeq("go", o.l[l].sentS) => InSeq("RH", o.l[l].gotS)
P_ReceiverNeedsGo(o) == \A l \in L(o) : o.l[l].stR = "records" => (InSeq("SH", o.l[l].gotR) /\ InSeq("go", o.l[l].gotR))
\* ... and stay that: o.selectedStays - with nothing else happening for three negotiation time-outs after both results were
\* the two ends of one link in "records", every due timer firing, the link is still up at both ends
P_SameLink(o) == /\ (o.resultS \in L(o) /\ o.resultR \in L(o)) => o.resultS = o.resultR
                 /\ o.selectedStays
KeyHolderKind(k) == HonestKind(k) \/ k = "altsenderR"
P_KeyHoldersOnly(o) == /\ (o.resultS \in L(o) => KeyHolderKind(o.l[o.resultS].kind))
                       /\ (o.resultR \in L(o) => KeyHolderKind(o.l[o.resultR].kind))
                       /\ o.resultS # "unknown-connection" /\ o.resultR # "unknown-connection"
P_OthersClosed(o) == /\ \A l \in L(o) : (o.resultS # "-" /\ l # o.resultS) => ~Live(o.l[l].stS)
                     /\ \A l \in L(o) : (o.resultR # "-" /\ l # o.resultR) => ~Live(o.l[l].stR)
P_Deadline(o) == (o.deadlineS => o.resultS # "-") /\ (o.deadlineR => o.resultR # "-")
\* the connection a party's negotiation settled on is what its connect() returns, whenever connect() is called
NegotiatedR(o, l) == \E i, j \in 1..Len(o.l[l].gotR) : i < j /\ o.l[l].gotR[i] = "SH" /\ o.l[l].gotR[j] = "go"
P_WinnerReturned(o) == /\ \A l \in L(o) : (o.startedS /\ InSeq("go", o.l[l].sentS)) => o.resultS = l
                       /\ \A l \in L(o) : (o.startedR /\ HonestKind(o.l[l].kind) /\ NegotiatedR(o, l)) => o.resultR = l
P_NoInternal(o) == o.internal = <<>>
\* o.honestDue: the environment established an honest link, cut nothing, let no deadline strike and delivered everything that was
\* written (computed by the harness from what it did itself): then both connect() calls have returned a link
P_HonestWins(o) == o.honestDue => (o.resultS \in L(o) /\ o.resultR \in L(o))

VARIABLE k
Init == k = 0
Next == k < Len(All) /\ k' = k + 1
        /\ PrintT(<<"OBS", All[k'].tid, <<P_AtMostOneGo(All[k']), P_GoOnlyAfterRH(All[k']), P_ReceiverNeedsGo(All[k']),
                                          P_SameLink(All[k']), P_KeyHoldersOnly(All[k']), P_OthersClosed(All[k']),
                                          P_Deadline(All[k']), P_NoInternal(All[k']), P_WinnerReturned(All[k']), P_HonestWins(All[k'])>>>>)
Spec == Init /\ [][Next]_k
====
