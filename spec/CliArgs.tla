---- MODULE CliArgs ----
\* How `wormhole send` and `wormhole receive` come by their code, as a function of the command line (cli/cli.py send / receive,
\* cli/cmd_send.py Sender._go, cli/cmd_receive.py Receiver._handle_code): which combinations are refused as usage errors, which
\* end the command before anything happens, and which wormhole call supplies the code in the remaining ones.  A decision table,
\* enumerated by TLC (every case printed) and executed case by case on the real click parser and the real _handle_code / _go
\* prologue (harness/props/cliargs.py).  Supplementary (no listed property); the table *follows the code*, oddities included:
\* -0 together with a code is not refused by the parser, it trips an `assert` once the command runs.
EXTENDS Naturals, TLC

Lens == {"none", "num", "zero", "junk"}        \* --code-length: absent / a positive number / 0 / not a number
RecvCfg == [ncodes : 0..2, allocate : BOOLEAN, len : Lens, zero : BOOLEAN]
SendCfg == [code : BOOLEAN, len : Lens, zero : BOOLEAN]

\* outcomes: "usage" (click.UsageError, exit 2) | "exit1" (message, SystemExit(1)) | "valueerror" (int() of the length) |
\* "assert" (AssertionError when the command runs) | the call that supplies the code:
\* "set:given" | "set:zero" (set_code("0-")) | "allocate" | "allocate:0" (allocate_code(0)) | "input" (input_code())
RecvOutcome(c) ==
  IF c.ncodes >= 1 /\ c.allocate THEN "usage"
  ELSE IF c.len # "none" /\ ~c.allocate THEN "usage"          \* ("0" is a non-empty string: truthy)
  ELSE IF c.len = "junk" THEN "valueerror"
  ELSE IF c.ncodes = 2 THEN "exit1"
  ELSE IF c.zero THEN (IF c.ncodes = 1 THEN "assert" ELSE "set:zero")      \* (-0 wins over --allocate, silently)
  ELSE IF c.ncodes = 1 THEN "set:given"
  ELSE IF c.allocate THEN (IF c.len = "zero" THEN "allocate:0" ELSE "allocate")
  ELSE "input"
SendOutcome(c) ==
  IF c.len = "junk" THEN "valueerror"
  ELSE IF c.zero THEN (IF c.code THEN "assert" ELSE "set:zero")
  ELSE IF c.code THEN "set:given"                                          \* (--code-length is ignored with --code)
  ELSE IF c.len = "zero" THEN "allocate:0" ELSE "allocate"

Supplies(o) == o \in {"set:given", "set:zero", "allocate", "allocate:0", "input"}
\* whenever the command goes ahead exactly one call supplies the code, and a given code is the one used
GivenCodeUsed == \A c \in RecvCfg : (RecvOutcome(c) = "set:given") <=> (c.ncodes = 1 /\ ~c.allocate /\ c.len = "none" /\ ~c.zero)
NeverAllocateOverGiven == /\ \A c \in RecvCfg : c.ncodes >= 1 => RecvOutcome(c) \notin {"allocate", "allocate:0", "input", "set:zero"}
                          /\ \A c \in SendCfg : c.code => SendOutcome(c) \notin {"allocate", "allocate:0", "set:zero"}
ZeroMeansZero == /\ \A c \in RecvCfg : (c.zero /\ Supplies(RecvOutcome(c))) => RecvOutcome(c) = "set:zero"
                 /\ \A c \in SendCfg : (c.zero /\ Supplies(SendOutcome(c))) => SendOutcome(c) = "set:zero"
ASSUME GivenCodeUsed /\ NeverAllocateOverGiven /\ ZeroMeansZero
Report == /\ \A c \in RecvCfg : PrintT(<<"CASE", "receive", c, RecvOutcome(c)>>)
          /\ \A c \in SendCfg : PrintT(<<"CASE", "send", c, SendOutcome(c)>>)
ASSUME Report

VARIABLE x
Init == x = 0
Next == UNCHANGED x
Spec == Init /\ [][Next]_x
====
