---- MODULE DilationL3Obs ----
\* Observer for executions of the full Dilation stack (C11, C17).  One NDJSON line per run; o.snaps holds a
\* snapshot of both sides after every step.
EXTENDS Naturals, Sequences, FiniteSets, Json, IOUtils, TLC, TLCExt

All == ndJsonDeserialize(IOEnv.OBS_FILE)
Snaps(o) == {o.snaps[i] : i \in 1..Len(o.snaps)}

\* both sides reach the same answer about who is Leader
P_RolesAgree(o) == \A s \in Snaps(o) : (s.L.role # "-" /\ s.F.role # "-") => (s.L.role = "LEADER" /\ s.F.role = "FOLLOWER")
\* at any moment each side uses at most one peer connection
P_AtMostOneSelected(o) == \A s \in Snaps(o) : Len(s.selectedL) <= 1 /\ Len(s.selectedF) <= 1
\* a Follower only ever uses a connection on which the Leader has confirmed its selection
P_FollowerFollowsLeader(o) == \A s \in Snaps(o) : \A l \in DOMAIN s.dcp :
    s.dcp[l].F \in {"selecting", "selected"} => s.dcp[l].L = "selected"
\* when the specification says the two sides must have converged (nothing in flight, the network let a connection
\* attempt of the current generation live), they are CONNECTED on one shared link
\* (judged on the state at the end of the behaviour when the specification's own final state says so - atEnd - and,
\* independently of the specification, on the state in which the real system comes to rest after a fair completion
\* without further faults - final)
ConvergedIn(f) == f.L.mgr = "CONNECTED" /\ f.F.mgr = "CONNECTED" /\ f.L.sel = f.F.sel /\ f.L.sel > 0
P_Converged(o) == /\ o.convergenceDue => ConvergedIn(o.atEnd)
                  /\ o.restConvergenceDue => ConvergedIn(o.final)
\* closing always completes ...
P_StopCompletes(o) == /\ (o.specStopped.L => o.atEnd.L.closed) /\ (o.specStopped.F => o.atEnd.F.closed)
                      /\ (o.restStopDue.L => o.final.L.closed) /\ (o.restStopDue.F => o.final.F.closed)
\* ... and listeners, pending attempts and the active connection are shut down by then
P_NothingLeft(o) == \A i \in 1..Len(o.snaps) :
    LET s == o.snaps[i] IN
    /\ (s.L.closed => (s.listeners.L = 0 /\ s.pendingAttempts.L = 0 /\ s.selectedL = <<>> /\ s.openDialled.L = 0))
    /\ (s.F.closed => (s.listeners.F = 0 /\ s.pendingAttempts.F = 0 /\ s.selectedF = <<>> /\ s.openDialled.F = 0))
\* an incapable peer is reported, not awaited
P_OldPeerReported(o) == o.oldpeer.ok /\ o.oldpeer.closed
P_NoInternal(o) == o.internal = <<>>

VARIABLE k
Init == k = 0
Next == k < Len(All) /\ k' = k + 1
        /\ PrintT(<<"OBS", All[k'].tid, <<P_RolesAgree(All[k']), P_AtMostOneSelected(All[k']), P_FollowerFollowsLeader(All[k']),
                                          P_Converged(All[k']), P_StopCompletes(All[k']), P_NothingLeft(All[k']),
                                          P_OldPeerReported(All[k']), P_NoInternal(All[k'])>>>>)
Spec == Init /\ [][Next]_k
====
