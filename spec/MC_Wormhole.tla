---- MODULE MC_Wormhole ----
EXTENDS Wormhole
MC_Clients == {"A", "B"}
MC_Sides == {"A", "B", "X"}
MC_Nameplates == {"4", "5"}
MC_Mode == [c \in MC_Clients |-> "delegated"]
MC_AppId == [c \in MC_Clients |-> "app"]
MC_CodeChoices == [c \in MC_Clients |-> {<<"4", "w">>}]
MC_None == {}
MC_InjectSet == {}
====
