---- MODULE RecvDestObs ----
\* Observer for real cmd_receive.Receiver executions (C05).  One NDJSON line per executed case: the
\* abstract case, the outcome RecvDest.tla expects, and what the sandbox snapshot shows was changed
\* (each changed path classified as "dest", "under-dest", "dest.tmp" or "other:<path>").
EXTENDS Naturals, Sequences, FiniteSets, Json, IOUtils, TLC, TLCExt

All == ndJsonDeserialize(IOEnv.OBS_FILE)
ToSet(s) == {s[i] : i \in 1..Len(s)}
IsOther(x) == x \notin {"dest", "under-dest", "dest.tmp"}

\* the real receiver decides as the specification's decision table does (hostile members: extract or abort as specified)
P_Outcome(o) ==
    IF o.kind = "dest" THEN
        /\ (o.expect.result = "rejected" => o.outcome = "rejected")
        /\ (o.expect.result = "written" => ((o.outcome = "written" /\ o.destOK) \/ (o.fault = "cut" /\ o.outcome = "cut")))
        \* (a dangling link where the destination would be: go ahead - at the destination itself - or fail)
        /\ (o.expect.result = "any" => (o.outcome = "written" => o.destOK))
    ELSE
        /\ (o.expect.member = "extract" => o.outcome = "written")
        /\ (o.expect.member = "abort" => o.outcome \in {"aborted", "error", "rejected"})
        /\ (o.expect.member = "extract-or-abort" => o.outcome \in {"written", "aborted", "error"})
\* writes only to the single announced destination (and beneath it for directories; the transient .tmp of a file)
P_OnlyDest(o) == \A x \in ToSet(o.changed) : ~IsOther(x) \/ (o.case.pretmp /\ FALSE)
\* nothing that existed before, outside the destination, is altered or removed
P_NoClobber(o) == \A x \in ToSet(o.changed) : ~IsOther(x)
\* an existing directory is never deleted
P_DirKept(o) == o.deletedDirs = <<>>
\* an existing file is replaced only when --output-file names it or the directory containing it
P_ReplaceOnlyIfNamed(o) == o.replacedFiles # <<>> => (o.case.out \in {"file", "dir"} /\ o.expect.result = "written" /\ o.expect.replaces)
\* a rejected transfer changes nothing; a completed one leaves no temporary file
\* (a transfer cut part way leaves at most the temporary file of a file transfer behind, nothing under the final name; the
\*  old file that --output-file told it to replace may already be gone)
P_NoLeftovers(o) == /\ (o.outcome = "rejected" => o.changed = <<>>) /\ (o.outcome = "written" => ~o.tmpLeft)
                    /\ (o.outcome = "cut" => \A x \in ToSet(o.changed) : x = "dest.tmp" \/ (x = "dest" /\ o.expect.replaces))

VARIABLE k
Init == k = 0
Next == k < Len(All) /\ k' = k + 1
        /\ PrintT(<<"OBS", All[k'].tid, <<P_Outcome(All[k']), P_OnlyDest(All[k']), P_NoClobber(All[k']), P_DirKept(All[k']),
                                          P_ReplaceOnlyIfNamed(All[k']), P_NoLeftovers(All[k'])>>>>)
Spec == Init /\ [][Next]_k
====
