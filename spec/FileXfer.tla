---- MODULE FileXfer ----
\* C04: the `wormhole send` / `wormhole receive` application protocol for files and directories
\* (cli/cmd_send.py Sender._send_file, cli/cmd_receive.py Receiver._transfer_data/_write_file/
\* _write_directory/_close_transit), over a Transit record pipe that delivers records intact and in order
\* or drops the connection (C06's guarantee is this module's interface).
\*
\* The payload is N records (FileSender reads the source in 16 KiB chunks; an empty file has N = 0).
\* Faults: the link is cut after k records (or inside record k+1), a record is corrupted in flight (the
\* record pipe then drops the connection at that record), the acknowledgement is lost, or a faulty
\* receiver acknowledges with another hash / without a hash / with ack != ok.
EXTENDS Naturals, Sequences, TLC

CONSTANTS N,            \* number of records of the payload
          AckKinds      \* what a receiver may put in its ack: subset of {"good", "badhash", "nohash", "notok"}

VARIABLES sent,         \* records the sender has written to the pipe
          rcvd,         \* records the receiver has consumed, all genuine
          inflight,     \* records in flight, each "ok" or "bad" (corrupted)
          link,         \* "up" | "cut"
          tmp,          \* receiver's temporary file exists (files only)
          dest,         \* "-" | "src" (byte-exact copy) | "other"
          ack,          \* "-" | kind in flight | "lost"
          okS, okR,     \* "-" | "ok" | "fail"
          fault,        \* what the environment did: "-" | "cut" | "corrupt" | "replay" | "acklost" | ack kind # "good"
          last
vars == <<sent, rcvd, inflight, link, tmp, dest, ack, okS, okR, fault, last>>

Init == /\ sent = 0 /\ rcvd = 0 /\ inflight = <<>> /\ link = "up" /\ tmp = TRUE /\ dest = "-" /\ ack = "-"
        /\ okS = "-" /\ okR = "-" /\ fault = "-" /\ last = <<"Init", 0>>

\* ---- sender --------------------------------------------------------------------------------------------
SendRecord == /\ link = "up" /\ sent < N /\ okS = "-"
              /\ sent' = sent + 1 /\ inflight' = Append(inflight, "ok")
              /\ last' = <<"SendRecord", sent + 1>>
              /\ UNCHANGED <<rcvd, link, tmp, dest, ack, okS, okR, fault>>

\* ---- the network ---------------------------------------------------------------------------------------
Corrupt(i) == /\ fault = "-" /\ i \in 1..Len(inflight) /\ inflight[i] = "ok"
              /\ inflight' = [inflight EXCEPT ![i] = "bad"] /\ fault' = "corrupt"
              /\ last' = <<"Corrupt", rcvd + i>>
              /\ UNCHANGED <<sent, rcvd, link, tmp, dest, ack, okS, okR>>
\* somebody on the path shows an earlier record of this stream again in place of record rcvd + i (same length, genuine
\* ciphertext, stale nonce): to the record pipe that is a bad record like any other (C06), to the receiver it must be a failure
Replay(i) == /\ fault = "-" /\ i \in 1..Len(inflight) /\ inflight[i] = "ok" /\ rcvd + i >= 2
             /\ inflight' = [inflight EXCEPT ![i] = "bad"] /\ fault' = "replay"
             /\ last' = <<"Replay", rcvd + i>>
             /\ UNCHANGED <<sent, rcvd, link, tmp, dest, ack, okS, okR>>
\* the link is cut: everything in flight is gone (the cut may fall inside a record: that record is gone too)
Cut == /\ link = "up" /\ fault = "-" /\ okR # "ok"
       /\ link' = "cut" /\ inflight' = <<>> /\ fault' = "cut"
       /\ ack' = IF ack \notin {"-", "lost"} THEN "lost" ELSE ack
       /\ last' = <<"Cut", rcvd>>
       /\ UNCHANGED <<sent, rcvd, tmp, dest, okS, okR>>
LoseAck == /\ ack \notin {"-", "lost"} /\ fault = "-"
           /\ ack' = "lost" /\ link' = "cut" /\ fault' = "acklost"
           /\ last' = <<"LoseAck", 0>>
           /\ UNCHANGED <<sent, rcvd, inflight, tmp, dest, okS, okR>>

\* ---- receiver ------------------------------------------------------------------------------------------
\* a genuine record is written to the temporary file; a corrupted one makes the record pipe drop the link
RecvRecord == /\ link = "up" /\ inflight # <<>> /\ okR = "-"
              /\ IF Head(inflight) = "ok"
                 THEN rcvd' = rcvd + 1 /\ inflight' = Tail(inflight) /\ link' = link
                 ELSE rcvd' = rcvd /\ inflight' = <<>> /\ link' = "cut"
              /\ last' = <<"RecvRecord", rcvd + 1>>
              /\ UNCHANGED <<sent, tmp, dest, ack, okS, okR, fault>>
\* every byte has arrived: rename / unpack to the destination, then acknowledge with the hash
Finish(k) == /\ link = "up" /\ rcvd = N /\ okR = "-" /\ dest = "-" /\ k \in AckKinds
             /\ dest' = "src" /\ tmp' = FALSE /\ ack' = k /\ okR' = "ok"
             /\ fault' = IF k = "good" THEN fault ELSE k
             /\ last' = <<"Finish", N>>
             /\ UNCHANGED <<sent, rcvd, inflight, link, okS>>
\* the connection is gone before everything arrived: report failure, no destination
ReceiverFails == /\ link = "cut" /\ okR = "-" /\ rcvd < N
                 /\ okR' = "fail" /\ last' = <<"ReceiverFails", rcvd>>
                 /\ UNCHANGED <<sent, rcvd, inflight, link, tmp, dest, ack, okS, fault>>
\* ... or after everything arrived but before the rename (cut between the last record and Finish)
ReceiverFinishesAfterCut == /\ link = "cut" /\ okR = "-" /\ rcvd = N /\ dest = "-"
                            /\ dest' = "src" /\ tmp' = FALSE /\ okR' = "ok" /\ ack' = "lost"
                            /\ last' = <<"ReceiverFinishesAfterCut", N>>
                            /\ UNCHANGED <<sent, rcvd, inflight, link, okS, fault>>

\* ---- sender, waiting for the acknowledgement ---------------------------------------------------------------
SenderGetsAck == /\ link = "up" /\ ack \notin {"-", "lost"} /\ okS = "-" /\ sent = N
                 /\ okS' = IF ack \in {"good", "nohash"} THEN "ok" ELSE "fail"
                 /\ ack' = "-"
                 /\ last' = <<"SenderGetsAck", 0>>
                 /\ UNCHANGED <<sent, rcvd, inflight, link, tmp, dest, okR, fault>>
SenderFails == /\ link = "cut" /\ okS = "-"
               /\ okS' = "fail" /\ last' = <<"SenderFails", sent>>
               /\ UNCHANGED <<sent, rcvd, inflight, link, tmp, dest, ack, okR, fault>>

Next == SendRecord \/ Cut \/ LoseAck \/ RecvRecord \/ ReceiverFails \/ ReceiverFinishesAfterCut
        \/ SenderGetsAck \/ SenderFails \/ (\E i \in 1..N : Corrupt(i) \/ Replay(i)) \/ (\E k \in AckKinds : Finish(k))
Spec == Init /\ [][Next]_vars /\ WF_vars(Next)

\* ---- properties -----------------------------------------------------------------------------------------------
\* both report success => the destination is byte-for-byte the source
BothOkExact == (okS = "ok" /\ okR = "ok") => dest = "src"
\* the stream was cut or corrupted before the receiver had every byte => nobody reports success, no destination
CutBeforeAllFails == (fault \in {"cut", "corrupt", "replay"} /\ rcvd < N /\ okR # "-") => (okR = "fail" /\ dest = "-")
SenderNeedsGoodAck == okS = "ok" => (okR = "ok" /\ fault \notin {"cut", "corrupt", "replay", "acklost", "badhash", "notok"})
\* a lost or mismatching acknowledgement => the sender does not report success
BadAckFails == (fault \in {"acklost", "badhash", "notok"} /\ okS # "-") => okS = "fail"
DestOnlyWhenComplete == dest # "-" => rcvd = N
Terminates == <>(okS # "-" /\ okR # "-")
====
