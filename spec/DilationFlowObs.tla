---- MODULE DilationFlowObs ----
\* Observer for executions of the real Dilation Outbound / Inbound objects (C15).  One NDJSON line per run;
\* o.checkpoints is the projected state at every moment the call stack was empty.
EXTENDS Naturals, Sequences, FiniteSets, Json, IOUtils, TLC, TLCExt

All == ndJsonDeserialize(IOEnv.OBS_FILE)
ToSetS(s) == {s[i] : i \in 1..Len(s)}
CP(o) == {o.checkpoints[i] : i \in 1..Len(o.checkpoints)}

\* buffer full or no connection => every registered producer has been told to pause
P_AllPausedWhenPaused(o) == \A c \in CP(o) : c.paused => (c.uset = <<>> /\ \A p \in ToSetS(c.deque) : c.sig[p] = "pause")
P_NoConnMeansPaused(o) == \A c \in CP(o) : ~c.conn => c.paused
\* nobody is woken while the connection is still paused
P_NoResumeWhilePaused(o) == o.resumedWhilePaused = <<>>
\* when the connection drains, all paused producers have been resumed
P_AllResumedAfterDrain(o) == \A c \in CP(o) : (~c.paused /\ c.conn) => (c.pset = <<>> /\ \A p \in ToSetS(c.deque) : c.sig[p] \in {"resume", "none"})
\* the pause flag follows the transport: whatever the transport of the connection in use said last - from outside, or from
\* inside a producer's turn or a re-send - is what the Outbound believes once the call stack is empty (a wake-up is never lost)
P_FollowsTransport(o) == \A c \in CP(o) : c.conn => ((c.lastSignal = "resume" => ~c.paused) /\ (c.lastSignal = "pause" => c.paused))
P_ThreeSets(o) == \A c \in CP(o) : ToSetS(c.pset) \cap ToSetS(c.uset) = {} /\ (ToSetS(c.pset) \cup ToSetS(c.uset)) = ToSetS(c.deque)
\* inbound data is paused exactly while an open subchannel's application wants a pause; the state carries over
P_InboundExact(o) == \A c \in CP(o) : c.conn => (c.cpaused <=> (c.wantPause # <<>>))
\* a pull producer is driven only while the connection is writable
P_PullObeys(o) == o.pull.initial = 0 /\ o.pull.afterUse > 0 /\ o.pull.whilePaused = 0 /\ o.pull.resumedAgain > 0 /\ o.pull.afterUnregister = 0
P_NoInternal(o) == o.internal = <<>>
\* the inbound half on the real DilatedConnectionProtocol: a subchannel application's pause stops the reading of the peer
\* connection (nothing arrives while paused), its resume restarts it, a pause in force carries over to the replacement
\* connection, and none of these calls raises
P_InboundReal(o) == /\ o.inboundReal.raised = <<>> /\ o.inboundReal.gotWhilePaused = 0 /\ o.inboundReal.gotAfterResume = 1
                    /\ o.inboundReal.pausedAfterReconnect /\ o.inboundReal.gotAfterSecondResume = 1
                    \* every way an application may use its subchannel's transport (pause / resume / stop / loseConnection, one or two
                    \* subchannels): the peer's data flows exactly when nobody is asking for a pause any more
                    /\ \A i \in DOMAIN o.inboundReal.apiSeqs : /\ o.inboundReal.apiSeqs[i].flows = o.inboundReal.apiSeqs[i].expectFlow
                                                               /\ o.inboundReal.apiSeqs[i].raised = <<>>

VARIABLE k
Init == k = 0
Next == k < Len(All) /\ k' = k + 1
        /\ PrintT(<<"OBS", All[k'].tid, <<P_AllPausedWhenPaused(All[k']), P_NoConnMeansPaused(All[k']), P_NoResumeWhilePaused(All[k']),
                                          P_AllResumedAfterDrain(All[k']), P_ThreeSets(All[k']), P_InboundExact(All[k']),
                                          P_PullObeys(All[k']), P_NoInternal(All[k']), P_InboundReal(All[k']), P_FollowsTransport(All[k'])>>>>)
Spec == Init /\ [][Next]_k
====
