---- MODULE Crypto ----
\* Symbolic (Dolev-Yao style) terms for the wormhole key exchange and message encryption.
\* Perfect cryptography is assumed; what the *code* feeds into the primitives (which side and
\* phase go into the phase key, which password/appid into SPAKE2) is what the term structure
\* records, and what the conformance executions test on the real libraries.
EXTENDS Naturals, Sequences, TLC

\* Every message body is a record of this shape (uniform, so that TLC can compare bodies):
\*   k = "pake"     valid SPAKE2 message made with password/appid `key` by side `side`
\*   k = "pakebad"  JSON object without "pake_v1"
\*   k = "junk"     not JSON / not hex / not a group element (makes the parser raise)
\*   k = "enc"      SecretBox(PhaseKey(key, side, phase), pt)
\*   k = "-"        no body
Body(k, key, side, phase, pt) == [k |-> k, key |-> key, side |-> side, phase |-> phase, pt |-> pt]
NoBody     == Body("-", "-", "-", "-", "-")
Pake(pwapp, side)          == Body("pake", pwapp, side, "-", "-")
PakeBad                    == Body("pakebad", "-", "-", "-", "-")
Junk(tag)                  == Body("junk", "-", "-", "-", tag)
Enc(key, side, phase, pt)  == Body("enc", key, side, phase, pt)

\* total order on side names, used only to give the two ends of an exchange the same key name
SideOrder == <<"A", "B", "P", "X", "Y">>
Rank(s) == CHOOSE i \in 1..Len(SideOrder) : SideOrder[i] = s
PairName(s1, s2) == IF Rank(s1) < Rank(s2) THEN s1 \o s2 ELSE s2 \o s1

\* SPAKE2_Symmetric(pw, idSymmetric=appid).finish(m): the session key `me` (password/appid
\* `pwapp`) computes from a received PAKE term m.  Equal iff both used the same pwapp and the
\* message is the other end's; otherwise a key nobody else has.
SessionKey(me, pwapp, m) ==
    IF m.key = pwapp THEN "K:" \o pwapp \o ":" \o PairName(me, m.side)
    ELSE "Kx:" \o me \o ":" \o pwapp \o ":" \o m.key \o ":" \o m.side

\* a PAKE term this side can finish() on without an exception
\* (k = "pakeinv": parses as {"pake_v1": hex} but is not a group element: finish() raises)
PakeUsable(me, m) == m.k = "pake" /\ m.side # me      \* own message reflected: ReflectionThwarted

\* decrypt_data(derive_phase_key(key, side, phase), body) succeeds
Decrypts(key, side, phase, b) == b.k = "enc" /\ b.key = key /\ b.side = side /\ b.phase = phase

Verifier(key) == "V:" \o key
Derive(key, purpose) == "D:" \o purpose \o ":" \o key
====
