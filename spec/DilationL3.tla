---- MODULE DilationL3 ----
\* C11 / C17: Dilation connection management.  Two sides, "L" (the Leader: greater side string) and "F".
\* Per side: the Manager machine (table Tbl_MGR), the current Connector (table Tbl_CTR; one per generation,
\* older ones are discarded), candidate L2 connections (DilatedConnectionProtocol, table Tbl_DCP).  All three
\* tables are extracted from the tree.  Control messages please / connection-hints / reconnect /
\* reconnecting travel through the mailbox, FIFO per sender (Boss orders dilate-N phases).
\*
\* A link is one TCP connection between the two sides, created when one side dials a hint of the other.
\* Its negotiation is lock-step, so one phase variable per link suffices:
\*   "dial"  TCP connection attempt in progress
\*   "hs"    prologues and Noise handshake messages in flight
\*   "kcmF"  handshake done; the Follower's KCM is in flight to the Leader
\*   "Lcand" the Leader's end is a candidate (DCP selecting); Connector.accept is queued on the eventual queue
\*   "Lsel"  the Leader selected this link and sent its KCM, in flight to the Follower
\*   "Fcand" the Follower's end is a candidate; its Connector.accept is queued
\*   "both"  both ends selected
\* plus, per end, whether that end is still open ("up"), closing by its own hand ("closing") or gone ("down").
EXTENDS Naturals, Sequences, FiniteSets, TLC, Tables

CONSTANTS MaxLinks,     \* TCP connections over the whole run
          MaxCuts,      \* network cuts
          Dilaters,     \* sides whose application calls w.dilate()
          AllowStop,    \* sides whose application may close the wormhole
          NoListen      \* sides that dilate with no_listen=True: no listener, no hints published - only they can dial

Sides == {"L", "F"}
Peer(x) == IF x = "L" THEN "F" ELSE "L"
LinkIds == 1..MaxLinks

VARIABLES
  mgr,        \* [Sides -> Manager state | "none" (dilate() not called yet)]
  versions,   \* [Sides -> BOOLEAN] the peer's versions message has arrived (got_wormhole_versions)
  ctr,        \* [Sides -> current Connector state | "none"]
  cgen,       \* [Sides -> generation number of the current Connector]
  ctrOf,      \* [Sides -> [generation -> Connector state]] all Connectors ever made (old ones still get callbacks)
  mq,         \* [Sides -> Seq(message)] mailbox messages in flight to that side
  held,       \* [Sides -> Seq(message)] Dilator._pending_inbound_dilate_messages (before dilate())
  links,      \* [LinkIds -> link record | NoLink]
  nlinks,
  accepts,    \* [Sides -> Seq([gen, link])] Connector.accept calls waiting on the eventual queue
  sel,        \* [Sides -> link id the Manager uses (Manager._connection) or 0]
  lostq,      \* [Sides -> Seq(link)] when_disconnected callbacks of selected connections, queued eventually
  stopReq,    \* [Sides -> BOOLEAN] Terminator asked the Dilator to stop
  stopped,    \* [Sides -> BOOLEAN] Manager.when_stopped fired (-> T.stoppedD -> closed notification)
  cuts, internal, last,
  dstat       \* [Sides -> the peer_connection of the DilationStatus last reported: "none" (no dilate() yet) | "nopeer" | "connecting" | "connected" | "reconnecting" | "stopped"]
vars == <<mgr, versions, ctr, cgen, ctrOf, mq, held, links, nlinks, accepts, sel, lostq, stopReq, stopped, cuts, internal, last, dstat>>

NoLink == [phase |-> "none", wascut |-> FALSE, dialer |-> "-", gen |-> [L |-> 0, F |-> 0], endst |-> [L |-> "down", F |-> "down"], dcp |-> [L |-> "-", F |-> "-"]]
MaxGen == 4

Init ==
  /\ mgr = [x \in Sides |-> "none"] /\ versions = [x \in Sides |-> FALSE]
  /\ ctr = [x \in Sides |-> "none"] /\ cgen = [x \in Sides |-> 0]
  /\ ctrOf = [x \in Sides |-> [g \in 1..MaxGen |-> "none"]]
  /\ mq = [x \in Sides |-> <<>>] /\ held = [x \in Sides |-> <<>>]
  /\ links = [i \in LinkIds |-> NoLink] /\ nlinks = 0
  /\ accepts = [x \in Sides |-> <<>>] /\ sel = [x \in Sides |-> 0] /\ lostq = [x \in Sides |-> <<>>]
  /\ stopReq = [x \in Sides |-> FALSE] /\ stopped = [x \in Sides |-> FALSE]
  /\ cuts = 0 /\ internal = <<>> /\ last = <<"Init", "-", 0>>
  /\ dstat = [x \in Sides |-> "none"]

\* ---------------------------------------------------------------------------------------------------------------
\* A "world" record w carries every variable through a cascade of synchronous calls; actions end with Commit(w).
World == [mgr |-> mgr, versions |-> versions, ctr |-> ctr, cgen |-> cgen, ctrOf |-> ctrOf, mq |-> mq, held |-> held,
          links |-> links, nlinks |-> nlinks, accepts |-> accepts, sel |-> sel, lostq |-> lostq, stopReq |-> stopReq,
          stopped |-> stopped, internal |-> internal, dstat |-> dstat]
Commit(w) == /\ mgr' = w.mgr /\ versions' = w.versions /\ ctr' = w.ctr /\ cgen' = w.cgen /\ ctrOf' = w.ctrOf /\ mq' = w.mq
             /\ held' = w.held /\ links' = w.links /\ nlinks' = w.nlinks /\ accepts' = w.accepts /\ sel' = w.sel
             /\ lostq' = w.lostq /\ stopReq' = w.stopReq /\ stopped' = w.stopped /\ internal' = w.internal /\ dstat' = w.dstat
Err(w, what) == [w EXCEPT !.internal = Append(@, what)]
\* (a wormhole that is closing no longer transmits: Boss ignores send in S3_closing / S4_closed)
Send(w, x, msg) == IF w.stopReq[x] THEN w ELSE [w EXCEPT !.mq[Peer(x)] = Append(@, msg)]

\* this side's end of link i closes by its own hand (transport.loseConnection)
CloseEnd(w, i, x) == IF w.links[i].endst[x] = "up" THEN [w EXCEPT !.links[i].endst[x] = "closing"] ELSE w
LinksOfGen(w, x, g) == {i \in LinkIds : w.links[i].phase # "none" /\ w.links[i].gen[x] = g}

\* ---- Connector ---------------------------------------------------------------------------------------------------
\* Connector.stop() -> stop_everything: listeners stop, dial attempts in progress are cancelled, pending *outbound*
\* connections are disconnected (inbound ones are not tracked)
RECURSIVE CloseMany(_, _, _)
CloseMany(w, S, x) == IF S = {} THEN w ELSE LET i == CHOOSE i \in S : TRUE IN CloseMany(CloseEnd(w, i, x), S \ {i}, x)
StopPending(w, x, g, except) ==
  LET mine == {i \in LinksOfGen(w, x, g) : w.links[i].dialer = x /\ i # except}
      w1 == [w EXCEPT !.links = [i \in LinkIds |-> IF i \in mine /\ w.links[i].phase = "dial"
                                                    THEN [w.links[i] EXCEPT !.phase = "dead", !.endst = [L |-> "down", F |-> "down"]]
                                                    ELSE w.links[i]]]
  IN CloseMany(w1, {i \in mine : w1.links[i].phase \notin {"dial", "dead", "none"} /\ w1.sel[x] # i}, x)

CtrInput(w, x, g, inp, arg) ==
  LET st == w.ctrOf[x][g] IN
  IF <<st, inp>> \notin DOMAIN Tbl_CTR THEN Err(w, "NoTransition:CTR." \o st \o "." \o inp)
  ELSE LET row == Tbl_CTR[<<st, inp>>]
           w0 == [w EXCEPT !.ctrOf[x][g] = row.next, !.ctr[x] = IF g = w.cgen[x] THEN row.next ELSE @]
       IN IF row.outs = <<>> THEN w0
          ELSE LET o == row.outs[1] IN
               CASE o = "publish_hints" -> Send(w0, x, [t |-> "hints", g |-> g])
                 [] o = "use_hints" ->
                      \* dial the peer's listener: a new TCP connection attempt owned by this Connector
                      IF w0.nlinks < MaxLinks
                      THEN LET id == w0.nlinks + 1 IN
                           [w0 EXCEPT !.nlinks = id,
                                      !.links[id] = [phase |-> "dial", wascut |-> FALSE, dialer |-> x, gen |-> [L |-> IF x = "L" THEN g ELSE 0, F |-> IF x = "F" THEN g ELSE 0],
                                                     endst |-> [L |-> "down", F |-> "down"], dcp |-> [L |-> "-", F |-> "-"]]]
                      ELSE w0
                 [] o = "consider" -> [w0 EXCEPT !.accepts[x] = Append(@, [gen |-> g, link |-> arg])]
                 [] o = "stop_everything" -> StopPending(w0, x, g, 0)
                 [] o = "select_and_stop_remaining" -> [w0 EXCEPT !.internal = Append(@, "select-outside-accept")]
                 [] OTHER -> Err(w0, "unmodelled-output:CTR." \o o)

\* ---- Manager ---------------------------------------------------------------------------------------------------------
RECURSIVE MgrOuts(_, _, _, _)
MgrInput(w, x, inp, arg) ==
  LET st == w.mgr[x] IN
  IF <<st, inp>> \notin DOMAIN Tbl_MGR THEN Err(w, "NoTransition:MGR." \o st \o "." \o inp)
  ELSE LET row == Tbl_MGR[<<st, inp>>] IN MgrOuts([w EXCEPT !.mgr[x] = row.next], x, row.outs, arg)

StartConnecting(w, x) ==
  \* a new Connector generation; its listener is ready at once and publishes our hints
  LET g  == w.cgen[x] + 1
      w1 == [w EXCEPT !.cgen[x] = g, !.ctr[x] = Init_CTR, !.ctrOf[x][g] = Init_CTR] IN
  IF g > MaxGen THEN w ELSE IF x \in NoListen THEN w1 ELSE CtrInput(w1, x, g, "listener_ready", 0)

MgrOuts(w, x, outs, arg) ==
  IF outs = <<>> THEN w
  ELSE LET o == Head(outs)
           w1 == CASE o = "send_please" -> Send(w, x, [t |-> "please", g |-> 0])
                   [] o = "choose_role" -> w
                   [] o \in {"start_connecting", "start_connecting_ignore_message"} -> StartConnecting(w, x)
                   [] o = "send_reconnect" -> Send(w, x, [t |-> "reconnect", g |-> 0])
                   [] o = "send_reconnecting" -> Send(w, x, [t |-> "reconnecting", g |-> 0])
                   [] o = "use_hints" -> IF w.cgen[x] > 0 THEN CtrInput(w, x, w.cgen[x], "got_hints", 0) ELSE w
                   [] o = "stop_connecting" -> IF w.cgen[x] > 0 THEN CtrInput(w, x, w.cgen[x], "stop", 0) ELSE w
                   [] o = "abandon_connection" -> IF w.sel[x] > 0 THEN CloseEnd(w, w.sel[x], x) ELSE Err(w, "abandon-without-connection")
                   [] o = "notify_stopped" -> [w EXCEPT !.stopped[x] = TRUE]
                   [] o = "send_status_connecting" -> [w EXCEPT !.dstat[x] = "connecting"]
                   [] o = "send_status_reconnecting" -> [w EXCEPT !.dstat[x] = "reconnecting"]
                   [] o = "send_status_stopped" -> [w EXCEPT !.dstat[x] = "stopped"]
                   [] o = "send_status_dilation_generation" -> w
                   [] OTHER -> Err(w, "unmodelled-output:MGR." \o o)
       IN MgrOuts(w1, x, Tail(outs), arg)

\* ---------------------------------------------------------------------------------------------------------------
\* application / wormhole events
\* w.dilate(): the Manager is built; versions and dilation messages that arrived earlier are replayed
RECURSIVE Replay(_, _, _)
RxMsg(w, x, m) == CASE m.t = "please" -> MgrInput(w, x, "rx_PLEASE", 0)
                    [] m.t = "hints" -> MgrInput(w, x, "rx_HINTS", 0)
                    [] m.t = "reconnect" -> MgrInput(w, x, "rx_RECONNECT", 0)
                    [] m.t = "reconnecting" -> MgrInput(w, x, "rx_RECONNECTING", 0)
Replay(w, x, ms) == IF ms = <<>> THEN w ELSE Replay(RxMsg(w, x, Head(ms)), x, Tail(ms))
\* (Dilator: the peer's dilation messages are held - in order - until the Manager exists *and* the peer's versions have
\* arrived; whichever of dilate() / the versions message comes last hands them over.  Before the repair 792e89d they were
\* held only while no Manager existed, and a dilate-0 overtaking the versions message hit Manager.WAITING x rx_PLEASE.)
AppDilate(x) ==
  /\ mgr[x] = "none" /\ x \in Dilaters /\ ~stopReq[x]
  /\ LET w0 == [World EXCEPT !.mgr[x] = Init_MGR, !.dstat[x] = "nopeer"]
         w1 == IF versions[x] THEN MgrInput([w0 EXCEPT !.held[x] = <<>>], x, "start", 0) ELSE w0 IN
     Commit(IF versions[x] THEN Replay(w1, x, held[x]) ELSE w1)
  /\ cuts' = cuts /\ last' = <<"AppDilate", x, 0>>

\* the peer's versions message arrives - before or after its dilation messages: the mailbox is an unordered set to the
\* protocol (the Boss restores the order of the dilate-N messages among themselves, not their order relative to "version")
VersionsArrive(x) ==
  /\ ~versions[x] /\ ~stopReq[x]          \* (a closing Boss ignores the versions message)
  /\ LET w0 == [World EXCEPT !.versions[x] = TRUE] IN
     Commit(IF mgr[x] # "none" THEN Replay(MgrInput([w0 EXCEPT !.held[x] = <<>>], x, "start", 0), x, held[x]) ELSE w0)
  /\ cuts' = cuts /\ last' = <<"VersionsArrive", x, 0>>

\* the next dilation control message arrives
MailboxDeliver(x) ==
  /\ mq[x] # <<>> /\ ~stopReq[x]
  /\ LET m  == Head(mq[x])
         w0 == [World EXCEPT !.mq[x] = Tail(@)] IN
     Commit(IF mgr[x] = "none" \/ ~versions[x] THEN [w0 EXCEPT !.held[x] = Append(@, m)] ELSE RxMsg(w0, x, m))
  /\ cuts' = cuts /\ last' = <<"MailboxDeliver", x, 0>>

\* ---------------------------------------------------------------------------------------------------------------
\* links
\* the TCP connection is established: both ends build their protocol (owned by each side's *current* Connector -
\* the listener belongs to it) and start the handshake
TcpUp(i) ==
  /\ links[i].phase = "dial"
  /\ LET d == links[i].dialer  a == Peer(d) IN
     \* the acceptor must still be listening: its current Connector is "connecting"
     IF ctr[a] = "connecting" /\ a \notin NoListen
     THEN links' = [links EXCEPT ![i].phase = "hs", ![i].gen[a] = cgen[a], ![i].endst = [L |-> "up", F |-> "up"],
                                 ![i].dcp = [L |-> Init_DCP, F |-> Init_DCP]]
     ELSE links' = [links EXCEPT ![i].phase = "dead"]          \* connection refused
  /\ last' = <<"TcpUp", "-", i>>
  /\ UNCHANGED <<mgr, versions, ctr, cgen, ctrOf, mq, held, nlinks, accepts, sel, lostq, stopReq, stopped, cuts, internal, dstat>>

BothUp(i) == links[i].endst.L = "up" /\ links[i].endst.F = "up"
\* prologues and Noise messages exchanged; the Follower sends its KCM
HsDone(i) ==
  /\ links[i].phase = "hs" /\ BothUp(i)
  /\ links' = [links EXCEPT ![i].phase = "kcmF"]
  /\ last' = <<"HsDone", "-", i>>
  /\ UNCHANGED <<mgr, versions, ctr, cgen, ctrOf, mq, held, nlinks, accepts, sel, lostq, stopReq, stopped, cuts, internal, dstat>>

\* a KCM arrives at side x's end of link i: DCP.got_kcm -> Connector.add_candidate (of the Connector that built it)
GotKcm(w, x, i) ==
  LET st == w.links[i].dcp[x] IN
  IF <<st, "got_kcm">> \notin DOMAIN Tbl_DCP THEN Err(w, "NoTransition:DCP." \o st \o ".got_kcm")
  ELSE LET row == Tbl_DCP[<<st, "got_kcm">>]
           w0 == [w EXCEPT !.links[i].dcp[x] = row.next] IN
       IF row.outs = <<"add_candidate">> THEN CtrInput(w0, x, w.links[i].gen[x], "add_candidate", i) ELSE w0
DeliverKcmF(i) ==
  /\ links[i].phase = "kcmF" /\ links[i].endst.L = "up"
  /\ LET w0 == [World EXCEPT !.links[i].phase = "Lcand"] IN Commit(GotKcm(w0, "L", i))
  /\ cuts' = cuts /\ last' = <<"DeliverKcmF", "L", i>>
DeliverKcmL(i) ==
  /\ links[i].phase = "Lsel" /\ links[i].endst.F = "up"
  /\ LET w0 == [World EXCEPT !.links[i].phase = "Fcand"] IN Commit(GotKcm(w0, "F", i))
  /\ cuts' = cuts /\ last' = <<"DeliverKcmL", "F", i>>

\* one eventual-queue turn of side x: Connector.accept(c)
\*   connecting: select_and_stop_remaining: winner; listeners stop; pending dials cancelled; other pending outbound
\*   connections disconnected; c.select(manager) (DCP); the Leader sends KCM; Manager.connector_connection_made(c)
TurnAccept(x) ==
  /\ accepts[x] # <<>>
  /\ LET a  == Head(accepts[x])
         i  == a.link
         g  == a.gen
         w0 == [World EXCEPT !.accepts[x] = Tail(@)]
         st == w0.ctrOf[x][g] IN
     IF <<st, "accept">> \notin DOMAIN Tbl_CTR THEN Commit(Err(w0, "NoTransition:CTR." \o st \o ".accept"))
     ELSE LET row == Tbl_CTR[<<st, "accept">>]
              w1 == [w0 EXCEPT !.ctrOf[x][g] = row.next, !.ctr[x] = IF g = w0.cgen[x] THEN row.next ELSE @] IN
          IF row.outs # <<"select_and_stop_remaining">> THEN Commit(w1)
          ELSE LET w2 == StopPending(w1, x, g, i)
                   ds == w2.links[i].dcp[x]
                   w3 == IF <<ds, "select">> \in DOMAIN Tbl_DCP
                         THEN [w2 EXCEPT !.links[i].dcp[x] = Tbl_DCP[<<ds, "select">>].next, !.dstat[x] = "connected"]   \* send_status_have_peer
                         ELSE Err(w2, "NoTransition:DCP." \o ds \o ".select")
                   \* the Leader's KCM goes out only if the connection is still there
                   w4 == IF x = "L" THEN [w3 EXCEPT !.links[i].phase = IF @ = "Lcand" THEN "Lsel" ELSE @]
                         ELSE [w3 EXCEPT !.links[i].phase = IF @ = "Fcand" THEN "both" ELSE @]
                   \* connector_connection_made: Manager.connection_made(); then the Manager uses c
                   w5 == MgrInput(w4, x, "connection_made", 0)
                   \* set_manager registers when_disconnected(): if the connection is already gone the callback is
                   \* queued right away
                   w6 == IF w5.links[i].endst[x] = "down" THEN [w5 EXCEPT !.lostq[x] = Append(@, i)] ELSE w5 IN
               Commit([w6 EXCEPT !.sel[x] = i])
  /\ cuts' = cuts /\ last' = <<"TurnAccept", x, Head(accepts[x]).link>>

\* ---- loss -----------------------------------------------------------------------------------------------------------
\* the network cuts a link, or an end that is closing finishes; each side then observes the loss of its end
Cut(i) ==
  /\ cuts < MaxCuts /\ links[i].phase \notin {"none", "dial", "dead"} /\ (links[i].endst.L = "up" \/ links[i].endst.F = "up")
  /\ links' = [links EXCEPT ![i].endst = [x \in Sides |-> IF @[x] = "up" THEN "cut" ELSE @[x]], ![i].wascut = TRUE]
  /\ cuts' = cuts + 1 /\ last' = <<"Cut", "-", i>>
  /\ UNCHANGED <<mgr, versions, ctr, cgen, ctrOf, mq, held, nlinks, accepts, sel, lostq, stopReq, stopped, internal, dstat>>

\* the Leader's connection monitor (TrafficTimer, C16) gives up on a silent peer: two ping intervals without an answer and
\* Manager._signal_reconnect() disconnects the connection in use; the loss then arrives like any other
MonitorDrop ==
  /\ cuts < MaxCuts /\ mgr.L = "CONNECTED" /\ sel.L > 0 /\ links[sel.L].endst.L = "up" /\ ~stopReq.L
  /\ links' = [links EXCEPT ![sel.L].endst.L = "closing"]
  /\ cuts' = cuts + 1 /\ last' = <<"MonitorDrop", "L", sel.L>>
  /\ UNCHANGED <<mgr, versions, ctr, cgen, ctrOf, mq, held, nlinks, accepts, sel, lostq, stopReq, stopped, internal, dstat>>

\* a ping interval passes on a healthy shared connection: the Leader's interval timer expires, it pings, the Follower answers
\* (nothing changes at this level of abstraction - the real timer, ping and pong do run; never twice in a row)
KeepAlive ==
  /\ mgr.L = "CONNECTED" /\ mgr.F = "CONNECTED" /\ sel.L > 0 /\ sel.L = sel.F
  /\ links[sel.L].endst.L = "up" /\ links[sel.L].endst.F = "up" /\ last[1] # "KeepAlive"
  /\ last' = <<"KeepAlive", "L", sel.L>>
  /\ UNCHANGED <<mgr, versions, ctr, cgen, ctrOf, mq, held, links, nlinks, accepts, sel, lostq, stopReq, stopped, cuts, internal, dstat>>

\* side x's end of link i sees connectionLost (it was cut, it closed itself, or the peer's end closed)
CanLose(i, x) == links[i].endst[x] \in {"cut", "closing"} \/ (links[i].endst[x] = "up" /\ links[i].endst[Peer(x)] \in {"closing", "down"})
ObserveLoss(i, x) ==
  /\ links[i].phase \notin {"none", "dial"} /\ CanLose(i, x)
  /\ LET w0 == [World EXCEPT !.links[i].endst[x] = "down"] IN
     \* a selected connection tells its Manager, through the eventual queue
     Commit(IF links[i].dcp[x] = "selected" THEN [w0 EXCEPT !.lostq[x] = Append(@, i)] ELSE w0)
  /\ cuts' = cuts /\ last' = <<"ObserveLoss", x, i>>

\* the queued when_disconnected callback runs: Manager.connector_connection_lost()
TurnLost(x) ==
  /\ lostq[x] # <<>>
  /\ LET i  == Head(lostq[x])
         w0 == [World EXCEPT !.lostq[x] = Tail(@), !.sel[x] = 0] IN
     Commit(MgrInput(w0, x, IF x = "L" THEN "connection_lost_leader" ELSE "connection_lost_follower", 0))
  /\ cuts' = cuts /\ last' = <<"TurnLost", x, Head(lostq[x])>>

\* ---- shutdown ----------------------------------------------------------------------------------------------------------
\* Terminator.stop_dilator -> Dilator.stop(): Manager.stop() (no Manager: stopped at once)
Stop(x) ==
  /\ ~stopReq[x] /\ x \in AllowStop
  /\ LET w0 == [World EXCEPT !.stopReq[x] = TRUE] IN
     Commit(IF mgr[x] = "none" THEN [w0 EXCEPT !.stopped[x] = TRUE] ELSE MgrInput(w0, x, "stop", 0))
  /\ cuts' = cuts /\ last' = <<"Stop", x, 0>>

Next == (\E x \in Sides : AppDilate(x) \/ VersionsArrive(x) \/ MailboxDeliver(x) \/ TurnAccept(x) \/ TurnLost(x) \/ Stop(x))
        \/ MonitorDrop \/ KeepAlive
        \/ (\E i \in LinkIds : TcpUp(i) \/ HsDone(i) \/ DeliverKcmF(i) \/ DeliverKcmL(i) \/ Cut(i)
                               \/ \E x \in Sides : ObserveLoss(i, x))
Fair == WF_vars(\E x \in Sides : VersionsArrive(x) \/ MailboxDeliver(x) \/ TurnAccept(x) \/ TurnLost(x))
        /\ WF_vars(\E i \in LinkIds : TcpUp(i) \/ HsDone(i) \/ DeliverKcmF(i) \/ DeliverKcmL(i) \/ \E x \in Sides : ObserveLoss(i, x))
Spec == Init /\ [][Next]_vars /\ Fair

\* ---- supplementary (no listed property): the DilationStatus reported to the application agrees with the Manager ----------------
DStatusStopped == \A x \in Sides : dstat[x] = "stopped" => mgr[x] = "STOPPED"
\* (the converse does not hold on the pinned tree: WAITING x stop and WANTING x stop enter STOPPED without send_status_stopped -
\* an application that closes before the peer's versions arrive keeps seeing NoPeer; TLC's counterexample is one Stop step long)
DStatusStoppedConverse == \A x \in Sides : mgr[x] = "STOPPED" => dstat[x] = "stopped"
DStatusConnected == \A x \in Sides : mgr[x] = "CONNECTED" => dstat[x] = "connected"
DStatusNone == \A x \in Sides : (dstat[x] = "none") <=> (mgr[x] = "none")

\* ---- properties ----------------------------------------------------------------------------------------------------------
\* C11: at any moment each side uses at most one peer connection ...
SelectedEnds(x) == {i \in LinkIds : links[i].phase # "none" /\ links[i].dcp[x] = "selected" /\ links[i].endst[x] \in {"up", "cut"}}
AtMostOneSelected == \A x \in Sides : Cardinality(SelectedEnds(x)) <= 1
\* ... and a Follower only ever uses a connection on which the Leader has confirmed its selection
FollowerFollowsLeader == \A i \in LinkIds : (links[i].phase # "none" /\ links[i].dcp.F \in {"selecting", "selected"}) => links[i].dcp.L = "selected"
\* no machine receives an input it has no transition for
NoInternal == internal = <<>>
\* A Connector that was stopped (replaced by a newer generation, or dilation stopped) has no rows at all: a queued
\* accept() or a late KCM on one of its connections raises NoTransition inside an eventual-queue turn / dataReceived.
\* That is logged and otherwise without consequence for C11/C17; anything else would be new.
BenignInternal == {"NoTransition:CTR.stopped.accept", "NoTransition:CTR.stopped.add_candidate"}
OnlyBenignInternal == \A k \in 1..Len(internal) : internal[k] \in BenignInternal
\* C11 convergence: when nothing is in flight and nothing can move, both Managers are CONNECTED on one link
\* (or dilation was never started / was stopped / the run's resources were used up)
Quiet == /\ \A x \in Sides : mq[x] = <<>> /\ accepts[x] = <<>> /\ lostq[x] = <<>>
         /\ \A i \in LinkIds : links[i].phase \in {"none", "dead", "both"} \/ ~(links[i].endst.L = "up" /\ links[i].endst.F = "up")
         /\ \A i \in LinkIds : \A x \in Sides : ~CanLose(i, x) \/ links[i].phase \in {"none", "dial"}
Converged == \E i \in LinkIds : sel.L = i /\ sel.F = i /\ mgr.L = "CONNECTED" /\ mgr.F = "CONNECTED"
ResourcesLeft == nlinks < MaxLinks /\ \A x \in Sides : cgen[x] < MaxGen
\* proviso of the statement: the network lets at least one connection attempt of the new generation complete
CurrentLinks == {i \in LinkIds : links[i].phase # "none" /\ links[i].gen.L = cgen.L /\ links[i].gen.F = cgen.F}
NetworkLetOneLive == \E i \in CurrentLinks : ~links[i].wascut
\* ... so the network is to blame for a standstill only if it cut every connection of the current generation pair;
\* if there is none although attempts remain, the standstill is the protocol's own
NetworkCutAll == CurrentLinks # {} /\ \A i \in CurrentLinks : links[i].wascut
NoDeadlock == (Quiet /\ Dilaters = Sides /\ \A x \in Sides : mgr[x] # "none" /\ versions[x] /\ ~stopReq[x]) =>
                 (Converged \/ ~ResourcesLeft \/ (\E i \in LinkIds : links[i].phase = "dial") \/ NetworkCutAll)
\* C17: a stop request always completes, and nothing of that side is left behind
StopCompletes == \A x \in Sides : stopReq[x] ~> stopped[x]
NothingLeftAfterStop == \A x \in Sides : stopped[x] =>
    /\ ctr[x] # "connecting"                                           \* no listener
    /\ ~(\E i \in LinkIds : links[i].dialer = x /\ links[i].phase = "dial" /\ links[i].gen[x] = cgen[x])     \* no pending attempt
    /\ (sel[x] > 0 => links[sel[x]].endst[x] # "up")                    \* the active connection is shut down
    \* ... and so is every connection this side dialled, negotiated or not (Connector._pending_connections)
    /\ ~(\E i \in LinkIds : links[i].phase \notin {"none", "dial", "dead"} /\ links[i].dialer = x /\ links[i].endst[x] = "up")
====
