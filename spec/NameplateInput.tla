---- MODULE NameplateInput ----
\* C19, interactive code entry, first half: nameplate completion.  The input helper offers the nameplates of the
\* server's *latest* listing that extend what has been typed, each followed by "-".  A listing replaces the
\* previous one: a nameplate that is no longer listed belongs to nobody who is still waiting, and completing to it
\* yields a code no peer allocated.  Nameplates are sequences of digit characters (TLC has no substring operators
\* on strings); harness/props/codes.py joins them.
\* TLC enumerates every history of listings up to MaxHistory and every typed prefix, and prints one line per case;
\* the harness replays each history on a real wormhole (Input + Lister machines, real RendezvousConnector) against
\* the server twin and compares the completions offered after every listing.
EXTENDS Naturals, Sequences, FiniteSets, SequencesExt, TLC

CONSTANTS Universe,     \* the nameplates that may ever be listed (sequences of digits)
          Typed,     \* what the user has typed so far (sequences of digits)
          MaxHistory

Listings == SUBSET Universe
Histories == UNION {[1..n -> Listings] : n \in 1..MaxHistory}

Known(h) == h[Len(h)]
Completions(h, p) == {Append(n, "-") : n \in {m \in Known(h) : IsPrefix(p, m)}}

\* every offered completion names a nameplate of the latest listing, and extends what was typed
OfferedAreListed == \A h \in Histories : \A p \in Typed : \A c \in Completions(h, p) :
    /\ Front(c) \in h[Len(h)] /\ IsPrefix(p, c) /\ Last(c) = "-"
\* nothing that is listed and extends the prefix is withheld
ListedAreOffered == \A h \in Histories : \A p \in Typed : \A n \in h[Len(h)] : IsPrefix(p, n) => Append(n, "-") \in Completions(h, p)
\* a nameplate that was listed once and is not listed any more is never offered
StaleNeverOffered == \A h \in Histories : \A p \in Typed : \A k \in 1..(Len(h) - 1) :
    \A n \in h[k] \ h[Len(h)] : Append(n, "-") \notin Completions(h, p)

ReportCases == \A h \in Histories : \A p \in Typed : PrintT(<<"NPC", h, p, Completions(h, p)>>)

VARIABLE done
Init == done = FALSE
Next == UNCHANGED done
Spec == Init /\ [][Next]_done
====
