---- MODULE NameplateInput ----
\* C19, interactive code entry, first half: nameplate completion.  The input helper offers the nameplates of the
\* server's *latest* listing that extend what has been typed, each followed by "-".  A listing replaces the
\* previous one: a nameplate that is no longer listed belongs to nobody who is still waiting, and completing to it
\* yields a code no peer allocated.  Nameplates are sequences of digit characters (TLC has no substring operators
\* on strings); harness/props/codes.py joins them.
\* TLC enumerates every history of listings up to MaxHistory and every typed prefix, and prints one line per case;
\* the harness replays each history on a real wormhole (Input + Lister machines, real RendezvousConnector) against
\* the server twin and compares the completions offered after every listing.
EXTENDS Naturals, Sequences, FiniteSets, SequencesExt, TLC

CONSTANTS Universe,     \* the nameplates that may ever be listed (sequences of digits)
          Typed,     \* what the user has typed so far (sequences of digits)
          MaxHistory

Listings == SUBSET Universe
Histories == UNION {[1..n -> Listings] : n \in 1..MaxHistory}

Known(h) == h[Len(h)]
Completions(h, p) == {Append(n, "-") : n \in {m \in Known(h) : IsPrefix(p, m)}}

\* every offered completion names a nameplate of the latest listing, and extends what was typed
OfferedAreListed == \A h \in Histories : \A p \in Typed : \A c \in Completions(h, p) :
    /\ Front(c) \in h[Len(h)] /\ IsPrefix(p, c) /\ Last(c) = "-"
\* nothing that is listed and extends the prefix is withheld
ListedAreOffered == \A h \in Histories : \A p \in Typed : \A n \in h[Len(h)] : IsPrefix(p, n) => Append(n, "-") \in Completions(h, p)
\* a nameplate that was listed once and is not listed any more is never offered
StaleNeverOffered == \A h \in Histories : \A p \in Typed : \A k \in 1..(Len(h) - 1) :
    \A n \in h[k] \ h[Len(h)] : Append(n, "-") \notin Completions(h, p)

\* ---- the readline front end (CodeInputter): once a nameplate has been claimed there is no going back ---------------------------
\* A session is what the user does at the prompt: Tab on a line whose nameplate part is `np` (with or without the "-" after it),
\* any number of times, then Return on a line whose nameplate part is `np`.  Tab on a line with a "-" claims the nameplate typed
\* before it (choose_nameplate: irrevocable).  From then on every line must carry exactly that nameplate - not another one, not a
\* longer one that merely starts with it - or the entry is refused; a line that is accepted yields exactly the code on it.
Tabs == [t : {"tab"}, np : Universe, dash : BOOLEAN]
Fins == [t : {"fin"}, np : Universe]
Sessions == {<<f>> : f \in Fins} \cup {<<a, f>> : a \in Tabs, f \in Fins} \cup {<<a, b, f>> : a \in Tabs, b \in Tabs, f \in Fins}
NoCommit == <<"none">>
RECURSIVE Outcome(_, _, _)
\* -> <<"refused", k>> (the k-th event is refused) or <<"code", np>> (Return accepted: the code's nameplate is np)
Outcome(s, k, committed) ==
    LET e == s[k] IN
    IF e.t = "fin"
    THEN IF committed # NoCommit /\ e.np # committed THEN <<"refused", k>> ELSE <<"code", e.np>>
    ELSE IF committed # NoCommit /\ (~e.dash \/ e.np # committed) THEN <<"refused", k>>
         ELSE Outcome(s, k + 1, IF e.dash /\ committed = NoCommit THEN e.np ELSE committed)
\* whatever is accepted is what was on the line; a line with another nameplate than the claimed one is never accepted
AcceptedIsTyped == \A s \in Sessions : LET o == Outcome(s, 1, NoCommit) IN o[1] = "code" => o[2] = s[Len(s)].np
ClaimIsFinal == \A s \in Sessions : \A k \in 1..(Len(s) - 1) :
    (s[k].dash /\ Outcome(s, 1, NoCommit)[1] = "code" /\ \A j \in 1..(k - 1) : ~s[j].dash) => s[Len(s)].np = s[k].np
ReportSessions == \A s \in Sessions : PrintT(<<"RLC", s, Outcome(s, 1, NoCommit)>>)

ReportCases == \A h \in Histories : \A p \in Typed : PrintT(<<"NPC", h, p, Completions(h, p)>>)

VARIABLE done
Init == done = FALSE
Next == UNCHANGED done
Spec == Init /\ [][Next]_done
====
