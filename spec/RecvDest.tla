---- MODULE RecvDest ----
\* C05: where `wormhole receive` writes (cli/cmd_receive.py Receiver._decide_destname, _remove_existing,
\* _ask_permission, _handle_file/_write_file, _handle_directory/_write_directory/_extract_file).
\* The sender is untrusted: the offered name and the names inside the zip archive are arbitrary strings.
\* Names are abstracted to what the code can distinguish: the class of their last path component and of
\* each zip member path.  The file system is abstracted to the few places that matter.
\* TLC enumerates every case, checks the decision function against the statement, and prints the expected
\* outcome of each case; harness/props/recvdest.py runs the real Receiver on every case in a sandbox and
\* compares a before/after snapshot of the sandbox AND its parent with the permitted set.
EXTENDS Naturals, Sequences, FiniteSets, TLC

\* ---- the offered name ---------------------------------------------------------------------------------
\* class of os.path.basename(offered name): a usable name, or one of the degenerate components
BaseClasses == {"plain", "empty", "dot", "dotdot"}
\* how the rest of the offered name looks (irrelevant to a correct receiver; must not matter)
Decor == {"none", "subdir", "absolute", "parent", "parentparent", "dotslash"}
Modes == {"file", "directory"}
\* --output-file: not given / names something new / names an existing file / names an existing directory
OutOpts == {"unset", "new", "file", "dir"}
\* what already exists at the place the transfer would go (when that place is not decided by OutOpts alone)
\* "linkfile" / "linkdir": a symbolic link to an existing file / directory *outside* the working directory; "dangling": a
\* symbolic link whose target does not exist (its parent directory, outside the working directory, does)
PreOpts == {"none", "file", "dir", "linkfile", "linkdir", "dangling"}
\* what the entry counts as: a link to something that exists is that something (an existing destination); a dangling link is
\* no existing destination - nothing is there to lose - so the receiver may replace the link itself or fail, but the place
\* the link points at is outside the destination like any other place
PreAs(p) == CASE p = "linkfile" -> "file" [] p = "linkdir" -> "dir" [] p = "dangling" -> "none" [] OTHER -> p

Case(m, b, d, o, a, p, t) == [mode |-> m, base |-> b, decor |-> d, out |-> o, accept |-> a, pre |-> p, pretmp |-> t]
Cases == {Case(m, b, d, o, a, p, t) : m \in Modes, b \in BaseClasses, d \in Decor, o \in OutOpts, a \in BOOLEAN,
                                      p \in PreOpts, t \in BOOLEAN}

\* ---- the decision -----------------------------------------------------------------------------------------
\* abstract destinations: "cwd/base" (child of the working directory named by the basename), "out" (the
\* --output-file target itself), "out/base" (child of the --output-file directory named by the basename)
Rejected == [result |-> "rejected", dest |-> "-", replaces |-> FALSE]
Written(d, r) == [result |-> "written", dest |-> d, replaces |-> r]

\* a degenerate basename makes the candidate path an existing directory (cwd, its parent, the output dir)
Degenerate(c) == c.base # "plain"

Decide0(c) ==
  CASE c.out = "unset" ->
         IF Degenerate(c) \/ PreAs(c.pre) # "none" THEN Rejected ELSE Written("cwd/base", FALSE)
    [] c.out = "new"  -> Written("out", FALSE)                    \* the offered name is not used at all
    [] c.out = "file" -> Written("out", TRUE)                     \* replacing it is what the user asked for
    [] c.out = "dir"  ->
         IF Degenerate(c) THEN Rejected
         ELSE IF PreAs(c.pre) = "dir" THEN Rejected               \* an existing directory is never deleted
         ELSE Written("out/base", PreAs(c.pre) = "file")
\* where the dangling link sits (the candidate destination the basename names) the transfer may go ahead - replacing the link -
\* or fail: result "any"; the announced destination is the same either way
Decide(c) == LET d == Decide0(c) IN
  IF c.pre = "dangling" /\ d.result = "written" /\ d.dest \in {"cwd/base", "out/base"} THEN [d EXCEPT !.result = "any"] ELSE d

\* ---- what the statement allows ---------------------------------------------------------------------------------
\* the single announced destination: a child of cwd (or the --output-file target) named by the offer's basename
AnnouncedOK(c) == LET r == Decide(c) IN
    r.result \in {"written", "any"} =>
       /\ r.dest \in {"cwd/base", "out", "out/base"}
       /\ (r.dest = "cwd/base" => c.out = "unset" /\ ~Degenerate(c))
       /\ (r.dest = "out/base" => c.out = "dir" /\ ~Degenerate(c))
\* without --output-file an existing destination makes the transfer fail
ExistingFails(c) == (c.out = "unset" /\ PreAs(c.pre) # "none") => Decide(c).result = "rejected"
\* an existing file is replaced only when --output-file names it or the existing directory containing it
ReplaceOnlyIfNamed(c) == Decide(c).replaces => c.out \in {"file", "dir"}
\* an existing directory is never deleted (replaced)
DirNeverDeleted(c) == (Decide(c).replaces /\ c.out = "dir") => PreAs(c.pre) = "file"
\* the decoration of the offered name never matters
DecorIrrelevant == \A c \in Cases : \A d \in Decor : Decide(c) = Decide([c EXCEPT !.decor = d])
StatementHolds == \A c \in Cases : AnnouncedOK(c) /\ ExistingFails(c) /\ ReplaceOnlyIfNamed(c) /\ DirNeverDeleted(c)

\* ---- zip members (directory mode) ----------------------------------------------------------------------------
\* class of a member path relative to the extraction directory after normalisation
\* "via-symlink-*": a member stored as a symbolic link (unix mode S_IFLNK) pointing out of the destination - absolutely, by
\* "..", or at a sibling - followed by a member whose path leads through it
MemberClasses == {"inside", "inside-nested", "dotdot-escape", "absolute", "nested-escape", "inside-via-dotdot", "self",
                  "via-symlink-abs", "via-symlink-dotdot", "via-symlink-sibling"}
\* a member may be written only beneath the destination; any other member must abort the transfer
MemberVerdict(mc) == IF mc \in {"inside", "inside-nested"} THEN "extract"
                     ELSE IF mc = "inside-via-dotdot" THEN "extract-or-abort"     \* "a/../b": stays inside either way
                     \* a link member may be written out as a plain file or refused; what leads through it must not land outside
                     ELSE IF mc \in {"via-symlink-abs", "via-symlink-dotdot", "via-symlink-sibling"} THEN "extract-or-abort"
                     ELSE "abort"
MembersSafe == \A mc \in MemberClasses : MemberVerdict(mc) = "extract" => mc \in {"inside", "inside-nested"}

\* ---- enumeration -------------------------------------------------------------------------------------------------
VARIABLE case
Init == case \in Cases
Next == UNCHANGED case
Spec == Init /\ [][Next]_case
Report == PrintT(<<"CASE", case, Decide(case)>>)
CaseInv == AnnouncedOK(case) /\ ExistingFails(case) /\ ReplaceOnlyIfNamed(case) /\ DirNeverDeleted(case)
ReportMembers == \A mc \in MemberClasses : PrintT(<<"MEMBER", mc, MemberVerdict(mc)>>)
====
