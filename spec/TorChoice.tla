---- MODULE TorChoice ----
\* Which Tor the client ends up using (tor_manager.get_tor), as a function of what the caller asked for and of what the
\* environment offers: txtorcon installed or not, --launch-tor, --tor-control-port, does launching / connecting to the named
\* control port / finding a control port at the usual places succeed.  A decision table enumerated by TLC (every case printed)
\* and executed case by case on the real get_tor() with a scripted stand-in for the txtorcon module
\* (harness/props/torchoice.py).  Supplementary (no listed property names Tor); reported under C20's coverage.supplementary,
\* next to the Tor-enabled hint cases.
EXTENDS Naturals, TLC

Launch == {"no", "yes", "notbool"}                 \* launch_tor=False / True / something that is not a bool
Port == {"none", "given", "empty", "notstr"}      \* tor_control_port=None / "tcp:127.0.0.1:9251" / "" / 9251
Cfg == [installed : BOOLEAN, launch : Launch, port : Port, launchOK : BOOLEAN, namedOK : BOOLEAN, usualOK : BOOLEAN]

\* outcomes: exceptions by name; "launched" (a new Tor process); "control:named" (the control port the caller named);
\* "control:usual" (one found at the usual places); "socks" (SocksOnlyTor: no control port, SOCKS at the usual places);
\* "fails:launch" / "fails:named" (the failure of txtorcon.launch / txtorcon.connect is the caller's)
Outcome(c) ==
  IF ~c.installed THEN "NoTorError"
  ELSE IF c.launch = "notbool" THEN "TypeError"
  ELSE IF c.port = "notstr" THEN "TypeError"
  ELSE IF c.port = "empty" THEN "AssertionError"
  ELSE IF c.launch = "yes" /\ c.port = "given" THEN "ValueError"
  ELSE IF c.launch = "yes" THEN (IF c.launchOK THEN "launched" ELSE "fails:launch")
  ELSE IF c.port = "given" THEN (IF c.namedOK THEN "control:named" ELSE "fails:named")
  ELSE IF c.usualOK THEN "control:usual" ELSE "socks"

Uses(o) == o \in {"launched", "control:named", "control:usual", "socks"}
\* what the caller asked for is what is used, or the call fails: no silent substitute for a named control port or a launch
NoSilentSubstitute == \A c \in Cfg : /\ (c.launch = "yes" /\ Uses(Outcome(c))) => Outcome(c) = "launched"
                                    /\ (c.port = "given" /\ Uses(Outcome(c))) => Outcome(c) = "control:named"
\* the SOCKS-only fallback is taken only when the caller asked for nothing in particular and no control port was found
SocksOnlyAsLastResort == \A c \in Cfg : Outcome(c) = "socks" => (c.launch = "no" /\ c.port = "none" /\ ~c.usualOK)
\* without txtorcon nothing else is looked at
NoTorFirst == \A c \in Cfg : ~c.installed => Outcome(c) = "NoTorError"
ASSUME NoSilentSubstitute /\ SocksOnlyAsLastResort /\ NoTorFirst
ASSUME \A c \in Cfg : PrintT(<<"CASE", c, Outcome(c)>>)

VARIABLE x
Init == x = 0
Next == UNCHANGED x
Spec == Init /\ [][Next]_x
====
