---- MODULE MailboxServer ----
\* The mailbox server as the protocol exposes it (docs/server-protocol.rst; cross-checked against
\* wormhole_mailbox_server 0.8 server_websocket.py / server.py).  Pure operators over the server
\* tables `srv` and the per-client connection records `net`; harness/mbserver.py is its Python twin.
EXTENDS Naturals, Sequences, FiniteSets, TLC, Crypto

CONSTANTS Sides,        \* every side name that can ever talk to the server (clients + outsiders)
          Nameplates    \* nameplate ids in play

MailboxIds == {"mb1", "mb2", "mb3", "mb4"}

Frame(t, x, y, z) == [t |-> t, x |-> x, y |-> y, z |-> z, s |-> {}]
FrameS(t, s)      == [t |-> t, x |-> "-", y |-> "-", z |-> NoBody, s |-> s]

NoFlags == [side |-> "-", didAllocate |-> FALSE, didClaim |-> FALSE, npid |-> "-", didRelease |-> FALSE,
            mb |-> "-", mbid |-> "-", listening |-> FALSE, didClose |-> FALSE]
\* wsclosing: the server has started the WebSocket closing handshake and the client has seen its close frame: nothing more
\* is exchanged, the TCP connection goes away a moment later (Drop)
DownConn == [up |-> FALSE, closing |-> FALSE, wsclosing |-> FALSE, late |-> 0, c2s |-> <<>>, s2c |-> <<>>, f |-> NoFlags, gen |-> 0]

NoNameplate == [mb |-> "-", sides |-> [s \in Sides |-> "none"]]
NoMailbox   == [exists |-> FALSE, sides |-> [s \in Sides |-> "none"], mood |-> [s \in Sides |-> "-"], msgs |-> <<>>]
SrvInit == [np |-> [n \in Nameplates |-> NoNameplate], mb |-> [m \in MailboxIds |-> NoMailbox], nextmb |-> 1,
            closes |-> {}]

Count(f, v) == Cardinality({s \in DOMAIN f : f[s] # v})

Reply(net, c, fr) == [net EXCEPT ![c].s2c = Append(@, fr)]
ErrorReply(net, c, what) == Reply(net, c, Frame("error", what, "-", NoBody))

Listeners(net, m) == {c \in DOMAIN net : net[c].up /\ net[c].f.listening /\ net[c].f.mb = m}

\* open_mailbox(mailbox, side): creates the rows it needs; "crowded" when a third side shows up
OpenMailbox(srv, m, side) ==
    LET mb0 == srv.mb[m]
        mb1 == [mb0 EXCEPT !.exists = TRUE, !.sides[side] = IF @ = "none" THEN "open" ELSE @]
    IN  [srv |-> [srv EXCEPT !.mb[m] = mb1], crowded |-> Count(mb1.sides, "none") > 2]

\* claim_nameplate(name, side): returns [srv, err, mb]
ClaimNameplate(srv, n, side) ==
    LET fresh == srv.np[n].mb = "-"
        m     == IF fresh THEN "mb" \o ToString(srv.nextmb) ELSE srv.np[n].mb
        s1    == IF fresh THEN [srv EXCEPT !.np[n].mb = m, !.nextmb = @ + 1] ELSE srv
    IN  IF s1.np[n].sides[side] = "released"
        THEN [srv |-> s1, err |-> "reclaimed", mb |-> m]
        ELSE LET s2 == [s1 EXCEPT !.np[n].sides[side] = "claimed"]
                 o  == OpenMailbox(s2, m, side)
             IN  IF o.crowded \/ Count(o.srv.np[n].sides, "none") > 2
                 THEN [srv |-> o.srv, err |-> "crowded", mb |-> m]
                 ELSE [srv |-> o.srv, err |-> "", mb |-> m]

ReleaseNameplate(srv, n, side) ==
    IF srv.np[n].mb = "-" \/ srv.np[n].sides[side] = "none" THEN srv
    ELSE LET s1 == [srv EXCEPT !.np[n].sides[side] = "released"]
         IN  IF \E s \in Sides : s1.np[n].sides[s] = "claimed" THEN s1
             ELSE [s1 EXCEPT !.np[n] = NoNameplate]

\* Mailbox.close(side, mood): last side out deletes the mailbox, its nameplate and its messages
CloseMailbox(srv, m, side, mood) ==
    IF ~srv.mb[m].exists \/ srv.mb[m].sides[side] = "none" THEN srv
    ELSE LET s1 == [srv EXCEPT !.mb[m].sides[side] = "closed", !.mb[m].mood[side] = mood,
                               !.closes = @ \cup {[mb |-> m, side |-> side, mood |-> mood]}]
         IN  IF \E s \in Sides : s1.mb[m].sides[s] = "open" THEN s1
             ELSE [s1 EXCEPT !.mb[m] = NoMailbox,
                             !.np = [n \in Nameplates |-> IF @[n].mb = m THEN NoNameplate ELSE @[n]]]

\* add_message: stored, then broadcast to every listener (the sender included)
Broadcast(net, m, msg) ==
    [c \in DOMAIN net |-> IF c \in Listeners(net, m)
                          THEN [net[c] EXCEPT !.s2c = Append(@, Frame("message", msg.side, msg.phase, msg.body))]
                          ELSE net[c]]
AddMessage(srv, net, m, msg) ==
    IF ~srv.mb[m].exists THEN [srv |-> srv, net |-> net]
    ELSE [srv |-> [srv EXCEPT !.mb[m].msgs = Append(@, msg)], net |-> Broadcast(net, m, msg)]

RECURSIVE ReplayMsgs(_, _, _)
ReplayMsgs(net, c, msgs) ==
    IF msgs = <<>> THEN net
    ELSE ReplayMsgs(Reply(net, c, Frame("message", Head(msgs).side, Head(msgs).phase, Head(msgs).body)), c, Tail(msgs))

\* The server processes one command frame `fr` received on client c's connection.
\* `alloc` is the nameplate an `allocate` would hand out.
Handle(srv, net, c, fr, alloc) ==
    LET f == net[c].f   R == [srv |-> srv, net |-> net] IN
    CASE fr.t = "bind" ->
            IF f.side # "-" THEN [R EXCEPT !.net = ErrorReply(net, c, "already bound")]
            ELSE [R EXCEPT !.net = [net EXCEPT ![c].f.side = fr.x]]
      [] fr.t # "bind" /\ f.side = "-" -> [R EXCEPT !.net = ErrorReply(net, c, "must bind first")]
      [] fr.t = "list" ->
            [R EXCEPT !.net = Reply(net, c, FrameS("nameplates", {n \in Nameplates : srv.np[n].mb # "-"}))]
      [] fr.t = "allocate" ->
            IF f.didAllocate THEN [R EXCEPT !.net = ErrorReply(net, c, "greedy")]
            ELSE LET r == ClaimNameplate(srv, alloc, f.side) IN
                 [srv |-> r.srv, net |-> Reply([net EXCEPT ![c].f.didAllocate = TRUE], c, Frame("allocated", alloc, "-", NoBody))]
      [] fr.t = "claim" ->
            IF f.didClaim THEN [R EXCEPT !.net = ErrorReply(net, c, "only one claim per connection")]
            ELSE LET r  == ClaimNameplate(srv, fr.x, f.side)
                     n1 == [net EXCEPT ![c].f.didClaim = TRUE, ![c].f.npid = fr.x] IN
                 IF r.err # "" THEN [srv |-> r.srv, net |-> ErrorReply(n1, c, r.err)]
                 ELSE [srv |-> r.srv, net |-> Reply(n1, c, Frame("claimed", r.mb, "-", NoBody))]
      [] fr.t = "release" ->
            IF f.didRelease THEN [R EXCEPT !.net = ErrorReply(net, c, "only one release per connection")]
            ELSE IF f.npid # "-" /\ fr.x # f.npid THEN [R EXCEPT !.net = ErrorReply(net, c, "release and claim must use same nameplate")]
            ELSE [srv |-> ReleaseNameplate(srv, fr.x, f.side),
                  net |-> Reply([net EXCEPT ![c].f.didRelease = TRUE], c, Frame("released", "-", "-", NoBody))]
      [] fr.t = "open" ->
            IF f.mb # "-" THEN [R EXCEPT !.net = ErrorReply(net, c, "only one open per connection")]
            ELSE LET o  == OpenMailbox(srv, fr.x, f.side)
                     n1 == [net EXCEPT ![c].f.mbid = fr.x] IN
                 IF o.crowded THEN [srv |-> o.srv, net |-> ErrorReply(n1, c, "crowded")]
                 ELSE [srv |-> o.srv,
                       net |-> ReplayMsgs([n1 EXCEPT ![c].f.mb = fr.x, ![c].f.listening = TRUE], c, o.srv.mb[fr.x].msgs)]
      [] fr.t = "add" ->
            IF f.mb = "-" THEN [R EXCEPT !.net = ErrorReply(net, c, "must open mailbox before adding")]
            ELSE AddMessage(srv, net, f.mb, [side |-> f.side, phase |-> fr.x, body |-> fr.z])
      [] fr.t = "close" ->
            IF f.didClose THEN [R EXCEPT !.net = ErrorReply(net, c, "only one close per connection")]
            ELSE IF f.mbid # "-" /\ fr.x # f.mbid THEN [R EXCEPT !.net = ErrorReply(net, c, "open and close must use same mailbox")]
            ELSE LET o  == IF f.mb = "-" THEN OpenMailbox(srv, fr.x, f.side) ELSE [srv |-> srv, crowded |-> FALSE] IN
                 IF o.crowded THEN [srv |-> o.srv, net |-> ErrorReply(net, c, "crowded")]
                 ELSE [srv |-> CloseMailbox(o.srv, fr.x, f.side, fr.y),
                       net |-> Reply([net EXCEPT ![c].f.mb = "-", ![c].f.listening = FALSE, ![c].f.didClose = TRUE], c,
                                     Frame("closed", "-", "-", NoBody))]
      [] OTHER -> [R EXCEPT !.net = ErrorReply(net, c, "unknown type")]

SideHasClaim(srv, side) == \E n \in Nameplates : srv.np[n].sides[side] = "claimed"
SideHasOpen(srv, side)  == \E m \in MailboxIds : srv.mb[m].exists /\ srv.mb[m].sides[side] = "open"
====
