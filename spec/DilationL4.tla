---- MODULE DilationL4 ----
\* C10: Dilation L4 - durable, exactly-once, in-order delivery of OPEN/DATA/CLOSE records across a
\* sequence of L2 connections (dilation/outbound.py Outbound._outbound_queue/_queued_unsent/handle_ack/
\* use_connection/stop_using_connection, dilation/inbound.py is_record_old/update_ack_watermark,
\* Manager.got_record: ack first, then de-duplicate, then dispatch).
\* One direction A -> B of records with acks flowing back; the other direction is symmetric.
EXTENDS Naturals, Sequences, FiniteSets, SequencesExt, TLC

CONSTANTS MaxRecords,   \* application operations (each produces one record with the next seqnum)
          MaxCuts,      \* connection losses
          Window        \* BOOLEAN: A is the Leader and B the Follower of real L2 connections.  Then A selects a new
                        \* connection first (KCM, then its whole outbound queue again); whatever reaches B before
                        \* B's own Connector.accept() turn waits in DilatedConnectionProtocol._inbound_record_queue
                        \* and is handed to B's Manager, in arrival order, when B selects (connection.py)
          , Backpressure \* BOOLEAN: the transport's send buffer may fill while A re-sends its queue on a new connection:
                        \* Outbound.resumeProducing() sends _queued_unsent one record at a time and stops when the
                        \* transport calls pauseProducing() from inside send_record(); the rest waits for the drain

VARIABLES issued,     \* seqnums the application's operations were given, in order (0, 1, 2, ...)
          oq,         \* A's _outbound_queue: sent-or-unsent records not yet acked
          connA, connB,   \* the Manager of that side currently uses a connection
          linkUp,     \* the current L2 connection still carries data
          wire,       \* records in flight A -> B on the current connection
          acks,       \* acks in flight B -> A
          wm,         \* B's _highest_inbound_acked, as wm+1 (0 = nothing yet)
          delivered,  \* seqnums dispatched to B's subchannels, in order
          unsent,     \* A's _queued_unsent: the part of the queue still to be (re)sent on the current connection
          apaused,    \* A's Outbound._paused
          cand,       \* B's end of the current connection is a candidate: not selected yet (Window only)
          inq,        \* records waiting in that candidate
          cuts,
          last
vars == <<issued, oq, connA, connB, linkUp, wire, acks, wm, delivered, unsent, apaused, cand, inq, cuts, last>>

Init == /\ issued = <<>> /\ oq = <<>> /\ connA = TRUE /\ connB = TRUE /\ linkUp = TRUE /\ wire = <<>> /\ acks = <<>>
        /\ wm = 0 /\ delivered = <<>> /\ unsent = <<>> /\ apaused = FALSE /\ cand = FALSE /\ inq = <<>> /\ cuts = 0 /\ last = <<"Init", 0>>

\* the application writes / opens / closes: build_record + queue_and_send_record
AppSend == /\ Len(issued) < MaxRecords
           /\ LET s == Len(issued) IN
              /\ issued' = Append(issued, s) /\ oq' = Append(oq, s)
              \* queue_and_send_record: behind whatever is still waiting to be re-sent, else straight onto the connection
              /\ IF connA /\ unsent # <<>>
                 THEN unsent' = Append(unsent, s) /\ wire' = wire
                 ELSE unsent' = unsent /\ wire' = IF connA /\ linkUp THEN Append(wire, s) ELSE wire
              /\ last' = <<"AppSend", s>>
           /\ UNCHANGED <<connA, connB, linkUp, acks, wm, delivered, apaused, cand, inq, cuts>>

\* B receives the next record: ack (even when old), drop if old, else advance the watermark and dispatch
DeliverRec == /\ linkUp /\ (connB \/ cand) /\ wire # <<>>
              /\ LET s == Head(wire) IN
                 /\ wire' = Tail(wire)
                 /\ IF connB
                    THEN /\ acks' = Append(acks, s)
                         /\ IF s + 1 <= wm THEN wm' = wm /\ delivered' = delivered
                            ELSE wm' = s + 1 /\ delivered' = Append(delivered, s)
                         /\ inq' = inq
                    ELSE inq' = Append(inq, s) /\ UNCHANGED <<acks, wm, delivered>>      \* selecting: queued in the connection
                 /\ last' = <<"DeliverRec", s>>
              /\ UNCHANGED <<issued, oq, connA, connB, linkUp, unsent, apaused, cand, cuts>>

\* A receives an ack: everything up to it leaves the outbound queue
DeliverAck == /\ linkUp /\ connA /\ acks # <<>>
              /\ LET a == Head(acks) IN
                 /\ acks' = Tail(acks)
                 /\ oq' = SelectSeq(oq, LAMBDA s : s > a)
                 /\ unsent' = SelectSeq(unsent, LAMBDA s : s > a)
                 /\ last' = <<"DeliverAck", a>>
              /\ UNCHANGED <<issued, connA, connB, linkUp, wire, wm, delivered, apaused, cand, inq, cuts>>

\* the connection dies: whatever is in flight, either way, is lost (a mid-frame cut loses that frame)
Cut == /\ linkUp /\ cuts < MaxCuts
       /\ linkUp' = FALSE /\ wire' = <<>> /\ acks' = <<>> /\ cuts' = cuts + 1
       /\ last' = <<"Cut", cuts + 1>>
       /\ UNCHANGED <<issued, oq, connA, connB, wm, delivered, unsent, apaused, cand, inq>>
\* each side notices on its own (stop_using_connection)
\* (A's stop_using_connection forgets what was still to be re-sent on that connection - all of it is in oq - and pauses)
LossA == /\ ~linkUp /\ connA /\ connA' = FALSE /\ unsent' = <<>> /\ apaused' = TRUE /\ last' = <<"LossA", 0>>
         /\ UNCHANGED <<issued, oq, connB, linkUp, wire, acks, wm, delivered, cand, inq, cuts>>
LossB == /\ ~linkUp /\ (connB \/ cand) /\ connB' = FALSE /\ cand' = FALSE /\ inq' = <<>> /\ last' = <<"LossB", 0>>
         /\ UNCHANGED <<issued, oq, connA, linkUp, wire, acks, wm, delivered, unsent, apaused, cuts>>
\* a new connection is selected on both sides: use_connection re-sends the whole outbound queue, in order
\* use_connection: _queued_unsent := _outbound_queue, resumeProducing(): records go out one by one until the queue
\* is empty or - Backpressure - the transport says stop after k of them
Resend(k) == /\ wire' = SubSeq(oq, 1, k) /\ unsent' = SubSeq(oq, k + 1, Len(oq)) /\ apaused' = (k < Len(oq))
Ks == IF Backpressure /\ oq # <<>> THEN 1..Len(oq) ELSE {Len(oq)}
Reconnect == /\ ~Window /\ ~linkUp /\ ~connA /\ ~connB
             /\ linkUp' = TRUE /\ connA' = TRUE /\ connB' = TRUE /\ acks' = <<>>
             /\ \E k \in Ks : Resend(k) /\ last' = <<"Reconnect", k>>
             /\ UNCHANGED <<issued, oq, wm, delivered, cand, inq, cuts>>
\* the transport has drained: resumeProducing() goes on with what is left, and may be stopped again after j records
Drain == /\ connA /\ apaused /\ unsent # <<>>
         /\ \E j \in 1..Len(unsent) :
              /\ wire' = IF linkUp THEN wire \o SubSeq(unsent, 1, j) ELSE wire
              /\ unsent' = SubSeq(unsent, j + 1, Len(unsent)) /\ apaused' = (j < Len(unsent))
              /\ last' = <<"Drain", j>>
         /\ UNCHANGED <<issued, oq, connA, connB, linkUp, acks, wm, delivered, cand, inq, cuts>>
\* Window: the Leader A selects the new connection (its KCM reaches B, whose end becomes a candidate) ...
ReconnectA == /\ Window /\ ~linkUp /\ ~connA /\ ~connB /\ ~cand
              /\ linkUp' = TRUE /\ connA' = TRUE /\ cand' = TRUE /\ inq' = <<>> /\ acks' = <<>>
              /\ Resend(Len(oq)) /\ last' = <<"ReconnectA", Len(oq)>>
              /\ UNCHANGED <<issued, oq, connB, wm, delivered, cuts>>
\* ... and later B's accept() turn selects it: the waiting records go to B's Manager in arrival order.
\* (Connector.select_and_stop_remaining calls c.select(manager) - which empties the queue - before
\* manager.connector_connection_made(c) gives B's Outbound the connection: the acks of these records are issued
\* through send_if_connected() while there is no connection yet and vanish.  Acks are cumulative, so the next one
\* covers them; if there is no next one the records are simply sent again after the next reconnect.)
RECURSIVE ProcQ(_, _)
ProcQ(q, r) == IF q = <<>> THEN r
               ELSE LET s == Head(q) IN
                    ProcQ(Tail(q), IF s + 1 <= r.wm THEN r ELSE [wm |-> s + 1, delivered |-> Append(r.delivered, s)])
SelectB == /\ cand
           /\ LET r == ProcQ(inq, [wm |-> wm, delivered |-> delivered]) IN
              /\ wm' = r.wm /\ delivered' = r.delivered /\ acks' = acks
           /\ cand' = FALSE /\ inq' = <<>> /\ connB' = TRUE
           /\ last' = <<"SelectB", Len(inq)>>
           /\ UNCHANGED <<issued, oq, connA, linkUp, wire, unsent, apaused, cuts>>

Next == AppSend \/ DeliverRec \/ DeliverAck \/ Cut \/ LossA \/ LossB \/ Reconnect \/ ReconnectA \/ SelectB \/ Drain
Spec == Init /\ [][Next]_vars /\ WF_vars(DeliverRec \/ DeliverAck \/ LossA \/ LossB \/ Reconnect \/ ReconnectA \/ SelectB \/ Drain)

\* ---- properties --------------------------------------------------------------------------------------------
\* exactly once, in the order issued
InOrderOnce == IsPrefix(delivered, issued)
\* nothing is forgotten: an undelivered record is still in A's queue
NothingForgotten == \A i \in 1..Len(issued) : (issued[i] + 1 > wm) => (\E j \in 1..Len(oq) : oq[j] = issued[i])
\* once connected and quiet, everything issued has been delivered
Goal == (linkUp /\ connA /\ connB /\ wire = <<>> /\ unsent = <<>>) => delivered = issued
\* what waits to be re-sent is a suffix of the queue, in order; nothing waits without a connection
UnsentSane == /\ (~connA => unsent = <<>>)
              /\ \E k \in 0..Len(oq) : unsent = SubSeq(oq, k + 1, Len(oq))
EventuallyAll == <>[](Len(issued) = MaxRecords => delivered = issued)
====
