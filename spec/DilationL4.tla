---- MODULE DilationL4 ----
\* C10: Dilation L4 - durable, exactly-once, in-order delivery of OPEN/DATA/CLOSE records across a
\* sequence of L2 connections (dilation/outbound.py Outbound._outbound_queue/_queued_unsent/handle_ack/
\* use_connection/stop_using_connection, dilation/inbound.py is_record_old/update_ack_watermark,
\* Manager.got_record: ack first, then de-duplicate, then dispatch).
\* One direction A -> B of records with acks flowing back; the other direction is symmetric.
EXTENDS Naturals, Sequences, FiniteSets, SequencesExt, TLC

CONSTANTS MaxRecords,   \* application operations (each produces one record with the next seqnum)
          MaxCuts       \* connection losses

VARIABLES issued,     \* seqnums the application's operations were given, in order (0, 1, 2, ...)
          oq,         \* A's _outbound_queue: sent-or-unsent records not yet acked
          connA, connB,   \* the Manager of that side currently uses a connection
          linkUp,     \* the current L2 connection still carries data
          wire,       \* records in flight A -> B on the current connection
          acks,       \* acks in flight B -> A
          wm,         \* B's _highest_inbound_acked, as wm+1 (0 = nothing yet)
          delivered,  \* seqnums dispatched to B's subchannels, in order
          cuts,
          last
vars == <<issued, oq, connA, connB, linkUp, wire, acks, wm, delivered, cuts, last>>

Init == /\ issued = <<>> /\ oq = <<>> /\ connA = TRUE /\ connB = TRUE /\ linkUp = TRUE /\ wire = <<>> /\ acks = <<>>
        /\ wm = 0 /\ delivered = <<>> /\ cuts = 0 /\ last = <<"Init", 0>>

\* the application writes / opens / closes: build_record + queue_and_send_record
AppSend == /\ Len(issued) < MaxRecords
           /\ LET s == Len(issued) IN
              /\ issued' = Append(issued, s) /\ oq' = Append(oq, s)
              /\ wire' = IF connA /\ linkUp THEN Append(wire, s) ELSE wire
              /\ last' = <<"AppSend", s>>
           /\ UNCHANGED <<connA, connB, linkUp, acks, wm, delivered, cuts>>

\* B receives the next record: ack (even when old), drop if old, else advance the watermark and dispatch
DeliverRec == /\ linkUp /\ connB /\ wire # <<>>
              /\ LET s == Head(wire) IN
                 /\ wire' = Tail(wire)
                 /\ acks' = Append(acks, s)
                 /\ IF s + 1 <= wm THEN wm' = wm /\ delivered' = delivered
                    ELSE wm' = s + 1 /\ delivered' = Append(delivered, s)
                 /\ last' = <<"DeliverRec", s>>
              /\ UNCHANGED <<issued, oq, connA, connB, linkUp, cuts>>

\* A receives an ack: everything up to it leaves the outbound queue
DeliverAck == /\ linkUp /\ connA /\ acks # <<>>
              /\ LET a == Head(acks) IN
                 /\ acks' = Tail(acks)
                 /\ oq' = SelectSeq(oq, LAMBDA s : s > a)
                 /\ last' = <<"DeliverAck", a>>
              /\ UNCHANGED <<issued, connA, connB, linkUp, wire, wm, delivered, cuts>>

\* the connection dies: whatever is in flight, either way, is lost (a mid-frame cut loses that frame)
Cut == /\ linkUp /\ cuts < MaxCuts
       /\ linkUp' = FALSE /\ wire' = <<>> /\ acks' = <<>> /\ cuts' = cuts + 1
       /\ last' = <<"Cut", cuts + 1>>
       /\ UNCHANGED <<issued, oq, connA, connB, wm, delivered>>
\* each side notices on its own (stop_using_connection)
LossA == /\ ~linkUp /\ connA /\ connA' = FALSE /\ last' = <<"LossA", 0>>
         /\ UNCHANGED <<issued, oq, connB, linkUp, wire, acks, wm, delivered, cuts>>
LossB == /\ ~linkUp /\ connB /\ connB' = FALSE /\ last' = <<"LossB", 0>>
         /\ UNCHANGED <<issued, oq, connA, linkUp, wire, acks, wm, delivered, cuts>>
\* a new connection is selected on both sides: use_connection re-sends the whole outbound queue, in order
Reconnect == /\ ~linkUp /\ ~connA /\ ~connB
             /\ linkUp' = TRUE /\ connA' = TRUE /\ connB' = TRUE /\ wire' = oq /\ acks' = <<>>
             /\ last' = <<"Reconnect", Len(oq)>>
             /\ UNCHANGED <<issued, oq, wm, delivered, cuts>>

Next == AppSend \/ DeliverRec \/ DeliverAck \/ Cut \/ LossA \/ LossB \/ Reconnect
Spec == Init /\ [][Next]_vars /\ WF_vars(DeliverRec \/ DeliverAck \/ LossA \/ LossB \/ Reconnect)

\* ---- properties --------------------------------------------------------------------------------------------
\* exactly once, in the order issued
InOrderOnce == IsPrefix(delivered, issued)
\* nothing is forgotten: an undelivered record is still in A's queue
NothingForgotten == \A i \in 1..Len(issued) : (issued[i] + 1 > wm) => (\E j \in 1..Len(oq) : oq[j] = issued[i])
\* once connected and quiet, everything issued has been delivered
Goal == (linkUp /\ connA /\ connB /\ wire = <<>>) => delivered = issued
EventuallyAll == <>[](Len(issued) = MaxRecords => delivered = issued)
====
